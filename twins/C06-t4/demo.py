#!/venv/bin/python
"""Differential test for property C06.

Generated C CAN code packs and unpacks frames per the packed layout.

For a spread of seeded random flat CAN schemas (1..8 signals, u1..u64, i1..i64,
f32, f64 and enums in any order, field ids shuffled against declaration order,
several devices) the test

  * computes the packed layout with an independent oracle (fields sorted by
    field id, packed back to back) and cross-checks it against fcp.encoding,
  * runs the fcp_can_c generator (twice, output must be repeatable),
  * writes a C harness that, for boundary / one-hot / random in-range values,
    calls the generated encode function and compares id, dlc and all 8 data
    bytes against the oracle, then decodes both the produced frame and an
    independently built frame and compares every field (floats bit for bit),
  * compiles everything with gcc and clang and runs it.

The code under test is found through PYTHONPATH; FCP_ROOT (default
/tmp/twin-C06) is only used to report which tree is being exercised.
Exit status 0 and a final line PASS when the property holds on all inputs.
"""

import os
import random
import shutil
import struct
import subprocess
import sys
import tempfile
from pathlib import Path

FCP_ROOT = os.environ.get("FCP_ROOT", "/tmp/twin-C06")

import fcp  # noqa: E402
import fcp_can_c  # noqa: E402
from fcp.parser import get_fcp_from_string  # noqa: E402
from fcp.encoding import make_encoder, PackedEncoderContext  # noqa: E402
from fcp_can_c import Generator  # noqa: E402

N_SCHEMAS = int(os.environ.get("C06_SCHEMAS", "10"))
N_RANDOM = 6
SEED = 0xC06

failures = []


def fail(msg):
    failures.append(msg)
    print("FAIL:", msg)


# --------------------------------------------------------------------------
# schema model
# --------------------------------------------------------------------------
class Sig:
    def __init__(self, name, kind, bits, fid, enum=None):
        self.name = name
        self.kind = kind  # 'u' | 'i' | 'f32' | 'f64' | 'enum'
        self.bits = bits
        self.fid = fid
        self.enum = enum  # (name, {enumerator: value})
        self.start = None

    def fcp_type(self):
        if self.kind in ("u", "i"):
            return f"{self.kind}{self.bits}"
        if self.kind in ("f32", "f64"):
            return self.kind
        return self.enum[0]

    def c_type(self):
        if self.kind == "f32":
            return "float"
        if self.kind == "f64":
            return "double"
        if self.kind == "enum":
            return self.enum[0]
        w = 8
        while w < self.bits:
            w *= 2
        return ("int" if self.kind == "i" else "uint") + f"{w}_t"


class Msg:
    def __init__(self, name, snake, frame_id, device, sigs):
        self.name = name
        self.snake = snake
        self.frame_id = frame_id
        self.device = device  # None -> default ("global")
        self.sigs = sigs  # declaration order

    def layout(self):
        """Oracle: sort by field id, pack back to back from bit 0."""
        pos = 0
        ordered = sorted(self.sigs, key=lambda s: s.fid)
        for s in ordered:
            s.start = pos
            pos += s.bits
        return ordered, pos


def enum_bits(values):
    m = max(values)
    return 1 if m <= 1 else m.bit_length()


def make_schema(rng, idx):
    enums = []
    for e in range(rng.choice([0, 1, 2, 3])):
        count = rng.choice([2, 3, 4, 5, 9])
        top = rng.choice([1, 2, 3, 7, 8, 15, 100, 255, 256, 1000])
        vals = sorted(set([0, top] + [rng.randrange(0, top + 1) for _ in range(count)]))
        if rng.random() < 0.3:
            vals = [v for v in vals if v != 0] or [top]
        ename = f"En{idx}x{e}"
        enums.append((ename, {f"E{idx}x{e}_{i}": v for i, v in enumerate(vals)}))

    msgs = []
    n_msgs = rng.randrange(4, 8)
    ids = rng.sample(range(0, 2048), n_msgs)
    devices = ["ecu", "bms", "dash_board"]
    fixed = [
        [("u", 64)],
        [("i", 64)],
        [("f64", 64)],
        [("f32", 32), ("f32", 32)],
        [("u", 1)] * 8,
        [("i", 1), ("u", 63)],
        [("u", 1), ("i", 63)],
        [("i", 33), ("u", 31)],
        [("u", 7), ("f32", 32), ("i", 25)],
        [("i", 32), ("i", 16), ("i", 8), ("u", 8)],
        [("u", 3), ("i", 13), ("u", 17), ("i", 31)],
    ]
    for m in range(n_msgs):
        if m == 0:
            shape = list(fixed[idx % len(fixed)])
        elif m == 1:
            shape = list(fixed[(idx * 3 + 1) % len(fixed)])
        else:
            shape = []
            budget = 64
            for _ in range(rng.randrange(1, 9)):
                if budget <= 0:
                    break
                k = rng.choice(["u", "u", "i", "i", "f32", "enum", "u", "i"])
                if k == "f32":
                    if budget < 32:
                        continue
                    shape.append(("f32", 32))
                    budget -= 32
                elif k == "enum":
                    if not enums:
                        continue
                    en = rng.choice(enums)
                    b = enum_bits(en[1].values())
                    if b > budget:
                        continue
                    shape.append(("enum", b, en))
                    budget -= b
                else:
                    b = rng.choice(
                        [1, 2, 3, 5, 7, 8, 9, 12, 15, 16, 17, 24, 31, 32, 33, 40, 63]
                        + [rng.randrange(1, 65)] * 4
                    )
                    b = min(b, budget)
                    shape.append((k, b))
                    budget -= b
            if not shape:
                shape.append((rng.choice("ui"), rng.randrange(1, 65)))
        fids = rng.sample(range(0, 40), len(shape))
        sigs = []
        for j, sh in enumerate(shape):
            sigs.append(
                Sig(f"s{j}", sh[0], sh[1], fids[j], sh[2] if len(sh) > 2 else None)
            )
        letter = "abcdefghij"[m]
        name = f"M{letter}Frame{idx}"
        snake = f"m{letter}_frame{idx}"
        device = None if (m == 2 and idx % 4 == 1) else rng.choice(devices)
        msgs.append(Msg(name, snake, ids[m], device, sigs))
    return enums, msgs


def schema_source(enums, msgs):
    out = ['version: "3"', ""]
    for name, values in enums:
        out.append(f"enum {name} {{")
        for k, v in values.items():
            out.append(f"    {k} = {v},")
        out.append("}\n")
    for m in msgs:
        out.append(f"struct {m.name} {{")
        for s in m.sigs:
            out.append(f"    {s.name} @{s.fid}: {s.fcp_type()},")
        out.append("}\n")
        out.append(f"impl can for {m.name} {{")
        out.append(f"    id: {m.frame_id},")
        if m.device is not None:
            out.append(f'    device: "{m.device}",')
        out.append("}\n")
    return "\n".join(out)


# --------------------------------------------------------------------------
# values
# --------------------------------------------------------------------------
F32_SPECIAL = [0x00000000, 0x80000000, 0x3F800000, 0xBF800000, 0x7F7FFFFF,
               0x00000001, 0x807FFFFF, 0x7F800000, 0xFF800000, 0x40490FDB]
F64_SPECIAL = [0x0, 0x8000000000000000, 0x3FF0000000000000, 0xBFF0000000000000,
               0x7FEFFFFFFFFFFFFF, 0x0000000000000001, 0x800FFFFFFFFFFFFF,
               0x7FF0000000000000, 0xFFF0000000000000, 0x400921FB54442D18]


def sig_range(s):
    if s.kind == "u":
        return 0, (1 << s.bits) - 1
    if s.kind == "i":
        return -(1 << (s.bits - 1)), (1 << (s.bits - 1)) - 1
    raise AssertionError


def raw_of(s, v):
    """Raw bit pattern that the layout packing puts on the wire for value v."""
    return v & ((1 << s.bits) - 1)


def pick(rng, s, mode):
    """Return the logical value for signal s (int; for floats the bit pattern)."""
    if s.kind in ("u", "i"):
        lo, hi = sig_range(s)
        if mode == "zero":
            return 0
        if mode == "max":
            return hi
        if mode == "min":
            return lo
        if mode == "alt":
            pattern = 0x5555555555555555 & ((1 << s.bits) - 1)
            return pattern if s.kind == "u" else (
                pattern - (1 << s.bits) if pattern >> (s.bits - 1) else pattern
            )
        if mode == "m1":
            return -1 if s.kind == "i" else hi
        r = rng.random()
        if r < 0.2:
            return rng.choice([lo, hi, lo + (hi > lo), hi - (hi > lo)])
        return rng.randrange(lo, hi + 1)
    if s.kind == "enum":
        vals = sorted(s.enum[1].values())
        if mode in ("zero", "min"):
            return vals[0]
        if mode in ("max", "m1"):
            return vals[-1]
        return rng.choice(vals)
    special = F32_SPECIAL if s.kind == "f32" else F64_SPECIAL
    if mode == "zero":
        return 0
    if mode == "max":
        return special[4]
    if mode == "min":
        return special[6]
    if mode == "m1":
        return special[3]
    if mode == "alt":
        return special[9]
    if rng.random() < 0.5:
        return rng.choice(special)
    if s.kind == "f32":
        x = rng.uniform(-1e6, 1e6) * rng.choice([1, 1e-20, 1e20])
        return struct.unpack("<I", struct.pack("<f", x))[0]
    x = rng.uniform(-1e12, 1e12) * rng.choice([1, 1e-200, 1e200])
    return struct.unpack("<Q", struct.pack("<d", x))[0]


def vectors(rng, m):
    vecs = []
    for mode in ("zero", "max", "min", "alt", "m1"):
        vecs.append({s.name: pick(rng, s, mode) for s in m.sigs})
    # one-hot: one signal saturated, the others zero -> detects overlaps / leaks
    for hot in m.sigs:
        for mode in ("max", "m1"):
            v = {s.name: pick(rng, s, "zero") for s in m.sigs}
            v[hot.name] = pick(rng, hot, mode)
            vecs.append(v)
    for _ in range(N_RANDOM):
        vecs.append({s.name: pick(rng, s, "rnd") for s in m.sigs})
    return vecs


def c_int(v):
    if v == -(1 << 63):
        return "(-9223372036854775807LL-1)"
    if v < 0:
        return f"({v}LL)"
    return f"{v}ULL"


# --------------------------------------------------------------------------
# harness
# --------------------------------------------------------------------------
HARNESS_HEAD = r"""
#include <stdio.h>
#include <string.h>
#include <stdint.h>
#include <stdbool.h>
%(includes)s

static int n_fail = 0;
static int n_check = 0;

static void check_frame(const char *tag, const CanFrame *f, unsigned id, unsigned dlc, uint64_t w) {
    n_check++;
    if (f->id != id) { n_fail++; printf("%%s: id %%u != %%u\n", tag, (unsigned)f->id, id); }
    if (f->dlc != dlc) { n_fail++; printf("%%s: dlc %%u != %%u\n", tag, (unsigned)f->dlc, dlc); }
    for (int i = 0; i < 8; i++) {
        uint8_t e = (uint8_t)((w >> (8 * i)) & 0xff);
        if (f->data[i] != e) { n_fail++; printf("%%s: data[%%d] %%02x != %%02x\n", tag, i, f->data[i], e); }
    }
}
/* decode computes scale * x + offset with offset = +0.0, so -0.0 comes back as +0.0:
 * equal as a value, which is what the property asks for. Everything else bit-exact. */
static bool same_f32(float a, float b) { return memcmp(&a, &b, 4) == 0 || (a == 0.0f && b == 0.0f); }
static bool same_f64(double a, double b) { return memcmp(&a, &b, 8) == 0 || (a == 0.0 && b == 0.0); }
static void bad(const char *tag, const char *field, const char *which) {
    n_fail++; printf("%%s: decode(%%s) field %%s differs\n", tag, which, field);
}
"""


def build_harness(msgs, rng):
    devs = []
    for m in msgs:
        d = m.device or "global"
        if d not in devs:
            devs.append(d)
    includes = "\n".join(f'#include "{d}_can.h"' for d in devs)
    out = [HARNESS_HEAD % {"includes": includes}]
    n_vec = 0
    for m in msgs:
        ordered, total = m.layout()
        dlc = (total + 7) // 8
        out.append(f"static void test_{m.snake}(void) {{")
        for vi, vec in enumerate(vectors(rng, m)):
            n_vec += 1
            word = 0
            for s in ordered:
                word |= raw_of(s, vec[s.name]) << s.start
            assert word < (1 << 64)
            tag = f"{m.name}#{vi}"
            out.append("  {")
            out.append(f"    CanMsg{m.name} v; memset(&v, 0, sizeof v);")
            for s in m.sigs:
                val = vec[s.name]
                if s.kind == "f32":
                    out.append(f"    {{ uint32_t b = {val}UL; memcpy(&v.{s.name}, &b, 4); }}")
                elif s.kind == "f64":
                    out.append(f"    {{ uint64_t b = {val}ULL; memcpy(&v.{s.name}, &b, 8); }}")
                else:
                    out.append(f"    v.{s.name} = ({s.c_type()}){c_int(val)};")
            out.append(f"    CanFrame f = can_encode_msg_{m.snake}(&v);")
            out.append(f'    check_frame("{tag}", &f, {m.frame_id}u, {dlc}u, {word}ULL);')
            out.append("    CanFrame g; memset(&g, 0, sizeof g);")
            out.append(f"    g.id = {m.frame_id}; g.dlc = {dlc};")
            out.append(f"    {{ uint64_t w = {word}ULL; for (int i = 0; i < 8; i++) g.data[i] = (uint8_t)(w >> (8 * i)); }}")
            out.append(f"    CanMsg{m.name} d1 = can_decode_msg_{m.snake}(&f);")
            out.append(f"    CanMsg{m.name} d2 = can_decode_msg_{m.snake}(&g);")
            for s in m.sigs:
                for dn in ("d1", "d2"):
                    if s.kind in ("f32", "f64"):
                        cond = f"!same_{s.kind}({dn}.{s.name}, v.{s.name})"
                    else:
                        cond = f"{dn}.{s.name} != v.{s.name}"
                    out.append(f'    if ({cond}) bad("{tag}", "{s.name}", "{dn}");')
            out.append(f"    if (!can_is_{(m.device or 'global')}_msg(&f)) bad(\"{tag}\", \"-\", \"can_is_dev_msg\");")
            out.append("  }")
        out.append("}")
    out.append("int main(void) {")
    for m in msgs:
        out.append(f"  test_{m.snake}();")
    out.append('  printf("checks=%d failures=%d\\n", n_check, n_fail);')
    out.append("  return n_fail ? 1 : 0;")
    out.append("}")
    return "\n".join(out) + "\n", n_vec


COMPILERS = [
    ("gcc", ["gcc", "-std=gnu11", "-O0", "-w"]),
    ("clang", ["clang", "-std=gnu11", "-O2", "-fno-strict-aliasing", "-w"]),
]


def generate(fcp_v2, outdir):
    gen = Generator()
    files = gen.generate(fcp_v2, {"output": Path(outdir)})
    return {os.path.basename(str(f["path"])): str(f["contents"]) for f in files}, files


def run_schema(idx, rng, workdir):
    enums, msgs = make_schema(rng, idx)
    src = schema_source(enums, msgs)
    fcp_v2 = get_fcp_from_string(src).unwrap()

    # oracle layout vs fcp.encoding
    encoder = make_encoder("packed", fcp_v2, PackedEncoderContext().with_unroll_arrays(True))
    impls = {impl.name: impl for impl in fcp_v2.get_matching_impls("can")}
    for m in msgs:
        ordered, total = m.layout()
        pieces = encoder.generate(impls[m.name])
        got = [(p.name, p.bitstart, p.bitlength) for p in pieces]
        want = [(s.name, s.start, s.bits) for s in ordered]
        if got != want:
            fail(f"schema {idx} {m.name}: encoder layout {got} != oracle {want}")

    outdir = os.path.join(workdir, f"s{idx}")
    contents1, files = generate(fcp_v2, outdir)
    contents2, _ = generate(fcp_v2, outdir)
    if contents1 != contents2:
        fail(f"schema {idx}: generator output not repeatable")
    for f in files:
        Path(str(f["path"])).write_text(str(f["contents"]))

    expected_files = {"can_frame.h", "can_signal_parser.h", "can_signal_parser.c"}
    for m in msgs:
        d = m.device or "global"
        expected_files |= {f"{d}_can.h", f"{d}_can.c"}
    if enums:
        expected_files.add("global_can.h")
    if set(contents1) != expected_files:
        fail(f"schema {idx}: files {sorted(contents1)} != {sorted(expected_files)}")

    # id / dlc advertised in the generated text
    for m in msgs:
        d = m.device or "global"
        _, total = m.layout()
        hdr = contents1[f"{d}_can.h"]
        if f"#define CAN_MSG_ID_{m.snake.upper()} {m.frame_id}\n" not in hdr:
            fail(f"schema {idx} {m.name}: id define missing")
        csrc = contents1[f"{d}_can.c"]
        if f".id = {m.frame_id}, .dlc = {(total + 7) // 8}}}" not in csrc:
            fail(f"schema {idx} {m.name}: id/dlc initialiser missing")

    harness, n_vec = build_harness(msgs, rng)
    hpath = os.path.join(outdir, "harness.c")
    Path(hpath).write_text(harness)
    csources = sorted(str(p) for p in Path(outdir).glob("*.c"))
    for cname, cmd in COMPILERS:
        exe = os.path.join(outdir, f"harness_{cname}")
        r = subprocess.run(cmd + ["-I", outdir, "-o", exe] + csources,
                           capture_output=True, text=True)
        if r.returncode != 0:
            fail(f"schema {idx}: {cname} compile failed:\n{r.stderr[:2000]}")
            continue
        r = subprocess.run([exe], capture_output=True, text=True)
        if r.returncode != 0:
            fail(f"schema {idx}: {cname} harness failed:\n{r.stdout[-2000:]}")
    return len(msgs), n_vec


def run_error_inputs():
    """Inputs outside the property: must keep failing the same way."""
    # 1. impl without an id
    src = 'version: "3"\nstruct A {\n    x @0: u8,\n}\nimpl can for A {\n    device: "ecu",\n}\n'
    fcp_v2 = get_fcp_from_string(src).unwrap()
    scratch = tempfile.mkdtemp(prefix="c06e_")
    try:
        Generator().generate(fcp_v2, {"output": Path(scratch)})
        fail("missing id: generator did not raise")
    except Exception as e:  # noqa: BLE001
        if type(e).__name__ != "UnwrapError" or "No id field found in extension" not in str(e):
            fail(f"missing id: unexpected error {e!r}")
    finally:
        shutil.rmtree(scratch, ignore_errors=True)
    # 2. oversize frame is rejected by the plug-in's registered check
    from fcp.verifier import Verifier

    src = 'version: "3"\nstruct B {\n    x @0: u64,\n    y @1: u1,\n}\nimpl can for B {\n    id: 5,\n}\n'
    fcp_v2 = get_fcp_from_string(src).unwrap()
    ver = Verifier()
    Generator().register_checks(ver)
    res = ver.verify(fcp_v2)
    if not res.is_err():
        fail("65 bit frame accepted by check_impl_size")
    elif "way too big at 65 bits" not in str(res.err()):
        fail(f"unexpected oversize diagnostic: {res.err()}")
    # 3. exactly 64 bits is accepted
    src = 'version: "3"\nstruct C {\n    x @0: u63,\n    y @1: u1,\n}\nimpl can for C {\n    id: 5,\n}\n'
    fcp_v2 = get_fcp_from_string(src).unwrap()
    ver = Verifier()
    Generator().register_checks(ver)
    if ver.verify(fcp_v2).is_err():
        fail("64 bit frame rejected")


EXTRA_CHECKS = []

def extra_signal_parser_exhaustive():
    """can_signal_parser.c on its own: every (start, length) window of every integer width
    against bit formulas written independently in the harness; floats at every offset."""
    import fcp_can_c as _pkg

    tdir = os.path.join(os.path.dirname(os.path.dirname(os.path.realpath(_pkg.__file__))), "templates")
    outdir = tempfile.mkdtemp(prefix="c06_extra4_")
    harness = r'''
#include <stdio.h>
#include <string.h>
#include <stdint.h>
#include <stdbool.h>
#include "can_frame.h"
#include "can_signal_parser.h"

static uint64_t mask(unsigned n) { return n >= 64 ? ~0ULL : ((1ULL << n) - 1); }
static int64_t sext(uint64_t raw, unsigned n) {
    if (n < 64 && ((raw >> (n - 1)) & 1)) raw |= ~mask(n);
    return (int64_t)raw;
}
static uint64_t rnd_state = 0x9E3779B97F4A7C15ULL;
static uint64_t rnd(void) {
    rnd_state ^= rnd_state << 13; rnd_state ^= rnd_state >> 7; rnd_state ^= rnd_state << 17;
    return rnd_state;
}
static CanFrame frame_of(uint64_t w) {
    CanFrame f; memset(&f, 0, sizeof f);
    for (int i = 0; i < 8; i++) f.data[i] = (uint8_t)(w >> (8 * i));
    return f;
}
static long n_bad = 0, n_ok = 0;
#define CHECK(c, ...) do { if (c) n_ok++; else { if (n_bad++ < 20) { printf(__VA_ARGS__); printf("\n"); } } } while (0)

#define TEST_INT(W, UT, ST)                                                                      \
static void test_##W(void) {                                                                     \
    for (unsigned len = 1; len <= W; len++)                                                      \
        for (unsigned start = 0; start + len <= 64; start++)                                     \
            for (int k = 0; k < 12; k++) {                                                       \
                uint64_t r = k == 0 ? 0 : k == 1 ? ~0ULL : k == 2 ? mask(len - 1) :              \
                             k == 3 ? (1ULL << (len - 1)) : rnd();                               \
                UT uv = (UT)(r & mask(len));                                                     \
                ST sv = (ST)sext(r & mask(len), len);                                            \
                uint64_t want = (r & mask(len)) << start;                                        \
                uint64_t eu = can_encode_signal_from_##UT(uv, start, len, 1.0, 0.0, false);      \
                uint64_t es = can_encode_signal_from_##ST(sv, start, len, 1.0, 0.0, false);      \
                CHECK(eu == want, "enc " #UT " start=%u len=%u", start, len);                    \
                CHECK(es == want, "enc " #ST " start=%u len=%u", start, len);                    \
                uint64_t noise = rnd();                                                          \
                uint64_t word = (noise & ~(mask(len) << start)) | want;                          \
                CanFrame f = frame_of(word);                                                     \
                UT du = can_decode_signal_as_##UT(&f, start, len, 1.0, 0.0, false);              \
                ST ds = can_decode_signal_as_##ST(&f, start, len, 1.0, 0.0, false);              \
                CHECK(du == uv, "dec " #UT " start=%u len=%u", start, len);                      \
                CHECK(ds == sv, "dec " #ST " start=%u len=%u", start, len);                      \
            }                                                                                    \
}
TEST_INT(8, uint8_t, int8_t)
TEST_INT(16, uint16_t, int16_t)
TEST_INT(32, uint32_t, int32_t)
TEST_INT(64, uint64_t, int64_t)

static void test_float(void) {
    static const uint32_t pats[] = {0, 0x3F800000, 0xBF800000, 0x7F7FFFFF, 0x00000001,
                                    0x7F800000, 0xFF800000, 0x40490FDB, 0xC2F6E979};
    for (unsigned start = 0; start + 32 <= 64; start++)
        for (unsigned k = 0; k < sizeof pats / sizeof pats[0]; k++) {
            float v; memcpy(&v, &pats[k], 4);
            uint64_t e = can_encode_signal_from_float(v, start, 32, 1.0, 0.0, false);
            CHECK(e == ((uint64_t)pats[k] << start), "enc float start=%u k=%u", start, k);
            CanFrame f = frame_of(e | (rnd() & ~(mask(32) << start)));
            float d = can_decode_signal_as_float(&f, start, 32, 1.0, 0.0, false);
            CHECK(memcmp(&d, &v, 4) == 0, "dec float start=%u k=%u", start, k);
        }
    static const uint64_t dp[] = {0, 0x3FF0000000000000ULL, 0xBFF0000000000000ULL,
                                  0x7FEFFFFFFFFFFFFFULL, 1, 0x7FF0000000000000ULL,
                                  0x400921FB54442D18ULL};
    for (unsigned k = 0; k < sizeof dp / sizeof dp[0]; k++) {
        double v; memcpy(&v, &dp[k], 8);
        uint64_t e = can_encode_signal_from_double(v, 0, 64, 1.0, 0.0, false);
        CHECK(e == dp[k], "enc double k=%u", k);
        CanFrame f = frame_of(e);
        double d = can_decode_signal_as_double(&f, 0, 64, 1.0, 0.0, false);
        CHECK(memcmp(&d, &v, 8) == 0, "dec double k=%u", k);
    }
}

int main(void) {
    for (unsigned n = 0; n < 256; n++)
        CHECK(bitmask((uint8_t)n) == mask(n), "bitmask(%u)", n);
    test_8(); test_16(); test_32(); test_64(); test_float();
    printf("ok=%ld bad=%ld\n", n_ok, n_bad);
    return n_bad ? 1 : 0;
}
'''
    try:
        for name in ("can_frame.h", "can_signal_parser.h", "can_signal_parser.c"):
            shutil.copy(os.path.join(tdir, name), outdir)
        Path(os.path.join(outdir, "h.c")).write_text(harness)
        for cc, opts in (("gcc", ["-O0"]), ("gcc", ["-O2", "-fno-strict-aliasing"]),
                         ("clang", ["-O0"]), ("clang", ["-O2", "-fno-strict-aliasing"])):
            exe = os.path.join(outdir, "h_" + cc + opts[0])
            r = subprocess.run([cc, "-std=gnu11", "-w", "-I", outdir, "-o", exe,
                                os.path.join(outdir, "h.c"), os.path.join(outdir, "can_signal_parser.c")] + opts,
                               capture_output=True, text=True)
            if r.returncode != 0:
                fail(f"extra4 {cc} {opts}: compile: {r.stderr[:1500]}")
                continue
            r = subprocess.run([exe], capture_output=True, text=True)
            print(f"  signal parser {cc} {opts[0]}: {r.stdout.strip().splitlines()[-1] if r.stdout else r.returncode}")
            if r.returncode != 0:
                fail(f"extra4 {cc} {opts}: {r.stdout[-1500:]}")
    finally:
        shutil.rmtree(outdir, ignore_errors=True)


EXTRA_CHECKS.append(extra_signal_parser_exhaustive)


def main():
    print("fcp from      :", os.path.dirname(fcp.__file__))
    print("fcp_can_c from:", os.path.dirname(fcp_can_c.__file__))
    for mod in (fcp, fcp_can_c):
        if not os.path.realpath(mod.__file__).startswith(os.path.realpath(FCP_ROOT) + os.sep):
            print(f"WARNING: {mod.__name__} is not loaded from FCP_ROOT={FCP_ROOT}; set PYTHONPATH")
    rng = random.Random(SEED)
    workdir = tempfile.mkdtemp(prefix="c06_demo_")
    total_msgs = total_vecs = 0
    try:
        for idx in range(N_SCHEMAS):
            n_m, n_v = run_schema(idx, rng, workdir)
            total_msgs += n_m
            total_vecs += n_v
        run_error_inputs()
        for check in EXTRA_CHECKS:
            check()
            print("extra check done:", check.__name__)
    finally:
        if not os.environ.get("C06_KEEP"):
            shutil.rmtree(workdir, ignore_errors=True)
        else:
            print("kept", workdir)
    print(f"schemas={N_SCHEMAS} messages={total_msgs} vectors={total_vecs} compilers={len(COMPILERS)}")
    if failures:
        print(f"FAIL ({len(failures)} failures)")
        return 1
    print("PASS")
    return 0


if __name__ == "__main__":
    sys.exit(main())
