#!/venv/bin/python
"""C09 demo 3: with the C plug-in's checks registered the verifier rejects a CAN
binding exactly when the message is wider than 64 bits (or bound to an unknown
struct).

Exercises messages built out of nested structs, arrays and enums, among them
messages in which the same nested struct type is used by more than one field.
"""
import itertools
import sys

from fcp.parser import get_fcp_from_string
from fcp.verifier import make_general_verifier
from fcp.specs.type import ArrayType, StructType, EnumType
import fcp_can_c

HEADER = 'version: "3"\n'
POINT = "struct Point { x @0: u16, y @1: u16, }"
STATE = "enum State { Off = 0, On = 1, Error = 2, }"

CASES = {
    "two fields of the same struct type, 64 bits": [
        POINT,
        "struct Msg { a @0: Point, b @1: Point, }",
        "impl can for Msg { id: 1, }",
    ],
    "two fields of the same struct type, 72 bits": [
        POINT,
        "struct Msg { a @0: Point, b @1: Point, c @2: u8, }",
        "impl can for Msg { id: 1, }",
    ],
    "same struct reached through two paths, 64 bits": [
        POINT,
        "struct Inner { p @0: Point, }",
        "struct Msg { p @0: Point, q @1: Inner, }",
        "impl can for Msg { id: 1, }",
    ],
    "array of two structs, 64 bits": [
        POINT,
        "struct Msg { ps @0: [Point, 2], }",
        "impl can for Msg { id: 1, }",
    ],
    "array of three structs, 96 bits": [
        POINT,
        "struct Msg { ps @0: [Point, 3], }",
        "impl can for Msg { id: 1, }",
    ],
    "enums and array of enums, 2 + 8*2 + 32 = 50 bits": [
        STATE,
        "struct Msg { s @0: State, ss @1: [State, 8], v @2: f32, }",
        "impl can for Msg { id: 1, }",
    ],
    "one nested struct and scalars, 32 + 33 = 65 bits": [
        POINT,
        "struct Msg { p @0: Point, v @1: u33, }",
        "impl can for Msg { id: 1, }",
    ],
}


def width(fcp, type):
    """Packed width of a type, straight from the definition."""
    if isinstance(type, ArrayType):
        return type.size * width(fcp, type.underlying_type)
    if isinstance(type, StructType):
        struct = next(s for s in fcp.structs if s.name == type.name)
        return sum(width(fcp, f.type) for f in struct.fields)
    if isinstance(type, EnumType):
        enum = next(e for e in fcp.enums if e.name == type.name)
        return max(1, max(e.value for e in enum.enumeration).bit_length())
    return int(type.name[1:])  # uN / iN / f32 / f64


def spec_ok(fcp):
    structs = {s.name for s in fcp.structs}
    if not all(i.type in structs for i in fcp.impls):
        return False
    return all(
        width(fcp, StructType(i.type)) <= 64 for i in fcp.impls if i.protocol == "can"
    )


def orders(decls):
    """Type declarations must precede their use; the impl can go anywhere."""
    *types, impl = decls
    for pos in range(len(types) + 1):
        yield types[:pos] + [impl] + types[pos:]


def main():
    bad = []
    for label, decls in CASES.items():
        for perm in orders(decls):
            fcp = get_fcp_from_string(HEADER + "\n".join(perm) + "\n").unwrap()
            verifier = make_general_verifier()
            fcp_can_c.Generator().register_checks(verifier)
            result = verifier.verify(fcp)
            got, want = result.is_ok(), spec_ok(fcp)
            if got != want:
                bad.append((label, got, want, result))

    for label, got, want, result in bad:
        print(f"wrong verdict on '{label}': verifier ok={got}, specification ok={want}")
        if result.is_err():
            print(f"    {result.err()}")
    if bad:
        print("FAIL")
        return 1
    print("PASS")
    return 0


if __name__ == "__main__":
    sys.exit(main())
