#!/venv/bin/python
"""C17 demo: generated artefacts are a deterministic function of the schema.

Driver mode (no arguments): launches worker processes under several
PYTHONHASHSEED values and with several different "what happened before in this
process" histories, and checks that every worker reports exactly the same set of
files with the same contents (the documented generation-stamp comment line of
the C++ generator is removed before hashing) and the same errors for the
schemas that cannot be generated.

Worker mode (--worker HISTORY OUT.json): parses and generates every schema with
every generator following HISTORY and dumps {case: {file: sha256}}.

The code under test is found through PYTHONPATH; FCP_ROOT (default
/tmp/twin2-C17) is only used to locate the schemas shipped with the repository.
"""

import hashlib
import json
import os
import subprocess
import sys
import tempfile
from pathlib import Path

FCP_ROOT = Path(os.environ.get("FCP_ROOT", "/tmp/twin2-C17"))

# --------------------------------------------------------------------------- #
# Schemas                                                                     #
# --------------------------------------------------------------------------- #

SCHEMAS = {
    "basic": """version: "3"
struct Foo {
    s1 @0: u8 | unit("m/s"),
    s2 @1: u16 | unit("C"),
}
impl can for Foo {
    id: 10,
    device: "ecu1",
}
""",
    "field_id_order": """version: "3"
enum Mode {
    Off = 0,
    On = 1,
    Fault = 5,
}
struct Inner {
    b @1: u3,
    a @0: i5,
}
struct Outer {
    tail @2: u7,
    inner @1: Inner,
    mode @0: Mode,
    arr @3: [u4, 3],
}
impl can for Outer as OuterMsg {
    id: 0x20,
    device: "ecu_a",
    bus: "b1",
    period: 100,
    signal tail {
        endianness: "big",
    },
}
impl can for Inner {
    id: 33,
    device: "ecu_b",
    bus: "b2",
}
""".replace("0x20", "32"),
    "mux": """version: "3"
struct Foo {
    s1 @0: u8,
    s2 @1: u8,
    s3 @2: i12,
}
impl can for Foo {
    id: 10,
    device: "mux_dev",
    signal s2 {
        mux_count: 4,
        mux_signal: "s1",
    },
}
""",
    "multi_bus_multi_dev": """version: "3"
struct A {
    x @0: u16,
    y @1: f32,
}
struct B {
    z @0: i64,
}
struct C {
    w @0: [u8, 8],
}
impl can for A {
    id: 1,
    bus: "bus2",
    device: "d2",
}
impl can for A as A2 {
    id: 2,
    bus: "bus1",
    device: "d1",
}
impl can for B {
    id: 3,
    bus: "bus2",
    device: "d1",
    endianess: "big",
}
impl can for C {
    id: 4,
    bus: "bus3",
    device: "d3",
}
impl can for C as C2 {
    id: 5,
    device: "d2",
}
""",
    "protocols": """version: "3"
enum E {
    S0 = 0,
    S1 = 1,
    S2 = 2,
}
struct P1 {
    a @0: u8,
    b @1: E,
}
struct P2 {
    a @0: str,
    b @1: [u8],
    c @2: Optional[u16],
    d @3: [P1],
    e @4: [E, 4],
    f @5: f64,
}
struct P3 {
    a @0: u1,
}
impl can for P1 {
    id: 7,
    endianess: "big",
}
impl uart for P1 as P1Uart {
    speed: 9600,
}
impl spi for P2 {
    mode: 3,
    endianess: "big",
}
impl zeta for P3 {
    k: [1, 2, 3],
}
impl alpha for P3 {
    k: "v",
}
impl can for P3 {
    id: 9,
    bus: "x",
}
""",
    "services": """version: "3"
struct Req {
    a @0: u8,
}
struct Rsp {
    b @0: u32,
    c @1: Req,
}
struct Other {
    q @0: i8,
}
service Motor @1 {
    method Start(Req) @0 returns Rsp,
    method Stop(Other) @1 returns Req,
}
service Light @2 {
    method Toggle(Req) @0 returns Other,
}
device ecu {
    id: 3,
}
impl can for Req {
    id: 100,
    device: "ecu",
}
""",
    "only_enums_no_can": """version: "3"
enum Big {
    A = 0,
    Z = 255,
}
enum Wide {
    A = 0,
    Z = 70000,
}
struct S {
    a @0: Big,
    b @1: Wide,
}
""",
    "endianess_variants": """version: "3"
struct V1 {
    a @0: u16,
    b @1: i3,
}
struct V2 {
    a @0: u16,
}
struct V3 {
    a @0: u16,
}
struct V4 {
    a @0: u16,
}
struct V5 {
    a @0: u16,
}
struct V6 {
    a @0: u16,
}
impl p for V1 {
    endianess: "big",
}
impl p for V2 {
    endianess: "little",
}
impl p for V3 {
    endianess: "BIG",
}
impl p for V4 {
    endianess: 5,
}
impl p for V5 {
    endianess: ["big"],
}
impl p for V6 {
    endianess: big,
    bus: "b",
}
impl q for V6 as V6Q {
    other: 1,
}
""",
    "impl_shapes": """version: "3"
struct T {
    c @2: u8 | range(0.0, 10.0) | unit("V"),
    a @0: u8 | unit("A") | range(1.0, 2.5),
    b @1: u8 | range(0.5, 1.5),
}
impl can for T as TMsg {
    signal c {
        mux_count: 2,
        mux_signal: "a",
    },
    id: 1,
    device: "first",
    signal b {
        endianness: "big",
    },
    id: 70,
    device: "second",
    signal b {
        endianness: "little",
    },
    period: 10,
}
impl can for T {
    signal a {
        scale: 2,
    },
    id: 71,
}
impl can for T as Third {
    id: 72,
    device: "second",
    bus: "other",
}
impl can for T as Fourth {
    id: 73,
    device: "second",
    bus: "other",
}
impl can for T as Fifth {
    id: 74,
    device: "fifth",
    bus: "default",
}
""",
    # ---- schemas some generators must refuse, always with the same error ---- #
    "err_second_impl_no_id": """version: "3"
struct Ok1 {
    a @0: u8,
}
struct Bad {
    a @0: u8,
}
impl can for Ok1 {
    id: 5,
    bus: "b1",
    device: "d",
}
impl can for Bad {
    bus: "b2",
}
""",
    "err_unknown_param": """version: "3"
struct Q {
    a @0: u8 | colour("red"),
}
""",
    "err_int_range": """version: "3"
struct Q {
    a @0: u8 | range(0, 10),
}
""",
    "err_list_bus": """version: "3"
struct Q {
    a @0: u8,
}
impl can for Q {
    id: 1,
    bus: ["x", "y"],
    device: "d",
}
""",
    "odd_device_values": """version: "3"
struct Q {
    a @0: u8,
}
impl can for Q {
    id: 1,
    device: ["x", "y"],
}
impl can for Q as Q2 {
    id: 2,
    device: ["x", "y"],
}
impl can for Q as Q3 {
    id: 3,
    device: 7,
}
""",
    "err_unknown_type": """version: "3"
struct Q {
    a @0: Missing,
}
""",
    "err_too_big": """version: "3"
struct Huge {
    a @0: u64,
    b @1: u8,
}
impl can for Huge {
    id: 1,
    device: "d",
}
""",
    "err_no_id": """version: "3"
struct NoId {
    a @0: u8,
}
impl can for NoId {
    device: "d",
}
""",
    "err_dynamic_in_can": """version: "3"
struct Dyn {
    a @0: str,
}
impl can for Dyn {
    id: 3,
}
""",
}

REPO_SCHEMAS = [
    "plugins/fcp_cpp/tests/schemas/test.fcp",
    "plugins/fcp_dbc/tests/schemas/generator/004_nested_nested_struct.fcp",
    "plugins/fcp_dbc/tests/schemas/generator/006_big_endian.fcp",
    "plugins/fcp_dbc/tests/schemas/generator/007_muxed_signals.fcp",
    "plugins/fcp_dbc/tests/schemas/generator/009_compounded_type_array.fcp",
    "plugins/fcp_dbc/tests/schemas/generator/010_multiple_bus.fcp",
    "plugins/fcp_can_c/tests/004_little_endian/test.fcp",
    "plugins/fcp_can_c/tests/005_big_endian/test.fcp",
    "example/example.fcp",
    "plugins/fcp_dbc/example/example.fcp",
]

GENERATORS = ["ast", "dbc", "can_c", "cpp"]

HISTORIES = ["forward", "reverse", "twice", "interleaved", "cpp_first"]
SEEDS = ["0", "1", "2", "17", "4242", "random"]


def all_schema_names():
    names = list(SCHEMAS)
    for rel in REPO_SCHEMAS:
        if (FCP_ROOT / rel).exists():
            names.append("repo:" + rel)
    return names


# --------------------------------------------------------------------------- #
# Worker                                                                      #
# --------------------------------------------------------------------------- #


def _strip_stamp(text):
    return "\n".join(
        line
        for line in text.split("\n")
        if not line.startswith("// Generated using fcp ")
    )


def _load(name):
    from fcp.parser import get_fcp, get_fcp_from_string

    if name.startswith("repo:"):
        return get_fcp(str(FCP_ROOT / name[5:]))
    return get_fcp_from_string(SCHEMAS[name])


def _generate(name, generator, outdir):
    """Return {relative path: sha256} or {"!error": "..."} for one case."""
    import importlib

    try:
        parsed = _load(name)
        if parsed.is_err():
            return {"!parse-error": str(parsed.err())[:300]}
        fcp = parsed.unwrap()
        if generator == "ast":
            # The parsed schema itself, dictionary order included
            text = json.dumps(fcp.to_dict(), default=str) + "\n" + repr(fcp)
            return {"ast": hashlib.sha256(text.encode("utf-8")).hexdigest()}
        module = importlib.import_module("fcp_" + generator)
        results = module.Generator().generate(fcp, {"output": outdir})
    except BaseException as e:  # noqa: BLE001 - errors are part of the contract
        if isinstance(e, (KeyboardInterrupt, SystemExit)):
            raise
        return {"!error": type(e).__name__ + ": " + str(e)[:300]}

    files = {}
    for result in results:
        rel = os.path.relpath(str(result["path"]), str(outdir))
        body = _strip_stamp(str(result["contents"]))
        entry = result["type"] + ":" + hashlib.sha256(body.encode("utf-8")).hexdigest()
        for key in sorted(set(result) - {"type", "path", "contents"}):
            entry += "|%s=%s" % (key, result[key])
        # A path that is emitted more than once (the CAN C generator does that for
        # global_can.h) keeps every version in emission order: the last one wins
        # on disk, so their order is part of the result.
        files[rel] = files[rel] + " + " + entry if rel in files else entry
    return files


def worker(history, outfile):
    names = all_schema_names()
    cases = [(n, g) for n in names for g in GENERATORS]
    if history == "forward":
        plan = cases
    elif history == "reverse":
        plan = list(reversed(cases))
    elif history == "twice":
        plan = cases + cases
    elif history == "interleaved":
        # generator-major order, every schema parsed (and dropped) once before
        plan = [(n, g) for g in reversed(GENERATORS) for n in names]
        for n in names:
            try:
                _load(n)
            except Exception:  # noqa: BLE001
                pass
    elif history == "cpp_first":
        plan = [c for c in cases if c[1] == "cpp"] + [c for c in cases if c[1] != "cpp"]
    else:
        raise SystemExit("unknown history " + history)

    report = {}
    with tempfile.TemporaryDirectory() as tmp:
        for i, (name, generator) in enumerate(plan):
            outdir = Path(tmp) / ("out%d" % i)
            got = _generate(name, generator, outdir)
            key = name + " / " + generator
            if key in report and report[key] != got:
                report[key + " / REPEAT-DIFFERS"] = got
            report.setdefault(key, got)
    with open(outfile, "w") as f:
        json.dump(report, f, sort_keys=True, indent=1)


# --------------------------------------------------------------------------- #
# Driver                                                                      #
# --------------------------------------------------------------------------- #


def driver():
    failures = []
    reference = None
    reference_tag = None
    runs = 0
    with tempfile.TemporaryDirectory() as tmp:
        jobs = []
        for si, seed in enumerate(SEEDS):
            # every history under seed 0, then rotate histories over the seeds
            histories = HISTORIES if si == 0 else [HISTORIES[si % len(HISTORIES)], "forward"]
            for history in dict.fromkeys(histories):
                out = os.path.join(tmp, "r_%s_%s.json" % (seed, history))
                env = dict(os.environ)
                env["PYTHONHASHSEED"] = seed
                proc = subprocess.Popen(
                    [sys.executable, os.path.abspath(__file__), "--worker", history, out],
                    env=env,
                    stdout=subprocess.PIPE,
                    stderr=subprocess.PIPE,
                    text=True,
                )
                jobs.append((seed, history, out, proc))
        for seed, history, out, proc in jobs:
            stdout, stderr = proc.communicate()
            tag = "seed=%s history=%s" % (seed, history)
            if proc.returncode != 0:
                failures.append("%s: worker failed\n%s" % (tag, stderr[-2000:]))
                continue
            runs += 1
            with open(out) as f:
                report = json.load(f)
            for key in report:
                if key.endswith("REPEAT-DIFFERS"):
                    failures.append("%s: %s" % (tag, key))
            if reference is None:
                reference, reference_tag = report, tag
                continue
            for key in sorted(set(reference) | set(report)):
                if reference.get(key) != report.get(key):
                    failures.append(
                        "%s differs from %s on %s:\n  %s\n  %s"
                        % (tag, reference_tag, key, reference.get(key), report.get(key))
                    )

    if reference is not None:
        sanity(reference, failures)

    if failures:
        print("FAIL")
        for failure in failures[:20]:
            print(" -", failure)
        return 1

    digest = hashlib.sha256(
        json.dumps(reference, sort_keys=True).encode("utf-8")
    ).hexdigest()
    n_files = sum(
        len([k for k in v if not k.startswith("!")]) for v in reference.values()
    )
    n_errors = sum(1 for v in reference.values() if any(k.startswith("!") for k in v))
    print(
        "%d worker processes, %d cases, %d files, %d refused cases, output digest %s"
        % (runs, len(reference), n_files, n_errors, digest)
    )
    print("PASS")
    return 0


def sanity(reference, failures):
    """The demo is only meaningful if the interesting cases really generate."""

    def files(case):
        return {k for k in reference.get(case, {}) if not k.startswith("!")}

    expect = {
        "protocols / cpp": {
            "fcp.h",
            "fcp_can.h",
            "fcp_uart.h",
            "fcp_spi.h",
            "fcp_zeta.h",
            "fcp_alpha.h",
            "fcp_default.h",
            "reflection.h",
            "rpc.h",
        },
        "services / cpp": {"motor_server.h", "motor_client.h", "light_server.h", "light_client.h"},
        "multi_bus_multi_dev / dbc": {"bus1.fcp", "bus2.fcp", "bus3.fcp", "default.fcp"},
        "multi_bus_multi_dev / can_c": {"d1_can.h", "d1_can.c", "d2_can.h", "d3_can.c", "can_frame.h"},
        "field_id_order / can_c": {"ecu_a_can.c", "ecu_b_can.h", "global_can.h"},
        "mux / dbc": {"default.fcp"},
        "field_id_order / dbc": {"b1.fcp", "b2.fcp"},
        "endianess_variants / cpp": {"fcp_p.h", "fcp_q.h"},
        "impl_shapes / dbc": {"default.fcp", "other.fcp"},
        "impl_shapes / can_c": {"second_can.c", "fifth_can.h", "global_can.h"},
    }
    for case, wanted in expect.items():
        missing = wanted - files(case)
        if missing:
            failures.append("sanity: %s lacks %s (has %s)" % (case, sorted(missing), sorted(reference.get(case, {}))))
    for case in ("err_list_bus / dbc", "err_second_impl_no_id / dbc", "err_unknown_param / cpp", "err_unknown_type / dbc", "err_too_big / dbc", "err_no_id / dbc", "err_no_id / can_c", "err_dynamic_in_can / dbc"):
        if not any(k.startswith("!") for k in reference.get(case, {})):
            failures.append("sanity: %s was expected to be refused" % case)


if __name__ == "__main__":
    if len(sys.argv) >= 4 and sys.argv[1] == "--worker":
        worker(sys.argv[2], sys.argv[3])
        sys.exit(0)
    sys.exit(driver())
