#!/usr/bin/env python
"""Differential test for property C15.

  "Field ids, not declaration order, fix the wire order in every back end."

For a spread of structs the declaration order of the fields (and of the fields
of every nested struct) is permuted while the field ids are kept.  For every
permutation the script computes

  * the packed CAN layout (PackedEncoder, arrays rolled and unrolled),
  * the generated DBC text and the generated C (fcp_can_c) sources,
  * the bytes of the Python codec (encode), what it decodes back and the
    error it raises for incomplete data / truncated buffers,
  * the order in which TypeVisitor walks the fields and the text of describe(),
  * the binary reflection schema (the input of the C++ dynamic schema),

and requires all of them to be identical to those of the first permutation.
Then the generated C is compiled once and its frames are compared with the
Python codec, and one C++ program is generated in which every permutation is a
separately named struct; the static (fcp.h) and the dynamic (dynamic.h) C++
codecs must produce, for every permutation, exactly the bytes of the Python
codec and decode them back to the same JSON.

The code under test is found through PYTHONPATH.  FCP_ROOT (default
/tmp/twin2-C15) is only used to report where the sources are expected.
Exit status 0 and a final line PASS when the property holds.
"""

import hashlib
import itertools
import json
import os
import random
import shutil
import subprocess
import sys
import tempfile
from pathlib import Path

FCP_ROOT = os.environ.get("FCP_ROOT", "/tmp/twin2-C15")
JSON_INC = os.environ.get("FCP_JSON_INC", "/root/miniconda/include")

import fcp  # noqa: E402
from fcp.parser import get_fcp_from_string  # noqa: E402
from fcp.encoding import make_encoder, PackedEncoderContext  # noqa: E402
from fcp.serde import encode, decode  # noqa: E402
from fcp import serde as serde_module  # noqa: E402
from fcp.describe import describe, flatten, DescribeVisitor  # noqa: E402
from fcp.type_visitor import TypeVisitor  # noqa: E402
from fcp.specs.type import StructType, Type  # noqa: E402
from fcp.reflection import get_reflection_schema  # noqa: E402
from fcp_dbc.dbc_writer import write_dbc  # noqa: E402
from fcp_can_c.can_c_writer import CanCWriter  # noqa: E402
import fcp_cpp  # noqa: E402
from fcp_cpp import Generator as CppGenerator  # noqa: E402

FAILURES = []
TRANSCRIPT = hashlib.sha256()  # everything the back ends were seen to produce
GENERATED = hashlib.sha256()  # the text of the generated C++ headers
CHECKS = 0


def note(*parts, digest=TRANSCRIPT):
    """Everything observed goes into a digest (to compare two source trees)."""
    digest.update(repr(parts).encode())


def check(cond, what):
    global CHECKS
    CHECKS += 1
    if not cond:
        FAILURES.append(what)
        print("FAIL:", what)


# (the most negative value of a signed type is avoided on purpose: the Python
# decoder is known to give +2^(n-1) for it, which has nothing to do with C15)
ENUMS = """
enum E { A = 0, B = 1, C = 5, }
enum Wide { Z = 0, Y = 200, }
enum One { Only = 0, Other = 1, }
"""


class Case:
    def __init__(self, name, structs, values, can=None, cpp="static", python=True):
        # structs: dict name -> [(field, id, type text)], first entry is the root
        self.name = name
        self.structs = structs
        self.values = values
        self.can = can
        self.cpp = cpp  # "static", "both" or None
        self.python = python
        self.root = next(iter(structs))


CASES = [
    Case(
        "Mix",
        {
            "Mix": [("a", 0, "u8"), ("b", 1, "MixInner"), ("c", 2, "E"),
                    ("d", 3, "[u4, 2]"), ("e", 4, "i13")],
            "MixInner": [("x", 0, "i5"), ("y", 1, "u3"), ("z", 2, "Wide")],
        },
        [
            {"a": 1, "b": {"x": -1, "y": 2, "z": 200}, "c": 5, "d": [1, 2], "e": -4095},
            {"a": 255, "b": {"x": -15, "y": 7, "z": 0}, "c": 0, "d": [15, 0], "e": 4095},
            {"a": 0, "b": {"x": 15, "y": 0, "z": 1}, "c": 1, "d": [0, 15], "e": -1},
        ],
        can={"id": 10, "device": "ecu"},
    ),
    Case(
        "Sparse",  # ids neither dense nor starting at zero
        {"Sparse": [("p", 3, "u1"), ("q", 7, "i7"), ("r", 20, "u24"), ("s", 100, "One")]},
        [{"p": 1, "q": -63, "r": 0xABCDEF, "s": 1}, {"p": 0, "q": 63, "r": 1, "s": 0}],
        can={"id": 11, "device": "ecu"},
    ),
    Case(
        "Pair",
        {"Pair": [("hi", 1, "u16"), ("lo", 0, "i16")]},
        [{"hi": 0xBEEF, "lo": -2}, {"hi": 0, "lo": 32767}],
        can={"id": 12, "device": "other", "bus": "bus2"},
    ),
    Case(
        "Solo",
        {"Solo": [("only", 0, "f32")]},
        [{"only": 1.5}, {"only": -0.0}],
        can={"id": 13, "device": "ecu"},
    ),
    Case(
        "Deep",
        {
            "Deep": [("head", 0, "u3"), ("mid", 1, "DeepB"), ("tail", 2, "[DeepC, 2]")],
            "DeepB": [("c", 0, "DeepC"), ("flag", 1, "u1"), ("n", 2, "i6")],
            "DeepC": [("u", 0, "u5"), ("v", 1, "i4")],
        },
        [
            {"head": 5, "mid": {"c": {"u": 31, "v": -7}, "flag": 1, "n": -31},
             "tail": [{"u": 1, "v": 7}, {"u": 30, "v": -1}]},
            {"head": 0, "mid": {"c": {"u": 0, "v": 0}, "flag": 0, "n": 31},
             "tail": [{"u": 17, "v": -3}, {"u": 2, "v": 2}]},
        ],
    ),
    Case(
        "Dyn",  # byte aligned shapes only: also goes through the C++ dynamic schema
        {
            "Dyn": [("name", 0, "str"), ("items", 1, "[DynItem]"), ("maybe", 2, "Optional[u16]"),
                    ("big", 3, "i64"), ("ratio", 4, "f64"), ("raw", 5, "[u8, 3]")],
            "DynItem": [("k", 0, "u8"), ("v", 1, "i32"), ("w", 2, "f32"), ("tags", 3, "[u8]")],
        },
        [
            {"name": "hello", "items": [{"k": 1, "v": -5, "w": 0.5, "tags": [1, 2, 3]},
                                        {"k": 255, "v": 2147483647, "w": -2.25, "tags": []}],
             "maybe": 513, "big": -9223372036854775807, "ratio": 1.0e-3, "raw": [9, 8, 7]},
            {"name": "", "items": [], "maybe": None, "big": 1, "ratio": -1.5, "raw": [0, 0, 255]},
        ],
        cpp="both",
    ),
    Case(
        "Chain",  # long type chains and byte sized enums, also through the dynamic schema
        {
            "Chain": [("grid", 0, "[[u8, 2], 3]"), ("opts", 1, "[Optional[u16]]"),
                      ("item", 2, "Optional[ChainItem]"), ("level", 3, "Wide"),
                      ("levels", 4, "[Wide, 2]"), ("last", 5, "i8")],
            "ChainItem": [("w", 0, "Wide"), ("n", 1, "i16"), ("rows", 2, "[[i8]]")],
        },
        [
            {"grid": [[1, 2], [3, 4], [5, 6]], "opts": [None, 7, 65535],
             "item": {"w": 200, "n": -300, "rows": [[1, -1], [], [5]]},
             "level": 200, "levels": [0, 200], "last": -2},
            {"grid": [[0, 0], [0, 0], [255, 0]], "opts": [], "item": None,
             "level": 0, "levels": [200, 200], "last": 127},
        ],
        cpp="both",
    ),
    Case(
        "Wide64",
        {"Wide64": [("u", 0, "u64"), ("i", 1, "i64"), ("f", 2, "f32"), ("b", 3, "u8")]},
        [{"u": 2**64 - 1, "i": -(2**63) + 1, "f": 3.0, "b": 7}, {"u": 1, "i": -1, "f": 0.25, "b": 0}],
        cpp="both",
    ),
]


def permutations_of(n, rng, limit=24):
    idx = list(range(n))
    if n <= 4:
        return [list(p) for p in itertools.permutations(idx)]
    perms = [idx, idx[::-1], idx[1:] + idx[:1], idx[-1:] + idx[:-1]]
    while len(perms) < limit // 2:
        p = idx[:]
        rng.shuffle(p)
        if p not in perms:
            perms.append(p)
    return perms


def struct_text(name, fields, order):
    body = "".join(f"    {fields[i][0]} @ {fields[i][1]}: {fields[i][2]},\n" for i in order)
    return f"struct {name} {{\n{body}}}\n"


def impl_text(protocol, name, fields):
    body = "".join(
        f"    {k}: {json.dumps(v)},\n" for k, v in fields.items()
    )
    return f"impl {protocol} for {name} {{\n{body}}}\n"


def case_schema(case, perm_index, perm, rng):
    """Schema text of one case with the root declared in order `perm`."""
    text = 'version: "3"\n' + ENUMS
    for struct_name, fields in reversed(list(case.structs.items())):  # used types first
        if struct_name == case.root:
            order = perm
        else:
            order = list(range(len(fields)))
            random.Random(f"{case.name}/{struct_name}/{perm_index}").shuffle(order)
        text += struct_text(struct_name, fields, order)
    if case.can is not None:
        text += impl_text("can", case.root, case.can)
    return text


class OrderVisitor(TypeVisitor):
    """Records the order in which the visitor reaches the leaves."""

    def struct(self, t, fields, name):
        return ("struct", t.name, name, fields)

    def enum(self, t, name):
        return ("enum", t.name, name)

    def unsigned(self, t, name):
        return ("unsigned", t.name, name)

    def signed(self, t, name):
        return ("signed", t.name, name)

    def float(self, t, name):
        return ("float", name)

    def double(self, t, name):
        return ("double", name)

    def string(self, t, name):
        return ("string", name)

    def array(self, t, inner, name):
        return ("array", t.size, inner, name)

    def dynamic_array(self, t, inner, name):
        return ("dynamic_array", inner, name)

    def optional(self, t, inner, name):
        return ("optional", inner, name)


def outcome(fn):
    """Result of a call or the exception it raised (type and text)."""
    try:
        return ("ok", fn())
    except Exception as e:  # noqa: BLE001
        return ("raised", type(e).__name__, str(e))


def without_key(data, path):
    out = dict(data)
    del out[path]
    return out


def strip_meta(node):
    if isinstance(node, dict):
        return {k: (None if k == "meta" else strip_meta(v)) for k, v in node.items()}
    if isinstance(node, list):
        return [strip_meta(v) for v in node]
    return node


def observe(case, schema_text):
    """Everything a back end derives from the field order, for one schema text."""
    f = get_fcp_from_string(schema_text).unwrap()
    obs = {}

    if case.can is not None:
        for unroll in (False, True):
            enc = make_encoder("packed", f, PackedEncoderContext().with_unroll_arrays(unroll))
            layouts = []
            for _ in range(2):  # the encoder is reused between impls: call it twice
                for impl in f.get_matching_impls("can"):
                    layouts.append(
                        [
                            (v.name, repr(v.type), v.bitstart, v.bitlength, v.endianess,
                             repr(v.composite_type), v.unit)
                            for v in enc.generate(impl)
                        ]
                    )
            obs[f"layout unroll={unroll}"] = layouts
        obs["dbc"] = write_dbc(f).unwrap()
        writer = CanCWriter(f)
        c_files = []
        for gen in (writer.generate_static_files, writer.generate_device_headers,
                    writer.generate_device_sources):
            c_files += [(n, c) for n, c in gen()]
        obs["c sources"] = c_files

    encoded = []
    for value in case.values:
        data = encode(f, case.root, value)
        back = decode(f, case.root, data)
        encoded.append((bytes(data), json.dumps(back), list(back.keys())))
        # errors: the first missing field in wire order is the one reported
        for field_name in value:
            encoded.append(outcome(lambda: bytes(encode(f, case.root, without_key(value, field_name)))))
        for cut in (0, 1, len(data) // 2, max(len(data) - 1, 0)):
            encoded.append(outcome(lambda: json.dumps(decode(f, case.root, data[:cut]))))
        encoded.append(outcome(lambda: json.dumps(decode(f, case.root, data + bytearray([0xAA])))))
    obs["python codec"] = encoded
    obs["python codec unknown struct"] = [
        outcome(lambda: bytes(encode(f, "Nope", {}))),
        outcome(lambda: decode(f, "Nope", bytearray([0]))),
    ]
    obs["python codec unknown type"] = [
        outcome(lambda: serde_module._encode(serde_module._Buffer(), f, Type(), 0)),
        outcome(lambda: serde_module._decode(serde_module._Buffer(), f, Type())),
        outcome(lambda: serde_module._encode(serde_module._Buffer(), f, None, 0)),
    ]

    obs["visitor order"] = repr(OrderVisitor(f).visit(StructType(case.root)))
    obs["visitor unknown"] = [outcome(lambda: OrderVisitor(f).visit(Type())),
                              outcome(lambda: OrderVisitor(f).visit(StructType("Nope")))]
    # (describe() does not support str / dynamic shapes: the error must not depend on the order either)
    obs["describe"] = outcome(lambda: describe(f, StructType(case.root)))
    obs["describe twice"] = outcome(lambda: describe(f, StructType(case.root)))
    obs["flatten"] = repr(flatten(DescribeVisitor(f).visit(StructType(case.root))))
    obs["flatten odd inputs"] = repr(
        [flatten([]), flatten([[]]), flatten(3), flatten([1, [2, [3, [4]], 5], [[6]], (7, 8)]),
         flatten([[[], []], [[("a", "b", 1)]], "xy"])]
    )
    reflection_schema = get_reflection_schema().unwrap()
    # source positions (meta) legitimately move with the declarations: blank them
    obs["binary schema"] = bytes(encode(reflection_schema, "Fcp", strip_meta(f.reflection())))
    return f, obs


def python_level(rng):
    first_schemas = {}
    for case in CASES:
        n = len(case.structs[case.root])
        reference = None
        perms = permutations_of(n, rng)
        for perm_index, perm in enumerate(perms):
            text = case_schema(case, perm_index, perm, rng)
            f, obs = observe(case, text)
            if reference is None:
                reference = obs
                first_schemas[case.name] = (text, f)
                note(case.name, sorted(obs.items()))
                continue
            for key, value in obs.items():
                check(value == reference[key],
                      f"{case.name}: '{key}' differs for declaration order {perm}")
        print(f"  {case.name}: {len(perms)} declaration orders agree "
              f"({len(reference)} observations each)")
    return first_schemas


# ---------------------------------------------------------------------------
# generated C (fcp_can_c): the text is permutation independent (checked above),
# so one compilation per case is enough to compare it with the Python codec.
# ---------------------------------------------------------------------------


def flat_values(prefix, value, out):
    if isinstance(value, dict):
        for k, v in value.items():
            flat_values(prefix + [k], v, out)
    elif isinstance(value, list):
        for i, v in enumerate(value):
            flat_values(prefix[:-1] + [f"{prefix[-1]}_{i}"], v, out)
    else:
        out.append(("_".join(prefix), value))


def pascal_to_snake(name):
    return "".join("_" + c.lower() if c.isupper() else c for c in name).lstrip("_")


def c_level(first_schemas):
    cc = shutil.which("gcc") or shutil.which("clang")
    if cc is None:
        print("  no C compiler: skipped")
        return
    for case in CASES:
        if case.can is None:
            continue
        text, f = first_schemas[case.name]
        tmp = Path(tempfile.mkdtemp(prefix="c15_c_"))
        try:
            writer = CanCWriter(f)
            sources = []
            for gen, suffix in ((writer.generate_static_files, ""),
                                (writer.generate_device_headers, "_can.h"),
                                (writer.generate_device_sources, "_can.c")):
                for name, contents in gen():
                    (tmp / (name + suffix)).write_text(contents)
                    if (name + suffix).endswith(".c"):
                        sources.append(name + suffix)
            device = case.can["device"]
            snake = pascal_to_snake(case.root)
            main = [f'#include <stdio.h>\n#include "{device}_can.h"\nint main(void) {{\n']
            for i, value in enumerate(case.values):
                flat = []
                flat_values([], value, flat)
                main.append(f"  {{ CanMsg{case.root} m = {{0}};\n")
                for name, v in flat:
                    lit = repr(float(v)) + "f" if isinstance(v, float) else str(v)
                    main.append(f"    m.{name} = {lit};\n")
                main.append(f"    CanFrame fr = can_encode_msg_{snake}(&m);\n")
                main.append('    for (int i = 0; i < fr.dlc; i++) printf("%02x", fr.data[i]);\n')
                main.append('    printf("\\n"); }\n')
            main.append("  return 0;\n}\n")
            (tmp / "main.c").write_text("".join(main))
            r = subprocess.run([cc, "-w", "-I.", "main.c"] + sources + ["-o", "main"],
                               cwd=tmp, capture_output=True, text=True)
            check(r.returncode == 0, f"{case.name}: generated C compiles: {r.stderr[:400]}")
            if r.returncode != 0:
                continue
            out = subprocess.run([str(tmp / "main")], capture_output=True, text=True).stdout.split()
            expected = [bytes(encode(f, case.root, v)).hex() for v in case.values]
            note("c", case.name, out)
            check(out == expected, f"{case.name}: generated C frames {out} == python {expected}")
            print(f"  {case.name}: generated C frames equal the Python codec: {out}")
        finally:
            shutil.rmtree(tmp, ignore_errors=True)


# ---------------------------------------------------------------------------
# C++: every permutation is a separately named struct of ONE schema, so that a
# single compilation covers all of them (static fcp.h and dynamic.h).
# ---------------------------------------------------------------------------


def cpp_schema(rng, per_case=4):
    text = 'version: "3"\n' + ENUMS
    variants = []  # (case, struct name, value renamer suffix)
    for case in CASES:
        if case.cpp is None:
            continue
        n = len(case.structs[case.root])
        perms = permutations_of(n, rng)
        chosen = [perms[0], perms[-1]] + perms[1:-1][: per_case - 2]
        for k, perm in enumerate(chosen):
            suffix = f"P{k}"
            for struct_name, fields in reversed(list(case.structs.items())):
                renamed = [
                    (fname, fid, retype(ftype, case, suffix)) for fname, fid, ftype in fields
                ]
                if struct_name == case.root:
                    order = perm
                else:
                    order = list(range(len(fields)))
                    random.Random(f"cpp/{case.name}/{struct_name}/{k}").shuffle(order)
                text += struct_text(struct_name + suffix, renamed, order)
            variants.append((case, case.root + suffix, perm))
    return text, variants


def retype(type_text, case, suffix):
    for struct_name in case.structs:
        for pattern in (f"[{struct_name}]", f"[{struct_name},", f"Optional[{struct_name}]"):
            if pattern in type_text:
                return type_text.replace(struct_name, struct_name + suffix)
        if type_text == struct_name:
            return struct_name + suffix
    return type_text


ENUM_NAMES = {"E": {0: "A", 1: "B", 5: "C"}, "Wide": {0: "Z", 200: "Y"}, "One": {0: "Only", 1: "Other"}}


def to_dynamic_json(case, type_text, value):
    """The dynamic schema names enum values, the other codecs number them."""
    type_text = type_text.strip()
    if value is None:
        return None
    if type_text in case.structs:
        return {
            fname: to_dynamic_json(case, ftype, value[fname])
            for fname, _, ftype in case.structs[type_text]
        }
    if type_text in ENUM_NAMES:
        return ENUM_NAMES[type_text][value]
    if type_text.startswith("Optional["):
        return to_dynamic_json(case, type_text[len("Optional["):-1], value)
    if type_text.startswith("["):
        inner = type_text[1:-1]
        depth = 0
        for pos, ch in enumerate(inner):  # split "[T, N]" at the top level comma
            depth += ch == "["
            depth -= ch == "]"
            if ch == "," and depth == 0:
                inner = inner[:pos]
                break
        return [to_dynamic_json(case, inner, v) for v in value]
    return value


def strip_banner(text):
    return "\n".join(line for line in text.split("\n") if not line.startswith("// Generated using fcp"))


def cpp_level(rng):
    cxx = shutil.which("g++") or shutil.which("clang++")
    if cxx is None or not (Path(JSON_INC) / "nlohmann" / "json.hpp").exists():
        print("  no C++ compiler or nlohmann/json: skipped")
        return
    text, variants = cpp_schema(rng)
    f = get_fcp_from_string(text).unwrap()
    tmp = Path(tempfile.mkdtemp(prefix="c15_cpp_"))
    try:
        generated = {}
        for result in CppGenerator().generate(f, {"output": str(tmp)}):
            Path(result["path"]).write_text(result["contents"])
            generated[Path(result["path"]).name] = strip_banner(result["contents"])
        again = {
            Path(r["path"]).name: strip_banner(r["contents"])
            for r in CppGenerator().generate(f, {"output": str(tmp)})
        }
        check(generated == again, "C++ generation is repeatable")
        note("generated c++", sorted(generated.items()), digest=GENERATED)
        reflection_schema = get_reflection_schema().unwrap()
        (tmp / "output.bin").write_bytes(bytes(encode(reflection_schema, "Fcp", f.reflection())))

        lines = [
            '#include <iostream>\n#include <iomanip>\n#include <cmath>\n#include <limits>\n'
            '#include <stdexcept>\n#include "fcp.h"\n#include "dynamic.h"\n'
            "static std::string hex(const std::vector<std::uint8_t>& d) {\n"
            "  std::stringstream ss; for (auto b: d) ss << std::hex << std::setw(2) << std::setfill('0') << (int) b;\n"
            "  return ss.str().empty() ? std::string{\"-\"} : ss.str(); }\n"
            "int main() {\n"
            "  fcp::dynamic::DynamicSchema dyn{};\n"
            '  dyn.LoadBinarySchemaFromFile("output.bin");\n'
            '  fcp::dynamic::DynamicSchema dyn2{};\n'
            '  dyn2.LoadBinarySchemaFromFile("output.bin");\n'
            '  std::cout << "X unknown "\n'
            '            << dyn.EncodeJson("Nope", json::object()).has_value()\n'
            '            << dyn.DecodeJson("Nope", {1, 2}).has_value() << std::endl;\n'
        ]
        jobs = []
        for case, struct_name, perm in variants:
            for vi, value in enumerate(case.values):
                js = json.dumps(value)
                lines.append(
                    f'  {{ auto j = json::parse(R"JS({js})JS");\n'
                    f"    auto s = fcp::{struct_name}::FromJson(j);\n"
                    f"    auto data = s.Encode().GetData();\n"
                    f"    auto back = fcp::{struct_name}::Decode(data.begin(), data.end());\n"
                    f'    std::cout << "S {struct_name} {vi} " << hex(data) << " " << back.DecodeJson().dump()\n'
                    f'              << " " << (back == s) << std::endl;\n'
                )
                if case.cpp == "both":
                    djs = json.dumps(to_dynamic_json(case, case.root, value))
                    lines.append(
                        f'    auto dj = json::parse(R"JS({djs})JS");\n'
                        f'    auto e = dyn.EncodeJson("{struct_name}", dj);\n'
                        f'    auto d = dyn2.DecodeJson("{struct_name}", e.value());\n'
                        f'    auto e2 = dyn2.EncodeJson("{struct_name}", d.value());\n'
                        f'    std::cout << "D {struct_name} {vi} " << hex(e.value()) << " " << d.value().dump()\n'
                        f'              << " " << (e2.value() == e.value()) << std::endl;\n'
                    )
                lines.append("  }\n")
                jobs.append((case, struct_name, vi, value))
        lines.append("  return 0;\n}\n")
        (tmp / "main.cpp").write_text("".join(lines))
        r = subprocess.run(
            [cxx, "--std=c++17", "-O0", "-w", "-isystem", JSON_INC, "-I.", "main.cpp", "-o", "main"],
            cwd=tmp, capture_output=True, text=True,
        )
        check(r.returncode == 0, f"generated C++ compiles: {r.stderr[:1500]}")
        if r.returncode != 0:
            return
        run = subprocess.run([str(tmp / "main")], cwd=tmp, capture_output=True, text=True)
        check(run.returncode == 0, f"generated C++ runs: {run.stderr[:400]}")
        out = {}
        for line in run.stdout.splitlines():
            kind, name, vi, *rest = line.split(" ", 4)
            out[(kind, name, vi)] = rest
        note("c++ output", run.stdout)
        check(run.stdout.splitlines()[0] == "X unknown 00",
              "dynamic schema: unknown struct names give nullopt")
        count = 0
        for case, struct_name, vi, value in jobs:
            expected = bytes(encode(f, struct_name, value)).hex() or "-"
            canonical = bytes(encode(first_fcp(case), case.root, value)).hex() or "-"
            check(expected == canonical, f"{struct_name}: python bytes equal those of the base declaration")
            kinds = ["S"] + (["D"] if case.cpp == "both" else [])
            for kind in kinds:
                got = out.get((kind, struct_name, str(vi)))
                check(got is not None, f"{kind} {struct_name} {vi}: no output")
                if got is None:
                    continue
                hexdata, rest = got[0], got[1]
                dumped, flag = rest.rsplit(" ", 1)
                check(hexdata == expected,
                      f"{kind} {struct_name} value {vi}: C++ bytes {hexdata} == python {expected}")
                python_back = decode(f, struct_name, bytearray.fromhex(expected if expected != "-" else ""))
                if kind == "D":
                    python_back = to_dynamic_json(case, case.root, python_back)
                check(json.loads(dumped) == json.loads(json.dumps(python_back)),
                      f"{kind} {struct_name} value {vi}: C++ decodes to what python decodes: {dumped}")
                check(flag == "1", f"{kind} {struct_name} value {vi}: round trip flag")
                count += 1
        print(f"  {len(variants)} permuted structs, {count} C++ encode/decode round trips equal the Python codec")
    finally:
        shutil.rmtree(tmp, ignore_errors=True)


_FIRST = {}


def first_fcp(case):
    if case.name not in _FIRST:
        n = len(case.structs[case.root])
        text = 'version: "3"\n' + ENUMS
        for struct_name, fields in reversed(list(case.structs.items())):
            text += struct_text(struct_name, fields, range(len(fields)))
        _FIRST[case.name] = get_fcp_from_string(text).unwrap()
    return _FIRST[case.name]


def focus(rng):
    """dynamic.h: the repository's own C++ test schema, built with the strict
    warning flags of the repository's cc_binary helper, must load its binary
    schema and encode/decode known vectors (struct, enum, nested, array of struct)."""
    from fcp.parser import get_fcp

    cxx = shutil.which("g++")
    schema_path = Path(FCP_ROOT) / "plugins" / "fcp_cpp" / "tests" / "schemas" / "test.fcp"
    if cxx is None or not schema_path.exists() or not (Path(JSON_INC) / "nlohmann" / "json.hpp").exists():
        print("  no g++ / nlohmann/json / test schema: skipped")
        return
    f = get_fcp(schema_path).unwrap()
    tmp = Path(tempfile.mkdtemp(prefix="c15_dyn_"))
    try:
        for result in CppGenerator().generate(f, {"output": str(tmp)}):
            Path(result["path"]).write_text(result["contents"])
        reflection_schema = get_reflection_schema().unwrap()
        (tmp / "output.bin").write_bytes(bytes(encode(reflection_schema, "Fcp", f.reflection())))
        vectors = [
            ("S1", {"s1": 1, "s2": 2}, {"s1": 1, "s2": 2}),
            ("S2", {"s1": 1, "s2": 2, "s3": "S2"}, {"s1": 1, "s2": 2, "s3": 2}),
            ("S3", {"s1": [1, 2, 3, 4], "s2": 5, "s3": 6}, {"s1": [1, 2, 3, 4], "s2": 5, "s3": 6}),
            ("S9", {"s1": [{"s1": 1, "s2": 2}, {"s1": 3, "s2": 4}]}, {"s1": [{"s1": 1, "s2": 2}, {"s1": 3, "s2": 4}]}),
            ("S10", {"s1": None}, {"s1": None}),
            ("S10", {"s1": 9}, {"s1": 9}),
            ("S12", {"s1": {"s1": 7, "s2": 8}}, {"s1": {"s1": 7, "s2": 8}}),
        ]
        body = ['#include <iostream>\n#include <iomanip>\n#include "fcp.h"\n#include "dynamic.h"\nint main() {\n'
                '  fcp::dynamic::DynamicSchema s{};\n  s.LoadBinarySchemaFromFile("output.bin");\n'
                '  std::cout << s.GetImpls().size() << std::endl;\n']
        for name, dyn_json, _ in vectors:
            body.append(
                f'  {{ auto j = json::parse(R"JS({json.dumps(dyn_json)})JS");\n'
                f'    auto e = s.EncodeJson("{name}", j).value();\n'
                f'    for (auto b: e) std::cout << std::hex << std::setw(2) << std::setfill(\'0\') << (int) b;\n'
                f'    std::cout << std::dec << " " << s.DecodeJson("{name}", e).value().dump() << std::endl; }}\n'
            )
        body.append("  return 0;\n}\n")
        (tmp / "main.cpp").write_text("".join(body))
        flags = ["-Werror", "-Wall", "-Wextra", "-Wformat-nonliteral", "-Wcast-align", "-Wpointer-arith",
                 "-Winline", "-Wundef", "-Wcast-qual", "-Wshadow", "-Wwrite-strings", "-Wno-unused-parameter",
                 "-Wfloat-equal", "-pedantic"]
        r = subprocess.run([cxx, "--std=c++17"] + flags + ["-isystem", JSON_INC, "-I.", "main.cpp", "-o", "main"],
                           cwd=tmp, capture_output=True, text=True)
        check(r.returncode == 0, f"dynamic.h builds with the repository's warning flags: {r.stderr[:1500]}")
        if r.returncode != 0:
            return
        out = subprocess.run([str(tmp / "main")], cwd=tmp, capture_output=True, text=True).stdout.splitlines()
        note("dynamic focus", out)
        check(out[0] == str(len(f.impls)), f"dynamic schema lists {len(f.impls)} impls, got {out[0]}")
        for (name, dyn_json, py_value), line in zip(vectors, out[1:]):
            hexdata, dumped = line.split(" ", 1)
            expected = bytes(encode(f, name, py_value)).hex()
            check(hexdata == expected, f"dynamic {name}: bytes {hexdata} == python {expected}")
            check(json.loads(dumped) == dyn_json, f"dynamic {name}: decodes back to {dyn_json}: {dumped}")
        print(f"  dynamic.h built with -Werror and the strict flags; {len(vectors)} known vectors agree with the Python codec")
    finally:
        shutil.rmtree(tmp, ignore_errors=True)


def main():
    rng = random.Random(15)
    print("fcp from", os.path.dirname(fcp.__file__), "| fcp_cpp from", os.path.dirname(fcp_cpp.__file__),
          "| FCP_ROOT", FCP_ROOT)
    print("python level (layout, DBC, C text, python codec, visitor, describe, binary schema):")
    first = python_level(rng)
    print("focus:")
    focus(rng)
    print("generated C:")
    c_level(first)
    print("generated C++ (static fcp.h and dynamic.h):")
    cpp_level(rng)
    print(f"{CHECKS} checks, {len(FAILURES)} failures, behaviour digest {TRANSCRIPT.hexdigest()[:16]}, "
          f"generated C++ text digest {GENERATED.hexdigest()[:16]}")
    if FAILURES:
        print("FAILED")
        return 1
    print("PASS")
    return 0


if __name__ == "__main__":
    sys.exit(main())
