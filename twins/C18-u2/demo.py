#!/venv/bin/python
"""Differential test for property C18 (C++ CAN frame wrapper).

For a handful of schemas the C++ plug-in output is generated from the code found
on PYTHONPATH, a small driver is compiled against it and every case is run
through fcp::can::Can backed by (a) the statically generated CanStaticSchema and
(b) the reflection-loaded CanDynamicSchema (plus copies of both, and a second
pass over all cases in the same process).  The answers are compared with
expectations computed independently in Python (fcp.serde.encode for the
canonical payload bytes, the schema text for id / bus).

Exit status 0 and a final line 'PASS' when the property holds on all cases.
"""

import json
import os
import subprocess
import sys
import tempfile
from pathlib import Path

from fcp.parser import get_fcp
from fcp.serde import encode as serde_encode
from fcp.reflection import get_reflection_schema
from fcp_cpp import Generator

FCP_ROOT = Path(os.environ.get("FCP_ROOT", "/tmp/twin2-C18"))
JSON_INCLUDE = os.environ.get("JSON_INCLUDE", "/root/miniconda/include")
# the warning set the plug-in's own test-suite builds with (tests/cc_binary.py)
CXX_FLAGS = [
    "-Werror", "-Wall", "-Wextra", "-Wformat-nonliteral", "-Wcast-align", "-Wpointer-arith",
    "-Winline", "-Wundef", "-Wcast-qual", "-Wshadow", "-Wwrite-strings", "-Wno-unused-parameter",
    "-Wfloat-equal", "-pedantic",
]

DRIVER = r"""
#include "can.h"
#include "fcp.h"
#include "can_static_schema.h"
#include "can_dynamic_schema.h"

#include <fstream>
#include <iostream>
#include <memory>

using json = nlohmann::json;

static json FrameToJson(const fcp::can::frame_t& f) {
    json bus = json::array();
    for (auto c: f.bus) { bus.push_back(static_cast<int>(static_cast<unsigned char>(c))); }
    json data = json::array();
    for (auto b: f.data) { data.push_back(static_cast<int>(b)); }
    return json{{"bus", bus}, {"sid", f.sid}, {"dlc", f.dlc}, {"data", data}};
}

static json RunCase(fcp::can::Can& can, const json& c) {
    try {
        if (c["op"] == "encode") {
            auto frame = can.Encode(c["name"].get<std::string>(), c["value"]);
            if (!frame.has_value()) { return nullptr; }
            return FrameToJson(frame.value());
        }
        fcp::can::frame_t frame{};
        for (std::size_t i = 0; i < 4; i++) { frame.bus[i] = static_cast<char>(c["bus"][i].get<int>()); }
        frame.sid = c["sid"].get<std::uint16_t>();
        frame.dlc = c["dlc"].get<std::uint8_t>();
        for (std::size_t i = 0; i < 8; i++) { frame.data[i] = c["data"][i].get<std::uint8_t>(); }
        auto decoded = can.Decode(frame);
        if (!decoded.has_value()) { return nullptr; }
        return json::array({decoded.value().first, decoded.value().second});
    } catch (const std::exception& e) {
        return json{{"exception", true}};
    }
}

int main() {
    std::ifstream in("cases.json");
    json cases = json::parse(in);

    auto dynamic_schema = fcp::dynamic::DynamicSchema();
    dynamic_schema.LoadBinarySchemaFromFile("output.bin");

    fcp::can::CanStaticSchema static_can{};
    fcp::can::CanDynamicSchema dynamic_can{dynamic_schema};
    // copies must behave like the originals
    fcp::can::CanStaticSchema static_copy{static_can};
    fcp::can::CanDynamicSchema dynamic_copy{dynamic_can};
    fcp::can::CanDynamicSchema dynamic_assigned{fcp::dynamic::DynamicSchema()};
    dynamic_assigned = dynamic_can;

    std::vector<std::pair<std::string, fcp::can::Can>> cans{
        {"static", fcp::can::Can{std::make_shared<fcp::can::CanStaticSchema>(static_can)}},
        {"dynamic", fcp::can::Can{std::make_shared<fcp::can::CanDynamicSchema>(dynamic_can)}},
        {"static_copy", fcp::can::Can{std::make_shared<fcp::can::CanStaticSchema>(static_copy)}},
        {"dynamic_copy", fcp::can::Can{std::make_shared<fcp::can::CanDynamicSchema>(dynamic_copy)}},
        {"dynamic_assigned", fcp::can::Can{std::make_shared<fcp::can::CanDynamicSchema>(dynamic_assigned)}},
    };

    json out = json::object();
    for (auto& [label, can]: cans) {
        json first = json::array();
        for (const auto& c: cases) { first.push_back(RunCase(can, c)); }
        // second pass, reversed order, same objects: answers must not depend on history
        json second = json::array();
        for (auto it = cases.rbegin(); it != cases.rend(); ++it) { second.insert(second.begin(), RunCase(can, *it)); }
        out[label] = json{{"first", first}, {"second", second}};
    }
    std::cout << out.dump() << std::endl;
    return 0;
}
"""

# ---------------------------------------------------------------------------
# schemas: (label, text, bindings, encode values, extra names that must fail)
# bindings: struct name -> (id, bus)
# ---------------------------------------------------------------------------

SCHEMA_A = (
    "A-bytes-and-words",
    """version: "3"

struct S1 {
    s1 @ 0: u8,
    s2 @ 1: u8,
}

impl can for S1 {
    id: 10,
    bus: "bus1",
}

struct S2 {
    a @ 0: u16,
    b @ 1: i16,
    c @ 2: u32,
}

impl can for S2 {
    id: 0,
    bus: "b",
}

struct S3 {
    a @ 0: u64,
}

impl can for S3 {
    id: 2047,
    bus: "bus",
}

struct S4 {
    a @ 0: i64,
}

impl can for S4 {
    id: 10,
    bus: "bus2",
}

struct S5 {
    a @ 0: u8,
    b @ 1: u64,
}

impl can for S5 {
    id: 12,
    bus: "bus1",
}

struct S6 {
    a @ 0: u8,
}

struct S7 {
    a @ 0: i8,
    b @ 1: i32,
}

impl can for S7 {
    id: 11,
    bus: "bu",
}
""",
    {"S1": (10, "bus1"), "S2": (0, "b"), "S3": (2047, "bus"), "S4": (10, "bus2"), "S7": (11, "bu")},
    {
        "S1": [{"s1": 0, "s2": 0}, {"s1": 1, "s2": 2}, {"s1": 255, "s2": 128}],
        "S2": [
            {"a": 0, "b": 0, "c": 0},
            {"a": 65535, "b": -32768, "c": 4294967295},
            {"a": 0x1234, "b": 32767, "c": 0xDEADBEEF},
            {"a": 1, "b": -1, "c": 1},
        ],
        "S3": [{"a": 0}, {"a": 18446744073709551615}, {"a": 0x0102030405060708}, {"a": 1 << 63}],
        "S4": [{"a": 0}, {"a": -1}, {"a": -(1 << 63)}, {"a": (1 << 63) - 1}],
        "S7": [{"a": -128, "b": -(1 << 31)}, {"a": 127, "b": (1 << 31) - 1}, {"a": -1, "b": 0}],
    },
    # name -> value: S5 does not fit in a frame (9 bytes), S6 has no CAN binding, Nope does not exist
    {"S5": {"a": 1, "b": 2}, "S6": {"a": 1}, "Nope": {"a": 1}, "": {}},
)

SCHEMA_B = (
    "B-unaligned-arrays-floats",
    """version: "3"

struct P1 {
    a @ 0: u3,
    b @ 1: u5,
    c @ 2: i7,
    d @ 3: u12,
    e @ 4: u1,
}

impl can for P1 {
    id: 1,
    bus: "can0",
}

struct P2 {
    a @ 0: [u8, 4],
    b @ 1: u24,
}

impl can for P2 {
    id: 1,
    bus: "can1",
}

struct P3 {
    a @ 0: f32,
    b @ 1: u8,
}

impl can for P3 {
    id: 2,
    bus: "can0",
}

struct P4 {
    a @ 0: f64,
}

impl can for P4 {
    id: 1000,
    bus: "x",
}

struct Inner {
    x @ 0: u8,
    y @ 1: i16,
}

struct P5 {
    head @ 0: u4,
    inner @ 1: Inner,
    tail @ 2: [u3, 3],
}

impl can for P5 {
    id: 2046,
    bus: "ab",
}

struct P6 {
    a @ 0: u1,
}

impl can for P6 {
    id: 3,
    bus: "can0",
}
""",
    {
        "P1": (1, "can0"),
        "P2": (1, "can1"),
        "P3": (2, "can0"),
        "P4": (1000, "x"),
        "P5": (2046, "ab"),
        "P6": (3, "can0"),
    },
    {
        "P1": [
            {"a": 0, "b": 0, "c": 0, "d": 0, "e": 0},
            {"a": 7, "b": 31, "c": -64, "d": 4095, "e": 1},
            {"a": 5, "b": 17, "c": 63, "d": 0xABC, "e": 0},
            {"a": 1, "b": 1, "c": -1, "d": 1, "e": 1},
        ],
        "P2": [
            {"a": [0, 0, 0, 0], "b": 0},
            {"a": [1, 2, 3, 4], "b": 0x010203},
            {"a": [255, 254, 253, 252], "b": 0xFFFFFF},
        ],
        "P3": [{"a": 0.0, "b": 0}, {"a": 1.5, "b": 255}, {"a": -1024.25, "b": 7}],
        "P4": [{"a": 0.0}, {"a": -2.5}, {"a": 1e300}, {"a": 0.1}],
        "P5": [
            {"head": 0, "inner": {"x": 0, "y": 0}, "tail": [0, 0, 0]},
            {"head": 15, "inner": {"x": 255, "y": -32768}, "tail": [7, 7, 7]},
            {"head": 9, "inner": {"x": 18, "y": 32767}, "tail": [1, 2, 3]},
        ],
        "P6": [{"a": 0}, {"a": 1}],
    },
    {"Inner": {"x": 1, "y": 2}, "p1": {"a": 0, "b": 0, "c": 0, "d": 0, "e": 0}},
)

SCHEMA_C = (
    "C-single-binding",
    """version: "3"

struct Only {
    v @ 0: u16,
    w @ 1: [i8, 6],
}

impl can for Only {
    id: 1337,
    bus: "z9",
}
""",
    {"Only": (1337, "z9")},
    {
        "Only": [
            {"v": 0, "w": [0, 0, 0, 0, 0, 0]},
            {"v": 65535, "w": [-128, 127, -1, 1, 0, 5]},
            {"v": 0xBEEF, "w": [1, 2, 3, 4, 5, 6]},
        ]
    },
    {"only": {"v": 0, "w": [0, 0, 0, 0, 0, 0]}, "Onl": {"v": 0}},
)

SCHEMAS = [SCHEMA_A, SCHEMA_B, SCHEMA_C]

# structs with fields that are not a whole number of bytes (see run_schema)
DYNAMIC_BYTEWISE = {"P1", "P5"}


def pad_bus(bus: str):
    raw = bus.encode()
    assert 1 <= len(raw) <= 4
    return list(raw) + [0] * (4 - len(raw))


def lookup(bindings, sid, bus4):
    """Independent model of the (id, bus) -> binding search."""
    for name, (bid, bbus) in bindings.items():
        if bid == sid and pad_bus(bbus) == list(bus4):
            return name
    return None


def build_cases(v2, bindings, values, failing):
    cases = []  # (case, expected)
    for name, (sid, bus) in bindings.items():
        for value in values[name]:
            payload = bytes(serde_encode(v2, name, value))
            assert len(payload) <= 8, (name, len(payload))
            frame = {
                "bus": pad_bus(bus),
                "sid": sid,
                "dlc": len(payload),
                "data": list(payload) + [0] * (8 - len(payload)),
            }
            cases.append(({"op": "encode", "name": name, "value": value}, frame))
            cases.append(({"op": "decode", **frame}, [name, value]))
            # the dlc field is informative only: same answer whatever it says
            cases.append(({"op": "decode", **{**frame, "dlc": 8}}, [name, value]))

        # frames around the binding that must resolve according to the (id, bus) table only
        first = values[name][0]
        payload = bytes(serde_encode(v2, name, first))
        data = list(payload) + [0] * (8 - len(payload))
        bus4 = pad_bus(bus)
        variants = [
            ((sid + 1) % 2048, bus4),
            ((sid - 1) % 2048, bus4),
            (sid ^ 0x400, bus4),
            (sid, pad_bus((bus + "x")[:4]) if len(bus) < 4 else pad_bus(bus[:3])),
            (sid, pad_bus(bus[:-1]) if len(bus) > 1 else pad_bus("q")),
            (sid, pad_bus(bus.upper())),
            (sid, pad_bus("unkn")),
            (sid, pad_bus("None")),
            (sid, [0, 0, 0, 0]),
            (sid, [0] + bus4[1:]),
            (sid + 2048, bus4),
            (65535, bus4),
        ]
        for vsid, vbus in variants:
            owner = lookup(bindings, vsid, vbus)
            if owner is None:
                expected = None
            elif owner == name:
                expected = [name, first]
            else:
                continue  # lands on another binding whose payload layout differs; covered elsewhere
            cases.append(({"op": "decode", "bus": vbus, "sid": vsid, "dlc": len(payload), "data": data}, expected))

    for name, value in failing.items():
        cases.append(({"op": "encode", "name": name, "value": value}, None))
    return cases


def normalise(x):
    """JSON values as produced by the two code paths: 1.0 and 1 are the same number."""
    if isinstance(x, float) and x.is_integer() and abs(x) < 2**53:
        return int(x)
    if isinstance(x, list):
        return [normalise(v) for v in x]
    if isinstance(x, dict):
        return {k: normalise(v) for k, v in x.items()}
    return x


def run_schema(label, text, bindings, values, failing, extra_check=None):
    with tempfile.TemporaryDirectory(prefix="c18demo") as d:
        d = Path(d)
        (d / "schema.fcp").write_text(text)
        v2 = get_fcp(d / "schema.fcp").unwrap()
        results = Generator().generate(v2, {"output": str(d)})
        generated = {}
        for r in results:
            Path(r["path"]).write_text(str(r["contents"]))
            generated[Path(r["path"]).name] = str(r["contents"])
        if extra_check is not None:
            extra_check(label, generated)
        (d / "output.bin").write_bytes(
            bytes(serde_encode(get_reflection_schema().unwrap(), "Fcp", v2.reflection()))
        )
        cases = build_cases(v2, bindings, values, failing)
        (d / "cases.json").write_text(json.dumps([c for c, _ in cases]))
        (d / "driver.cpp").write_text(DRIVER)
        cc = subprocess.run(
            [os.environ.get("CXX", "g++"), "--std=c++17", *CXX_FLAGS, "-isystem", JSON_INCLUDE, "driver.cpp", "-o", "driver"],
            cwd=d, capture_output=True, text=True,
        )
        if cc.returncode != 0:
            print(cc.stderr[-4000:])
            print(f"FAIL: {label}: generated C++ does not compile")
            return False
        run = subprocess.run([str(d / "driver")], cwd=d, capture_output=True, text=True)
        if run.returncode != 0:
            print(run.stderr[-2000:])
            print(f"FAIL: {label}: driver crashed ({run.returncode})")
            return False
        out = json.loads(run.stdout)

    ok = True
    for which, passes in out.items():
        for pass_name, answers in passes.items():
            assert len(answers) == len(cases)
            for (case, expected), got in zip(cases, answers):
                if which.startswith("dynamic") and case["op"] == "encode" and case["name"] in DYNAMIC_BYTEWISE:
                    # the reflection-based encoder packs field by field on byte boundaries, so for
                    # structs with sub-byte fields only the addressing part is comparable today
                    expected = {"bus": expected["bus"], "sid": expected["sid"]}
                    got = None if got is None or "bus" not in got else {"bus": got["bus"], "sid": got["sid"]}
                if normalise(got) != normalise(expected):
                    ok = False
                    print(f"MISMATCH {label} [{which}/{pass_name}] {case}\n   expected {expected}\n   got      {got}")
    # static and dynamic give the same answers
    def comparable(passes):
        return {
            pass_name: [
                a
                for (case, _), a in zip(cases, answers)
                if not (case["op"] == "encode" and case["name"] in DYNAMIC_BYTEWISE)
            ]
            for pass_name, answers in passes.items()
        }

    for other in out:
        if normalise(comparable(out[other])) != normalise(comparable(out["static"])):
            ok = False
            print(f"MISMATCH {label}: {other} differs from static")
    print(f"{label}: {len(cases)} cases x {len(out)} schema objects x 2 passes: {'ok' if ok else 'FAILED'}")
    return ok


def main(extra_check=None):
    ok = True
    for label, text, bindings, values, failing in SCHEMAS:
        ok = run_schema(label, text, bindings, values, failing, extra_check) and ok
    if ok:
        print("PASS")
        return 0
    print("FAIL")
    return 1


if __name__ == "__main__":
    sys.exit(main())
