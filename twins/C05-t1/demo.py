#!/usr/bin/env python
"""Differential demo for property C05.

Generated DBC describes exactly the packed layout of every CAN binding.

The demo
  * builds a spread of CAN schemas (hand written corner cases + seeded random
    ones: every width, signed, enums, floats, nesting, arrays, big-endian
    byte-aligned signals, muxed signals, several buses, devices),
  * computes the expected packed layout with its OWN walk over the parsed AST
    (no use of fcp.encoding),
  * reads every generated file with its OWN tiny DBC reader (regex based) and
    with cantools, and compares message id/name/length and, per layout leaf,
    bit position, width, signedness, value type, byte order, unit and muxing,
  * packs frames from boundary / random values with its own bit packer and
    decodes them through its own DBC decoder and through cantools,
  * exercises the error paths (frame too big, missing id, unknown struct,
    string field, empty frame, enum bound as frame, ...),
  * exercises fcp.encoding.PackedEncoder directly (unroll on/off, re-use of one
    encoder, schema edited between two generate() calls),
  * finally compares a digest of every generated text / error with a golden
    value recorded on the unchanged tree.

Needs PYTHONPATH to point at the worktree (src and plugins/fcp_dbc).
Exits 0 and prints PASS when everything holds.
"""

import hashlib
import os
import random
import re
import struct as pystruct
import sys
from math import ceil
from pathlib import Path

FCP_ROOT = os.environ.get("FCP_ROOT", "/tmp/twin-C05")

import cantools  # noqa: E402

import fcp  # noqa: E402
import fcp_dbc  # noqa: E402
from fcp.parser import get_fcp_from_string  # noqa: E402
from fcp.error import Logger  # noqa: E402
from fcp.encoding import (  # noqa: E402
    PackedEncoder,
    PackedEncoderContext,
    Value,
    make_encoder,
)
from fcp.specs.type import (  # noqa: E402
    ArrayType,
    DoubleType,
    EnumType,
    FloatType,
    SignedType,
    StructType,
    UnsignedType,
)
from fcp.specs.enum import Enumeration  # noqa: E402
from fcp_dbc import Generator  # noqa: E402

GOLDEN = "188e2685ed9589276269322e772ae3335b9cfe61b1a065edaf68280f781db444"

failures = []
digest = hashlib.sha256()


def check(cond, msg):
    if not cond:
        failures.append(msg)
        if len(failures) < 30:
            print("FAIL:", msg)


def record(*parts):
    for p in parts:
        digest.update(repr(p).encode())
        digest.update(b"\x00")


# --------------------------------------------------------------------------
# independent model of the packed layout
# --------------------------------------------------------------------------
class Leaf:
    def __init__(self, name, start, width, signed, is_float, endian, unit, ext):
        self.name = name
        self.start = start
        self.width = width
        self.signed = signed
        self.is_float = is_float
        self.endian = endian
        self.unit = unit
        self.ext = ext


def model_layout(schema, impl):
    """Expected leaves for impl: own recursive walk (arrays unrolled)."""
    structs = {s.name: s for s in schema.structs}
    enums = {e.name: e for e in schema.enums}
    sigs = {}
    for block in reversed(impl.signals):  # first block with a name wins
        sigs[block.name] = block.fields
    leaves = []
    pos = [0]

    def scalar_width(t):
        if isinstance(t, EnumType):
            biggest = max(e.value for e in enums[t.name].enumeration)
            return max(1, biggest.bit_length())
        return int(t.name[1:])

    def walk(name, t, unit, prefix):
        if isinstance(t, StructType):
            s = structs[t.name]
            for f in sorted(s.fields, key=lambda f: f.field_id):
                walk(f.name, f.type, f.unit, prefix + name + "::")
        elif isinstance(t, ArrayType):
            for i in range(t.size):
                walk(name + "_" + str(i), t.underlying_type, unit, prefix)
        else:
            ext = sigs.get(name, {})
            w = scalar_width(t)
            leaves.append(
                Leaf(
                    prefix + name,
                    pos[0],
                    w,
                    isinstance(t, SignedType),
                    isinstance(t, (FloatType, DoubleType)),
                    ext.get("endianess") or "little",
                    unit,
                    ext,
                )
            )
            pos[0] += w

    top = structs[impl.type]
    for f in sorted(top.fields, key=lambda f: f.field_id):
        walk(f.name, f.type, f.unit, "")
    return leaves, pos[0]


# --------------------------------------------------------------------------
# independent DBC reader
# --------------------------------------------------------------------------
BO_RE = re.compile(r"^BO_ (\d+) (\w+): (\d+) (\S+)$")
SG_RE = re.compile(
    r"^ SG_ (\w+) ?(M|m\d+M?)? : (\d+)\|(\d+)@([01])([+-]) "
    r"\(([^,]+),([^)]+)\) \[([^|]*)\|([^\]]*)\] \"([^\"]*)\" (.*)$"
)
VT_RE = re.compile(r"^SIG_VALTYPE_ (\d+) (\w+) ?: ?(\d);$")
MUL_RE = re.compile(r"^SG_MUL_VAL_ (\d+) (\w+) (\w+) (.*);$")


def read_dbc(text):
    messages = {}
    order = []
    cur = None
    for line in text.split("\r\n"):
        m = BO_RE.match(line)
        if m:
            cur = {
                "id": int(m.group(1)),
                "name": m.group(2),
                "length": int(m.group(3)),
                "signals": {},
            }
            check(cur["id"] not in messages, "duplicate BO_ %d" % cur["id"])
            messages[cur["id"]] = cur
            order.append(cur["id"])
            continue
        m = SG_RE.match(line)
        if m:
            sig = {
                "name": m.group(1),
                "mux": m.group(2),
                "start": int(m.group(3)),
                "length": int(m.group(4)),
                "byte_order": "little" if m.group(5) == "1" else "big",
                "signed": m.group(6) == "-",
                "scale": m.group(7),
                "offset": m.group(8),
                "unit": m.group(11),
                "valtype": 0,
                "mux_parent": None,
                "mux_ranges": None,
            }
            check(sig["name"] not in cur["signals"], "duplicate SG_ " + sig["name"])
            cur["signals"][sig["name"]] = sig
            continue
        if line.startswith(" SG_") or line.startswith("BO_ "):
            check(False, "unparsed line %r" % line)
        m = VT_RE.match(line)
        if m:
            messages[int(m.group(1))]["signals"][m.group(2)]["valtype"] = int(
                m.group(3)
            )
            continue
        m = MUL_RE.match(line)
        if m:
            sig = messages[int(m.group(1))]["signals"][m.group(2)]
            sig["mux_parent"] = m.group(3)
            sig["mux_ranges"] = m.group(4)
    return messages, order


def dbc_bits(sig):
    """Frame bit numbers (byte*8 + bit) of a DBC signal, MSB first."""
    if sig["byte_order"] == "little":
        return [sig["start"] + i for i in reversed(range(sig["length"]))]
    bits = []
    p = sig["start"]
    for _ in range(sig["length"]):
        bits.append(p)
        p = p + 15 if p % 8 == 0 else p - 1
    return bits


def dbc_decode(sig, data):
    raw = 0
    for b in dbc_bits(sig):
        byte, bit = divmod(b, 8)
        raw = (raw << 1) | ((data[byte] >> bit) & 1)
    if sig["valtype"] == 1:
        return pystruct.unpack("<f", raw.to_bytes(4, "little"))[0]
    if sig["valtype"] == 2:
        return pystruct.unpack("<d", raw.to_bytes(8, "little"))[0]
    if sig["signed"] and raw >> (sig["length"] - 1):
        raw -= 1 << sig["length"]
    return raw


# --------------------------------------------------------------------------
# own packer working on the model layout
# --------------------------------------------------------------------------
def to_raw(leaf, value):
    if leaf.is_float:
        if leaf.width == 32:
            return int.from_bytes(pystruct.pack("<f", value), "little")
        return int.from_bytes(pystruct.pack("<d", value), "little")
    return value & ((1 << leaf.width) - 1)


def pack_frame(leaves, total_bits, values):
    acc = 0
    for leaf in leaves:
        raw = to_raw(leaf, values[leaf.name])
        if leaf.endian == "big":
            nbytes = leaf.width // 8
            raw = int.from_bytes(raw.to_bytes(nbytes, "big"), "little")
        acc |= raw << leaf.start
    return acc.to_bytes(ceil(total_bits / 8), "little")


def boundary_values(leaf, rng):
    if leaf.is_float:
        base = [0.0, -0.0, 1.0, -1.5, 3.25e10, -7.0e-12, float("inf")]
        if leaf.width == 32:
            base = [pystruct.unpack("<f", pystruct.pack("<f", v))[0] for v in base]
            base.append(pystruct.unpack("<f", b"\xff\xff\x7f\x7f")[0])
        else:
            base.append(sys.float_info.max)
            base.append(0.1)
        return base
    w = leaf.width
    if leaf.signed:
        lo, hi = -(1 << (w - 1)), (1 << (w - 1)) - 1
    else:
        lo, hi = 0, (1 << w) - 1
    vals = {lo, hi, 0, min(hi, 1), max(lo, -1) if leaf.signed else 0}
    vals.add(lo + (hi - lo) // 3)
    pattern = int("10" * 32, 2) & ((1 << w) - 1)
    vals.add(pattern - (1 << w) if leaf.signed and pattern >> (w - 1) else pattern)
    for _ in range(3):
        vals.add(rng.randint(lo, hi))
    return sorted(vals)


# --------------------------------------------------------------------------
# running one schema
# --------------------------------------------------------------------------
def parse(src):
    res = get_fcp_from_string(src, Logger({}))
    if res.is_err():
        return None, str(res.err())
    return res.unwrap(), None


def generate(schema):
    try:
        return Generator().generate(schema, {"output": "outdir"}), None
    except Exception as exc:  # noqa: BLE001
        return None, (type(exc).__name__, str(exc))


def check_success(tag, src, rng, frames=True):
    schema, err = parse(src)
    check(schema is not None, "%s: parse failed: %s" % (tag, err))
    if schema is None:
        record(tag, "parse-error")
        return
    files, err = generate(schema)
    check(files is not None, "%s: generation failed: %r" % (tag, err))
    if files is None:
        record(tag, err)
        return
    files2, _ = generate(schema)
    check(files == files2, tag + ": second generate() differs from the first")
    record(tag, [(str(f["path"]), f["bus"], f["type"], f["contents"]) for f in files])

    can_impls = [i for i in schema.impls if i.protocol == "can"]
    by_bus = {}
    for impl in can_impls:
        by_bus.setdefault(impl.fields.get("bus", "default"), []).append(impl)
    check(
        [f["bus"] for f in files] == list(by_bus),
        "%s: bus files %r != %r" % (tag, [f["bus"] for f in files], list(by_bus)),
    )
    for f in files:
        bus = f["bus"]
        check(f["path"] == Path("outdir") / (bus + ".fcp"), tag + ": path")
        check(f["type"] == "file", tag + ": type")
        messages, order = read_dbc(f["contents"])
        db = cantools.database.load_string(f["contents"], "dbc")
        impls = by_bus.get(bus, [])
        check(
            order == [i.fields["id"] for i in impls],
            "%s/%s: message ids %r" % (tag, bus, order),
        )
        check(len(db.messages) == len(impls), tag + ": cantools message count")
        devices = []
        for i in impls:
            d = i.fields.get("device")
            if d is not None and d not in devices:
                devices.append(d)
        check([n.name for n in db.nodes] == devices, "%s/%s: nodes" % (tag, bus))
        for impl in impls:
            where = "%s/%s/%s" % (tag, bus, impl.name)
            leaves, total = model_layout(schema, impl)
            msg = messages.get(impl.fields["id"])
            check(msg is not None, where + ": message missing")
            if msg is None:
                continue
            cmsg = db.get_message_by_frame_id(impl.fields["id"])
            check(msg["name"] == impl.name == cmsg.name, where + ": name")
            check(
                msg["length"] == ceil(total / 8) == cmsg.length,
                where + ": length %d vs %d bits" % (msg["length"], total),
            )
            check(len(msg["signals"]) == len(leaves), where + ": signal count")
            check(len(cmsg.signals) == len(leaves), where + ": cantools signal count")
            mux_parents = {
                lf.ext.get("mux_signal")
                for lf in leaves
                if lf.ext.get("mux_signal") is not None
            }
            for lf in leaves:
                name = lf.name.replace("::", "_")
                sig = msg["signals"].get(name)
                w = where + "/" + name
                check(sig is not None, w + ": signal missing")
                if sig is None:
                    continue
                exp_start = lf.start + 7 if lf.endian == "big" else lf.start
                check(sig["start"] == exp_start, w + ": start")
                check(sig["length"] == lf.width, w + ": width")
                check(sig["signed"] == lf.signed, w + ": sign")
                check(sig["byte_order"] == lf.endian, w + ": byte order")
                check(sig["unit"] == (lf.unit or ""), w + ": unit")
                exp_vt = 0 if not lf.is_float else (1 if lf.width == 32 else 2)
                check(sig["valtype"] == exp_vt, w + ": value type")
                check((sig["scale"], sig["offset"]) == ("1", "0"), w + ": scaling")
                # exact frame bits
                exp_bits = list(range(lf.start, lf.start + lf.width))
                check(sorted(dbc_bits(sig)) == exp_bits, w + ": occupied bits")
                # multiplexing
                is_parent = lf.name in mux_parents
                parent = lf.ext.get("mux_signal")
                count = lf.ext.get("mux_count")
                if is_parent and count is None:
                    check(sig["mux"] == "M", w + ": multiplexer flag")
                elif count is not None:
                    check(
                        sig["mux"] == ("m0M" if is_parent else "m0"),
                        w + ": muxed flag %r" % sig["mux"],
                    )
                    if sig["mux_parent"] is None:  # simple multiplexing
                        selectors = [
                            x["name"]
                            for x in msg["signals"].values()
                            if x["mux"] is not None and x["mux"].endswith("M")
                        ]
                        check(selectors == [parent], w + ": implicit mux parent")
                        check(count == 1, w + ": implicit mux ids")
                    else:
                        check(sig["mux_parent"] == parent, w + ": mux parent")
                    if count > 1:
                        check(
                            sig["mux_ranges"] == "0-%d" % (count - 1),
                            w + ": mux ranges %r" % sig["mux_ranges"],
                        )
                else:
                    check(sig["mux"] is None, w + ": unexpected mux flag")
                csig = cmsg.get_signal_by_name(name)
                check(csig.start == exp_start, w + ": cantools start")
                check(csig.length == lf.width, w + ": cantools length")
                check(csig.is_signed == lf.signed, w + ": cantools sign")
                check(
                    csig.byte_order == lf.endian + "_endian", w + ": cantools order"
                )
                check(csig.conversion.is_float == lf.is_float, w + ": cantools float")
                check(csig.unit == lf.unit, w + ": cantools unit")
                check(csig.is_multiplexer == is_parent, w + ": cantools is_mux")
                check(
                    csig.multiplexer_ids
                    == (list(range(count)) if count is not None else None),
                    w + ": cantools mux ids",
                )
                check(csig.multiplexer_signal == parent, w + ": cantools mux signal")
            if not frames or not leaves:
                continue
            # frames packed from boundary/random values
            per_leaf = {lf.name: boundary_values(lf, rng) for lf in leaves}
            rounds = max(len(v) for v in per_leaf.values())
            for r in range(rounds + 4):
                values = {}
                for lf in leaves:
                    cand = per_leaf[lf.name]
                    values[lf.name] = (
                        cand[r % len(cand)] if r < rounds else rng.choice(cand)
                    )
                # keep selectors inside the declared ids on even rounds
                for lf in leaves:
                    cnt = lf.ext.get("mux_count")
                    par = lf.ext.get("mux_signal")
                    if cnt and par in values and r % 2 == 0:
                        values[par] = values[par] % cnt
                data = pack_frame(leaves, total, values)
                outside = any(
                    lf.ext.get("mux_count") is not None
                    and lf.ext.get("mux_signal") in values
                    and values[lf.ext.get("mux_signal")] >= lf.ext.get("mux_count")
                    for lf in leaves
                )
                try:
                    decoded = cmsg.decode(data, decode_choices=False, scaling=False)
                    check(not outside, where + ": selector outside ids accepted")
                except cantools.database.errors.DecodeError:
                    check(outside, where + ": cantools refused a valid frame")
                    decoded = None
                for lf in leaves:
                    name = lf.name.replace("::", "_")
                    sig = msg["signals"].get(name)
                    if sig is None:
                        continue
                    got = dbc_decode(sig, data)
                    check(
                        got == values[lf.name],
                        "%s/%s: own decode %r != %r" % (where, name, got, values[lf.name]),
                    )
                    if decoded is not None:
                        check(
                            decoded.get(name) == values[lf.name],
                            "%s/%s: cantools decode %r != %r"
                            % (where, name, decoded.get(name), values[lf.name]),
                        )


def check_error(tag, src, exp_type, exp_text=None):
    schema, err = parse(src)
    check(schema is not None, "%s: parse failed: %s" % (tag, err))
    if schema is None:
        return
    files, err = generate(schema)
    check(files is None, tag + ": generation unexpectedly succeeded")
    record(tag, err)
    if err is None:
        return
    check(err[0] == exp_type, "%s: raised %r" % (tag, err))
    if exp_text is not None:
        check(err[1] == exp_text, "%s: message %r" % (tag, err[1]))


# --------------------------------------------------------------------------
# the corpus
# --------------------------------------------------------------------------
HAND = {
    "mixed": """version: "3"
enum E { A = 0, B = 5, }
enum One { Z = 0, }
enum Pow { A = 0, B = 8, }
struct In { a @0: i5, b @1: f32 | unit("V"), }
struct Foo { x @0: i8, y @1: In, z @2: [u3, 3], e @3: E, o @4: One, p @5: Pow, }
impl can for Foo { id: 18, device: ecu, bus: "b1", }
impl can for Foo as Foo2 { id: 19, device: "ecu", }
impl can for In as Foo3 { id: 2047, device: "other", bus: "b1", }
impl uart for Foo as NotCan { id: 18, }
""",
    "double": """version: "3"
struct Foo { x @0: f64 | unit("rad/s"), }
impl can for Foo { id: 1, }
""",
    "full_u64": """version: "3"
struct Foo { x @0: u64, }
impl can for Foo { id: 0, }
""",
    "full_i64": """version: "3"
struct Foo { x @0: i64, }
impl can for Foo { id: 3, }
""",
    "bits": """version: "3"
struct Foo { a @0: u1, b @1: i1, c @2: u1, d @3: i2, e @4: u59, }
impl can for Foo { id: 3, }
""",
    "field_order": """version: "3"
struct Foo { c @7: u5, a @2: u7, b @4: i9, }
impl can for Foo { id: 3, }
""",
    "big_endian": """version: "3"
struct Foo { m @0: u8, a @1: u16, b @2: i32, c @3: u3, }
impl can for Foo { id: 1,
 signal a { endianess: "big", },
 signal b { endianess: "big", },
 signal c { endianess: "little", },
}
""",
    "big_endian_float": """version: "3"
struct Foo { a @0: f32, b @1: u24, c @2: i8, }
impl can for Foo { id: 1,
 signal a { endianess: "big", },
 signal b { endianess: "big", },
 signal c { endianess: "big", },
}
""",
    "mux": """version: "3"
struct Foo { m @0: u4, a @1: u12, b @2: i16, k @3: u8, c @4: u8, }
impl can for Foo { id: 77,
 signal a { mux_signal: "m", mux_count: 3, },
 signal b { mux_signal: "m", mux_count: 16, endianess: "big", },
 signal c { mux_signal: "k", mux_count: 1, },
}
""",
    "nested_arrays": """version: "3"
enum E { A = 1, B = 2, C = 3, }
struct P { x @0: u4, y @1: i4, }
struct Q { p @0: [P, 2], e @1: [E, 2], }
struct Foo { q @0: [Q, 2], t @1: [[u2, 2], 2], }
impl can for Foo { id: 5, bus: "chassis", }
""",
    "shared_signal_block": """version: "3"
struct P { v @0: u16, w @1: u8, }
struct Foo { a @0: P, b @1: u8, v @2: u16, arr @3: [u8, 2], }
impl can for Foo { id: 5,
 signal v { endianess: "big", },
 signal arr_1 { endianess: "big", },
 signal arr { endianess: "big", },
 signal v { endianess: "little", },
}
""",
    "multi_bus": """version: "3"
struct A { s1 @0: u16 | unit("m/s"), s2 @1: u16 | unit("m/s^2"), }
struct B { t @0: i7, }
impl can for A { id: 10, bus: "bus1", device: "d1", }
impl can for B { id: 11, bus: "bus2", device: "d2", }
impl can for A as A2 { id: 12, bus: "bus2", device: "d2", }
impl can for B as B2 { id: 13, device: "d3", }
impl can for B as B3 { id: 14, bus: "bus1", device: "d1", }
impl can for A as A3 { id: 15, bus: "bus1", device: "d0", }
""",
    "no_can": """version: "3"
struct Foo { x @0: u8, }
impl uart for Foo { id: 1, }
""",
}

ERRORS = [
    (
        "too_big",
        """version: "3"
struct Foo { s1 @0: u32, s2 @1: u32, s3 @2: u8, }
impl can for Foo { id: 10, }
""",
        "ValueError",
        "Message Foo too big. Current length: 72",
    ),
    (
        "too_big_65",
        """version: "3"
struct Foo { s1 @0: u64, s2 @1: u1, }
impl can for Foo as Renamed { id: 10, }
""",
        "ValueError",
        "Message Foo too big. Current length: 65",
    ),
    (
        "too_big_second_binding",
        """version: "3"
struct Ok { a @0: u8, }
struct Foo { s1 @0: [u8, 9], }
impl can for Ok { id: 9, }
impl can for Foo { id: 10, }
""",
        "ValueError",
        "Message Foo too big. Current length: 72",
    ),
    (
        "no_id",
        """version: "3"
struct Foo { x @0: u8, }
impl can for Foo { bus: "b", }
""",
        "UnwrapError",
        "No id field found in extension",
    ),
    (
        "no_id_and_too_big",
        """version: "3"
struct Foo { x @0: u64, y @1: u8, }
impl can for Foo { bus: "b", }
""",
        "ValueError",
        "Message Foo too big. Current length: 72",
    ),
    (
        "unknown_struct",
        """version: "3"
struct Foo { x @0: u8, }
impl can for Baz { id: 1, }
""",
        "UnwrapError",
        "Called `Maybe.unwrap()` on a `Nothing` value",
    ),
    (
        "string_field",
        """version: "3"
struct Foo { x @0: str, }
impl can for Foo { id: 1, }
""",
        "ValueError",
        "Error computing type length for type StringType(type='str')",
    ),
    (
        "string_array",
        """version: "3"
struct Foo { a @0: u8, x @1: [str, 2], }
impl can for Foo { id: 1, }
""",
        "ValueError",
        "Error computing type length for type StringType(type='str')",
    ),
    (
        "empty_frame",
        """version: "3"
struct Foo { x @0: [u8, 0], }
impl can for Foo { id: 1, }
""",
        "IndexError",
        "list index out of range",
    ),
    (
        "enum_as_frame",
        """version: "3"
enum E { A = 0, B = 5, }
impl can for E { id: 1, }
""",
        "AttributeError",
        "'StructType' object has no attribute 'is_signed'",
    ),
    (
        "id_too_wide",
        """version: "3"
struct Foo { x @0: u8, }
impl can for Foo { id: 2048, }
""",
        "Error",
        None,
    ),
    (
        "bus_list_valued",
        """version: "3"
struct Foo { x @0: u8, }
impl can for Foo { id: 4, bus: [a, b], }
""",
        None,
        None,
    ),
    (
        "bus_number",
        """version: "3"
struct Foo { x @0: u8, }
impl can for Foo { id: 4, bus: 3, device: 7, }
impl can for Foo as Foo2 { id: 5, bus: 3.0, device: 7.0, }
""",
        None,
        None,
    ),
    (
        "device_list_valued",
        """version: "3"
struct Foo { x @0: u8, }
impl can for Foo { id: 4, device: [a, b], }
impl can for Foo as Foo2 { id: 5, device: [a, b], }
""",
        None,
        None,
    ),
    (
        "duplicate_ids_one_bus",
        """version: "3"
struct Foo { x @0: u8, }
impl can for Foo { id: 4, }
impl can for Foo as Foo2 { id: 4, }
""",
        None,
        None,
    ),
    (
        "mux_list_valued",
        """version: "3"
struct Foo { m @0: u8, x @1: u8, }
impl can for Foo { id: 4, signal x { mux_signal: [m, m], mux_count: 2, }, }
""",
        None,
        None,
    ),
]


def random_schema(rng, n):
    """A random CAN schema whose frames fit 64 bits."""
    lines = ['version: "3"']
    enums = []
    for e in range(rng.randint(0, 2)):
        top = rng.choice([0, 1, 2, 3, 4, 7, 8, 15, 16, 255, 256, 1000, 65535, 65536])
        members = sorted({0, top} if rng.random() < 0.5 else {top})
        lines.append(
            "enum E%d { %s }" % (e, " ".join("V%d = %d," % (v, v) for v in members))
        )
        enums.append(("E%d" % e, max(1, top.bit_length())))
    units = [None, "V", "m/s", "%", "deg C"]

    def scalar(budget):
        kind = rng.random()
        if kind < 0.12 and budget >= 32:
            return "f32", 32
        if kind < 0.16 and budget >= 64:
            return "f64", 64
        if kind < 0.3 and enums:
            name, w = rng.choice(enums)
            if w <= budget:
                return name, w
        w = rng.choice([1, 2, 3, 5, 7, 8, 9, 12, 16, 17, 24, 31, 32, 33, 40, 63, 64])
        w = min(w, budget)
        return rng.choice("ui") + str(w), w

    structs = []  # (name, bits)
    impl_lines = []
    for s in range(rng.randint(1, 3)):
        budget = 64
        fields = []
        blocks = []
        ids = rng.sample(range(0, 40), 8)
        nfields = rng.randint(1, 6)
        pos_known = True  # start offsets are only tracked in declaration order
        ids_sorted = sorted(ids[:nfields])
        pos = 0
        first_scalar = None
        for k in range(nfields):
            if budget <= 0:
                break
            fid = ids_sorted[k]
            name = "f%d_%d" % (s, k)
            choice = rng.random()
            unit = rng.choice(units)
            suffix = ' | unit("%s")' % unit if unit else ""
            if choice < 0.15 and structs:
                cands = [st for st in structs if st[1] <= budget]
                if cands:
                    st = rng.choice(cands)
                    fields.append("%s @%d: %s," % (name, fid, st[0]))
                    budget -= st[1]
                    pos += st[1]
                    continue
            if choice < 0.3:
                t, w = scalar(max(1, budget // 3))
                cnt = rng.randint(1, 3)
                if w * cnt <= budget:
                    fields.append("%s @%d: [%s, %d]%s," % (name, fid, t, cnt, suffix))
                    budget -= w * cnt
                    pos += w * cnt
                    continue
            t, w = scalar(budget)
            fields.append("%s @%d: %s%s," % (name, fid, t, suffix))
            is_num = t[0] in "uif" and not t.startswith("E")
            if is_num and pos % 8 == 0 and w % 8 == 0 and rng.random() < 0.6:
                blocks.append(' signal %s { endianess: "big", },' % name)
            elif (
                first_scalar is not None
                and is_num
                and rng.random() < 0.3
            ):
                blocks.append(
                    ' signal %s { mux_signal: "%s", mux_count: %d, },'
                    % (name, first_scalar[0], rng.randint(1, 1 << min(first_scalar[1], 5)))
                )
            if first_scalar is None and t[0] == "u" and not t.startswith("E"):
                first_scalar = (name, w)
            budget -= w
            pos += w
        sname = "S%d_%d" % (n, s)
        lines.append("struct %s { %s }" % (sname, " ".join(fields)))
        structs.append((sname, 64 - budget))
        for b in range(rng.randint(1, 2)):
            extra = []
            if rng.random() < 0.5:
                extra.append('bus: "%s",' % rng.choice(["alpha", "beta", "default"]))
            if rng.random() < 0.5:
                extra.append('device: "%s",' % rng.choice(["n1", "n2"]))
            impl_lines.append(
                "impl can for %s as M%d_%d_%d { id: %d, %s\n%s\n}"
                % (sname, n, s, b, 100 * s + 10 * b + n % 10, " ".join(extra), "\n".join(blocks))
            )
    return "\n".join(lines + impl_lines) + "\n"


# --------------------------------------------------------------------------
# direct use of fcp.encoding
# --------------------------------------------------------------------------
def describe(pieces):
    return [
        (
            p.name,
            repr(p.type),
            p.bitstart,
            p.bitlength,
            p.endianess,
            p.unit,
            sorted(p.extended_data.items(), key=repr),
            repr(p.composite_type),
        )
        for p in pieces
    ]


def check_encoder(rng):
    src = HAND["nested_arrays"] + """
struct Solo { a @0: [u8, 3], e @1: E, b @2: [P, 2], }
impl can for Solo { id: 6, signal a { endianess: "big", }, }
"""
    schema, err = parse(src)
    check(schema is not None, "encoder: parse " + str(err))
    rolled = make_encoder("packed", schema, PackedEncoderContext())
    unrolled = make_encoder(
        "packed", schema, PackedEncoderContext().with_unroll_arrays(True)
    )
    for impl in schema.impls:
        a = unrolled.generate(impl)
        leaves, total = model_layout(schema, impl)
        check(
            [(p.name, p.bitstart, p.bitlength) for p in a]
            == [(lf.name, lf.start, lf.width) for lf in leaves],
            "encoder: unrolled layout of " + impl.name,
        )
        check(all(isinstance(p, Value) for p in a), "encoder: piece type")
        b = unrolled.generate(impl)
        check(a is not b and describe(a) == describe(b), "encoder: repeat call")
        record("enc-unrolled", impl.name, describe(a))
        try:
            c = rolled.generate(impl)
            record("enc-rolled", impl.name, describe(c))
            check(
                c[-1].bitstart + c[-1].bitlength == total,
                "encoder: rolled total bits of " + impl.name,
            )
        except Exception as exc:  # noqa: BLE001
            record("enc-rolled", impl.name, type(exc).__name__, str(exc))
    # a fresh encoder per call gives the same answer as a re-used one
    for impl in reversed(schema.impls):
        fresh = PackedEncoder(schema, PackedEncoderContext(True)).generate(impl)
        check(
            describe(fresh) == describe(unrolled.generate(impl)),
            "encoder: fresh vs reused for " + impl.name,
        )
    # the context may be anything as long as no array is met (upstream test
    # passes the class itself)
    plain, _ = parse(HAND["mixed"].replace("z @2: [u3, 3],", "z @2: u9,"))
    quirky = PackedEncoder(plain, PackedEncoderContext)
    record("enc-quirky", describe(quirky.generate(plain.impls[0])))
    witharr, _ = parse(HAND["mixed"])
    try:
        PackedEncoder(witharr, PackedEncoderContext).generate(witharr.impls[0])
        record("enc-quirky-array", "no error")
    except Exception as exc:  # noqa: BLE001
        record("enc-quirky-array", type(exc).__name__, str(exc))
    # the schema may be edited between two generate() calls on one encoder
    solo = [i for i in schema.impls if i.type == "Solo"][0]
    before = unrolled.generate(solo)
    enum = [e for e in schema.enums if e.name == "E"][0]
    enum.enumeration.append(Enumeration("Huge", 300))
    after = unrolled.generate(solo)
    leaves, total = model_layout(schema, solo)
    check(
        [(p.name, p.bitstart, p.bitlength) for p in after]
        == [(lf.name, lf.start, lf.width) for lf in leaves],
        "encoder: layout after schema edit",
    )
    check(
        [p.bitlength for p in before if p.name == "e"] == [2]
        and [p.bitlength for p in after if p.name == "e"] == [9],
        "encoder: enum width follows the schema edit",
    )
    files, err = generate(schema)
    record("after-edit", err, [f["contents"] for f in files or []])
    enum.enumeration.pop()
    check(
        describe(unrolled.generate(solo)) == describe(before),
        "encoder: layout after undoing the edit",
    )
    # errors out of the encoder
    try:
        make_encoder("loose", schema, PackedEncoderContext())
        check(False, "encoder: unknown name accepted")
    except KeyError as exc:
        record("enc-name", str(exc))
    try:
        unrolled._generate(UnsignedType("u8"), solo)
        check(False, "encoder: _generate accepted a scalar")
    except ValueError as exc:
        record("enc-generate", str(exc))
    for t in (
        UnsignedType("u7"),
        SignedType("i64"),
        FloatType(),
        DoubleType(),
        ArrayType(UnsignedType("u3"), 5),
        ArrayType(ArrayType(EnumType("E"), 2), 3),
        EnumType("E"),
    ):
        record("enc-len", repr(t), unrolled._get_type_length(schema, t))
    for t in (StructType("P"), EnumType("Nope")):
        try:
            unrolled._get_type_length(schema, t)
            check(False, "encoder: length of %r" % t)
        except Exception as exc:  # noqa: BLE001
            record("enc-len-err", repr(t), type(exc).__name__, str(exc))


def main():
    for mod, sub in ((fcp, "src"), (fcp_dbc, "plugins/fcp_dbc")):
        here = os.path.realpath(mod.__file__)
        root = os.path.realpath(os.path.join(FCP_ROOT, sub))
        if not here.startswith(root + os.sep):
            print("ERROR: %s imported from %s, not from %s (set PYTHONPATH)" % (mod.__name__, here, root))
            return 2

    rng = random.Random(20240505)
    for tag, src in HAND.items():
        check_success("hand:" + tag, src, rng)
    for n in range(60):
        check_success("rand:%d" % n, random_schema(rng, n), rng)
    for tag, src, exp_type, exp_text in ERRORS:
        if exp_type is None:
            schema, err = parse(src)
            files, err = generate(schema) if schema is not None else (None, err)
            record("misc:" + tag, err, [f["contents"] for f in files or []])
            if "--verbose" in sys.argv:
                print("misc:" + tag, err, len(files or []))
        else:
            check_error("err:" + tag, src, exp_type, exp_text)
    # the shipped example schemas of the plug-in
    folder = Path(FCP_ROOT) / "plugins/fcp_dbc/tests/schemas/generator"
    for path in sorted(folder.glob("*.fcp")):
        check_success("shipped:" + path.stem, path.read_text(), rng)
    check_encoder(rng)

    got = digest.hexdigest()
    if "--print-golden" in sys.argv:
        print(got)
    else:
        check(got == GOLDEN, "golden digest %s != recorded %s" % (got, GOLDEN))
    if failures:
        print("FAILED (%d problems)" % len(failures))
        return 1
    print("PASS")
    return 0


if __name__ == "__main__":
    sys.exit(main())
