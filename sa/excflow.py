"""Exception-escape analysis: handler coverage up the call graph, with the repo's two
propagation idioms (@catch, and lark's VisitError wrapping of callback exceptions)."""

from __future__ import annotations

import ast
import builtins
import importlib
from typing import Dict, List, Optional, Set, Tuple

from .front_py import FuncInfo, walk_local, dotted, norm

RESULT_ATTEMPT = ("repo", "fcp.result.ResultAttemptError")
MAYBE_ATTEMPT = ("repo", "fcp.maybe.MaybeAttemptError")
RESULT_UNWRAP = ("repo", "fcp.result.UnwrapError")
MAYBE_UNWRAP = ("repo", "fcp.maybe.UnwrapError")


def ext_class(dotted_name: str):
    """Resolve an external dotted name to a real class of the *library* (lark / builtins).
    Only library code is imported here - never the analysed repository."""
    parts = dotted_name.split(".")
    if parts[0] == "builtins" and len(parts) == 2:
        return getattr(builtins, parts[1], None)
    if parts[0] == "lark":
        try:
            obj = importlib.import_module("lark")
            for p in parts[1:]:
                if hasattr(obj, p):
                    obj = getattr(obj, p)
                else:
                    obj = importlib.import_module(".".join(parts[: parts.index(p) + 1]))
            return obj if isinstance(obj, type) else None
        except Exception:
            return None
    return None


class ExcFlow:
    def __init__(self, eng, roots: List[str]):
        self.eng = eng
        self.prog = eng.prog
        self.cg = eng.cg
        self.roots = roots
        # transformer callbacks: qual -> transformer class qual
        self.cb_class: Dict[str, str] = {}
        for cq, cbs in self.cg.transformer_callbacks.items():
            for f in cbs:
                self.cb_class[f.qual] = cq
        # transform call sites: list of (CallSite, transformer class qual or None)
        self.transform_sites = []
        for sites in self.cg.sites.values():
            for cs in sites:
                if any(x.endswith("Transformer.transform") for x in cs.externals):
                    self.transform_sites.append(cs)
        extra = {}
        for cs in self.transform_sites:
            tq = self._transformer_of(cs)
            for cq, cbs in self.cg.transformer_callbacks.items():
                if tq is None or tq == cq:
                    extra.setdefault(cs.caller.qual, []).extend(f.qual for f in cbs)
        self.extra = extra
        self.reach = self.cg.reachable(roots, extra=extra)

    def _transformer_of(self, cs) -> Optional[str]:
        ft = self.eng.T.fn(cs.caller)
        if isinstance(cs.node.func, ast.Attribute):
            t = ft.of(cs.node.func.value)
            if t and t[0] == "inst":
                return t[1]
        return None

    # ---------------------------------------------------------------- coverage
    def resolve_exc_type(self, f: FuncInfo, e: ast.AST):
        r = self.prog.resolve_expr_symbol(f.module, f, e)
        if r is None:
            return None
        if r[0] == "class":
            return ("repo", r[1])
        if r[0] == "ext":
            c = ext_class(r[1])
            return ("ext", c) if c else ("extname", r[1])
        if r[0] == "builtin":
            c = getattr(builtins, r[1], None)
            return ("ext", c) if isinstance(c, type) else None
        return None

    def handler_types(self, f: FuncInfo, h: ast.ExceptHandler):
        if h.type is None:
            return [("ext", BaseException)]
        elts = h.type.elts if isinstance(h.type, ast.Tuple) else [h.type]
        return [self.resolve_exc_type(f, x) for x in elts]

    def covers(self, handler_t, exc) -> Optional[bool]:
        if handler_t is None or handler_t[0] == "extname":
            return None
        if exc[0] == "ext" and handler_t[0] == "ext":
            return issubclass(exc[1], handler_t[1])
        if exc[0] == "repo":
            if handler_t[0] == "repo":
                return self.prog.is_subclass(exc[1], handler_t[1])
            if handler_t[0] == "ext":
                ci = self.prog.classes.get(exc[1])
                if ci is None:
                    return None
                for b in self.prog.ext_bases(ci):
                    c = ext_class(b) or getattr(builtins, b.split(".")[-1], None)
                    if isinstance(c, type) and issubclass(c, handler_t[1]):
                        return True
                return False
        return False

    def enclosing_tries(self, f: FuncInfo, node: ast.AST) -> List[ast.Try]:
        """try statements of f whose *body* contains node, innermost first."""
        body = f.node.body if not isinstance(f.node, ast.Lambda) else []

        def rec2(stmts, stack):
            for st in stmts:
                if not any(n is node for n in ast.walk(st)):
                    continue
                if isinstance(st, ast.Try):
                    if any(n is node for b in st.body for n in ast.walk(b)):
                        return rec2(st.body, stack + [st])
                    for h in st.handlers:
                        if any(n is node for b in h.body for n in ast.walk(b)):
                            return rec2(h.body, stack)
                    if any(n is node for b in st.orelse for n in ast.walk(b)):
                        return rec2(st.orelse, stack)
                    if any(n is node for b in st.finalbody for n in ast.walk(b)):
                        return rec2(st.finalbody, stack)
                    return stack
                subs = []
                for fld in ("body", "orelse"):
                    v = getattr(st, fld, None)
                    if isinstance(v, list):
                        subs += [s for s in v if isinstance(s, ast.stmt)]
                if isinstance(st, ast.Match):
                    for c in st.cases:
                        subs += c.body
                if any(any(n is node for n in ast.walk(s)) for s in subs):
                    return rec2(subs, stack)
                return stack
            return stack

        return list(reversed(rec2(body, [])))

    def caught_locally(self, f: FuncInfo, node: ast.AST, exc) -> Tuple[Optional[bool], Optional[ast.ExceptHandler]]:
        unknown = False
        for t in self.enclosing_tries(f, node):
            for h in t.handlers:
                for ht in self.handler_types(f, h):
                    c = self.covers(ht, exc)
                    if c:
                        return True, h
                    if c is None:
                        unknown = True
        return (None if unknown else False), None

    # ---------------------------------------------------------------- escape
    def escapes(self, f: FuncInfo, node: ast.AST, exc, depth: int = 0, seen: Optional[Set] = None) -> List[List[str]]:
        """Paths (lists of 'file:func@line') along which `exc` raised at `node` in f reaches a
        root uncaught.  [] = handled on every path."""
        seen = set() if seen is None else seen
        key = (f.qual, id(node), exc[1] if exc[0] != "ext" else exc[1].__name__)
        if key in seen or depth > 25:
            return []
        seen.add(key)
        here = "%s@%d" % (f.qual, getattr(node, "lineno", 0))
        c, _ = self.caught_locally(f, node, exc)
        if c or c is None:
            return []
        if exc in (RESULT_ATTEMPT, MAYBE_ATTEMPT) and self.has_catch(f):
            return []
        if f.qual in self.roots:
            return [[here]]
        out = []
        if f.qual in self.cb_class and f.parent is None:
            # exception leaving a lark callback is re-raised as VisitError by Transformer.transform
            cq = self.cb_class[f.qual]
            ve = ("ext", ext_class("lark.exceptions.VisitError"))
            for cs in self.transform_sites:
                if cs.caller.qual not in self.reach:
                    continue
                tq = self._transformer_of(cs)
                if tq is not None and tq != cq:
                    continue
                for p in self.escapes(cs.caller, cs.node, ve, depth + 1, seen):
                    out.append([here + " (re-raised as VisitError)"] + p)
            return out
        callers = [cs for cs in self.cg.callers_of(f.qual) if cs.caller.qual in self.reach]
        if f.parent is not None:
            # nested function: runs where it is called; if never called directly it escapes
            # through whoever received it (registry) - treated by the rule modules.
            pass
        for cs in callers:
            for p in self.escapes(cs.caller, cs.node, exc, depth + 1, seen):
                out.append([here] + p)
        return out

    @staticmethod
    def has_catch(f: FuncInfo) -> bool:
        return f.has_decorator("catch")
