"""Local def-use provenance, effect (mutation) scan, small helpers over ast."""

from __future__ import annotations

import ast
from typing import Dict, List, Optional, Set, Tuple

from .front_py import FuncInfo, walk_local, dotted, norm

MUTATING_METHODS = {
    "append", "extend", "insert", "update", "setdefault", "pop", "popitem", "sort", "clear",
    "remove", "add", "discard", "reverse", "__setitem__", "__delitem__",
}


class Defs:
    """name -> list of (kind, value-expr, stmt) bindings inside one function (flow-insensitive)."""

    def __init__(self, fn_node: ast.AST):
        self.fn = fn_node
        self.binds: Dict[str, List[Tuple[str, Optional[ast.AST], ast.AST]]] = {}
        self.params: List[str] = []
        if not isinstance(fn_node, ast.Module):
            a = fn_node.args
            for p in list(a.posonlyargs) + list(a.args) + list(a.kwonlyargs):
                self.params.append(p.arg)
            if a.vararg:
                self.params.append(a.vararg.arg)
            if a.kwarg:
                self.params.append(a.kwarg.arg)
        for n in (walk_local(fn_node) if not isinstance(fn_node, ast.Module) else ast.walk(fn_node)):
            if isinstance(n, ast.Assign):
                for t in n.targets:
                    self._bind_target(t, n.value, n, "assign")
            elif isinstance(n, ast.AnnAssign) and n.value is not None:
                self._bind_target(n.target, n.value, n, "assign")
            elif isinstance(n, ast.AugAssign):
                self._bind_target(n.target, n.value, n, "aug")
            elif isinstance(n, (ast.For, ast.AsyncFor)):
                self._bind_target(n.target, n.iter, n, "iter")
            elif isinstance(n, ast.comprehension):
                self._bind_target(n.target, n.iter, n, "iter")
            elif isinstance(n, (ast.With, ast.AsyncWith)):
                for it in n.items:
                    if it.optional_vars is not None:
                        self._bind_target(it.optional_vars, it.context_expr, n, "with")
            elif isinstance(n, ast.NamedExpr):
                self._bind_target(n.target, n.value, n, "assign")
            elif isinstance(n, ast.ExceptHandler) and n.name:
                self.binds.setdefault(n.name, []).append(("except", n.type, n))

    def _bind_target(self, t, value, stmt, kind) -> None:
        if isinstance(t, ast.Name):
            self.binds.setdefault(t.id, []).append((kind, value, stmt))
        elif isinstance(t, (ast.Tuple, ast.List)):
            velts = value.elts if isinstance(value, (ast.Tuple, ast.List)) and len(value.elts) == len(t.elts) and kind == "assign" else None
            for i, e in enumerate(t.elts):
                if isinstance(e, ast.Starred):
                    self._bind_target(e.value, value, stmt, kind + "-unpack*")
                elif velts is not None:
                    self._bind_target(e, velts[i], stmt, kind)
                else:
                    self._bind_target(e, value, stmt, "%s-unpack[%d]" % (kind, i))

    def values(self, name: str) -> List[Tuple[str, Optional[ast.AST], ast.AST]]:
        return self.binds.get(name, [])


def access_path(e: ast.AST) -> Optional[str]:
    """`piece.extended_data.get('mux')` style chains -> 'piece.extended_data[mux]';
    Name/Attribute/Subscript-with-constant/.get(const) only; None otherwise."""
    if isinstance(e, ast.Name):
        return e.id
    if isinstance(e, ast.Attribute):
        b = access_path(e.value)
        return None if b is None else b + "." + e.attr
    if isinstance(e, ast.Subscript):
        b = access_path(e.value)
        if b is None:
            return None
        if isinstance(e.slice, ast.Constant):
            return "%s[%r]" % (b, e.slice.value)
        if isinstance(e.slice, ast.UnaryOp) and isinstance(e.slice.op, ast.USub) and isinstance(e.slice.operand, ast.Constant) and isinstance(e.slice.operand.value, int):
            return "%s[%r]" % (b, -e.slice.operand.value)
        return b + "[*]"
    if isinstance(e, ast.Call) and isinstance(e.func, ast.Attribute) and e.func.attr == "get" and e.args and isinstance(e.args[0], ast.Constant):
        b = access_path(e.func.value)
        return None if b is None else "%s[%r]" % (b, e.args[0].value)
    return None


class Provenance:
    """Set of source atoms an expression depends on through local def-use.

    Atoms: access paths rooted at a parameter / loop variable / free name
    ('piece.bitstart', "impl.fields['id']"), 'const:<repr>', 'call:<callee text>' for calls
    whose result is opaque (arguments are followed too).
    """

    def __init__(self, fn_node: ast.AST, stop_names: Set[str] = frozenset()):
        self.defs = Defs(fn_node)
        self.stop = set(stop_names)

    def of(self, e: ast.AST, _seen: Optional[Set[str]] = None) -> Set[str]:
        seen = set() if _seen is None else _seen
        out: Set[str] = set()
        self._go(e, out, seen)
        return out

    def _root_is_local_value(self, name: str) -> bool:
        if name in self.stop:
            return False
        bs = self.defs.values(name)
        if not bs:
            return False
        # loop variables and unpacked iter elements are roots (they denote "the element")
        return all(k in ("assign", "aug", "with") or k.startswith("assign-unpack") for k, _, _ in bs)

    def _go(self, e, out: Set[str], seen: Set[str]) -> None:
        if e is None:
            return
        if isinstance(e, ast.Constant):
            out.add("const:%r" % (e.value,))
            return
        p = access_path(e)
        if p is not None:
            root = p.split(".")[0].split("[")[0]
            if self._root_is_local_value(root):
                if root in seen:
                    return
                seen.add(root)
                rest = p[len(root):]
                for kind, v, st in self.defs.values(root):
                    if v is None:
                        continue
                    sub: Set[str] = set()
                    self._go(v, sub, seen)
                    for s in sub:
                        if rest and not s.startswith(("const:", "call:")):
                            out.add(s + rest)
                        else:
                            out.add(s)
                seen.discard(root)
            else:
                out.add(p)
            # subscripts with computed index also depend on the index
            for n in ast.walk(e):
                if isinstance(n, ast.Subscript) and not isinstance(n.slice, ast.Constant):
                    self._go(n.slice, out, seen)
            return
        if isinstance(e, ast.Call):
            callee = dotted(e.func) or norm(e.func, 60)
            if isinstance(e.func, ast.Attribute):
                # method call: depends on receiver and args
                rp = access_path(e.func.value)
                self._go(e.func.value, out, seen)
                out.add("call:." + e.func.attr)
            else:
                out.add("call:" + callee)
            for a in e.args:
                self._go(a.value if isinstance(a, ast.Starred) else a, out, seen)
            for k in e.keywords:
                self._go(k.value, out, seen)
            return
        if isinstance(e, ast.Lambda):
            self._go(e.body, out, seen)
            return
        if isinstance(e, (ast.ListComp, ast.SetComp, ast.GeneratorExp)):
            self._go(e.elt, out, seen)
            for g in e.generators:
                self._go(g.iter, out, seen)
                for c in g.ifs:
                    self._go(c, out, seen)
            return
        if isinstance(e, ast.DictComp):
            self._go(e.key, out, seen); self._go(e.value, out, seen)
            for g in e.generators:
                self._go(g.iter, out, seen)
            return
        for c in ast.iter_child_nodes(e):
            if isinstance(c, ast.expr):
                self._go(c, out, seen)


def resolve_local(e: Optional[ast.AST], defs: "Defs", depth: int = 0) -> Optional[ast.AST]:
    """follow a Name through its single local binding (x = <expr>) to the bound expression; anything else unchanged"""
    while isinstance(e, ast.Name) and depth < 6:
        vs = defs.values(e.id)
        if len(vs) == 1 and vs[0][0] == "assign" and vs[0][1] is not None and e.id not in defs.params:
            e = vs[0][1]
            depth += 1
        else:
            break
    return e


def deep_resolve(fn_node: ast.AST, e: ast.AST, max_depth: int = 5) -> ast.AST:
    """copy of `e` with every local that has exactly one binding replaced by what it is bound to (recursively);
    `q, r = divmod(a, 8)` binds q to `a // 8` and r to `a % 8`; `x, y = (e1, e2)` element-wise."""
    import copy as _copy
    defs = Defs(fn_node)

    class T(ast.NodeTransformer):
        depth = 0

        def visit_Name(self, n):
            if not isinstance(n.ctx, ast.Load) or self.depth >= max_depth or n.id in defs.params:
                return n
            vs = defs.values(n.id)
            if len(vs) != 1 or vs[0][1] is None:
                return n
            kind, v, st = vs[0]
            new = None
            if kind == "assign":
                new = _copy.deepcopy(v)
            elif kind.startswith("assign-unpack["):
                i = int(kind[len("assign-unpack["):-1])
                if isinstance(v, ast.Call) and dotted(v.func) == "divmod" and len(v.args) == 2 and i in (0, 1):
                    new = ast.BinOp(left=_copy.deepcopy(v.args[0]), op=ast.FloorDiv() if i == 0 else ast.Mod(), right=_copy.deepcopy(v.args[1]))
            if new is None:
                return n
            self.depth += 1
            r = self.visit(new)
            self.depth -= 1
            return ast.copy_location(r, n)

    return ast.fix_missing_locations(T().visit(_copy.deepcopy(e)))


LAZY_CALLS = {"filter", "map", "zip", "iter", "reversed", "enumerate", "itertools.chain", "chain", "itertools.islice", "islice", "itertools.takewhile", "takewhile", "itertools.dropwhile", "dropwhile"}


def lazy_reuse(fn_node: ast.AST) -> List[Tuple[str, ast.AST, str]]:
    """Locals bound (once) to a one-shot iterator - a generator expression or filter/map/zip/... - and then used
    more than once, or inside a loop / comprehension: after the first use the iterator is exhausted.
    -> [(name, binding expr, how it is re-used)]"""
    out = []
    defs = Defs(fn_node)
    pm = parent_map(fn_node)
    for name, bs in defs.binds.items():
        if len(bs) != 1 or bs[0][0] != "assign" or bs[0][1] is None:
            continue
        v = bs[0][1]
        lazy = isinstance(v, ast.GeneratorExp) or (isinstance(v, ast.Call) and (dotted(v.func) or "") in LAZY_CALLS)
        if not lazy:
            continue
        uses = [n for n in ast.walk(fn_node) if isinstance(n, ast.Name) and n.id == name and isinstance(n.ctx, ast.Load)]
        in_loop = []
        for u in uses:
            cur = u
            while id(cur) in pm:
                par = pm[id(cur)]
                if isinstance(par, (ast.For, ast.While)) and any(cur is b or any(cur is x for x in ast.walk(b)) for b in par.body):
                    in_loop.append(u)
                    break
                if isinstance(par, (ast.ListComp, ast.SetComp, ast.DictComp, ast.GeneratorExp)) and not any(cur is g.iter for g in par.generators[:1]):
                    in_loop.append(u)
                    break
                cur = par
        if in_loop:
            out.append((name, v, "used inside a loop (e.g. `x in %s` on every iteration)" % name))
        elif len(uses) > 1:
            out.append((name, v, "used %d times" % len(uses)))
    return out


def names_in(e: ast.AST) -> Set[str]:
    return {n.id for n in ast.walk(e) if isinstance(n, ast.Name)}


def call_name(c: ast.Call) -> str:
    if isinstance(c.func, ast.Attribute):
        return c.func.attr
    if isinstance(c.func, ast.Name):
        return c.func.id
    return ""


def stores_in(fn_node: ast.AST) -> List[Tuple[str, ast.AST, ast.AST]]:
    """Mutations in a function: (kind, target-expr, stmt-or-call).
    kinds: 'attr-store' (x.a = ..), 'sub-store' (x[k] = ..), 'aug' (x.a += ..  / x += ..),
    'mutcall' (x.append(...)), 'del'."""
    out = []
    for n in walk_local(fn_node):
        if isinstance(n, ast.Assign):
            for t in n.targets:
                for tt in (t.elts if isinstance(t, (ast.Tuple, ast.List)) else [t]):
                    if isinstance(tt, ast.Attribute):
                        out.append(("attr-store", tt, n))
                    elif isinstance(tt, ast.Subscript):
                        out.append(("sub-store", tt, n))
        elif isinstance(n, ast.AnnAssign):
            if isinstance(n.target, ast.Attribute) and n.value is not None:
                out.append(("attr-store", n.target, n))
            elif isinstance(n.target, ast.Subscript) and n.value is not None:
                out.append(("sub-store", n.target, n))
        elif isinstance(n, ast.AugAssign):
            out.append(("aug", n.target, n))
        elif isinstance(n, ast.Delete):
            for t in n.targets:
                out.append(("del", t, n))
        elif isinstance(n, ast.Call) and isinstance(n.func, ast.Attribute) and n.func.attr in MUTATING_METHODS:
            out.append(("mutcall", n.func.value, n))
    return out


def is_terminating(stmts: List[ast.stmt]) -> bool:
    if not stmts:
        return False
    last = stmts[-1]
    if isinstance(last, (ast.Return, ast.Raise)):
        return True
    if isinstance(last, ast.If) and last.orelse:
        return is_terminating(last.body) and is_terminating(last.orelse)
    return False


def parent_map(root: ast.AST) -> Dict[int, ast.AST]:
    pm: Dict[int, ast.AST] = {}
    for n in ast.walk(root):
        for c in ast.iter_child_nodes(n):
            pm[id(c)] = n
    return pm


def shared_default_aliasing(fn_node: ast.AST) -> List[Tuple[str, ast.AST, ast.AST]]:
    """Containers whose slots all hold ONE mutable object - `dict.fromkeys(keys, [])`, `[[]] * n` - and are then
    changed through a slot (`d[k].append(x)`, `d[k] += ...`, `d[k][j] = ...`): the change shows under every key.
    -> [(name, creating expr, mutating stmt)]"""
    def mutable(e):
        return isinstance(e, (ast.List, ast.Dict, ast.Set)) or (isinstance(e, ast.Call) and dotted(e.func) in ("list", "dict", "set", "bytearray", "collections.defaultdict", "defaultdict"))
    made = {}
    for n in walk_local(fn_node):
        v = n.value if isinstance(n, (ast.Assign, ast.AnnAssign)) else None
        if v is None:
            continue
        tg = n.targets[0] if isinstance(n, ast.Assign) else n.target
        if not isinstance(tg, ast.Name):
            continue
        if isinstance(v, ast.Call) and dotted(v.func) in ("dict.fromkeys", "OrderedDict.fromkeys", "collections.OrderedDict.fromkeys") and len(v.args) == 2 and mutable(v.args[1]):
            made[tg.id] = v
        elif isinstance(v, ast.BinOp) and isinstance(v.op, ast.Mult):
            for a, b in ((v.left, v.right), (v.right, v.left)):
                if isinstance(a, ast.List) and len(a.elts) == 1 and mutable(a.elts[0]) and not (isinstance(b, ast.Constant) and b.value in (0, 1)):
                    made[tg.id] = v
    out = []
    if not made:
        return out
    for kind, tgt, st in stores_in(fn_node):
        e = tgt
        if kind == "mutcall" or kind == "aug":
            if isinstance(e, ast.Subscript) and isinstance(e.value, ast.Name) and e.value.id in made:
                out.append((e.value.id, made[e.value.id], st))
        elif kind == "sub-store":
            inner = tgt.value
            if isinstance(inner, ast.Subscript) and isinstance(inner.value, ast.Name) and inner.value.id in made:
                out.append((inner.value.id, made[inner.value.id], st))
    return out


def method_objects_tested(eng, f) -> List[Tuple[ast.AST, str, str]]:
    """`if x.m and ...` / `not x.m` / `a if x.m else b` where m is a METHOD (not a property) of the repository class x is
    typed as: the bound method object is always true - the call parentheses are missing. -> [(test node, receiver class, method)]"""
    prog = eng.prog
    ft = eng.T.fn(f)
    out = []

    def operands(t):
        if isinstance(t, ast.BoolOp):
            for v in t.values:
                yield from operands(v)
        elif isinstance(t, ast.UnaryOp) and isinstance(t.op, ast.Not):
            yield from operands(t.operand)
        else:
            yield t
    tests = []
    for n in walk_local(f.node):
        if isinstance(n, (ast.If, ast.IfExp, ast.While)):
            tests.append(n.test)
        elif isinstance(n, ast.Assert):
            tests.append(n.test)
        elif isinstance(n, ast.comprehension):
            tests += n.ifs
    from .types_lite import members
    for t in tests:
        for o in operands(t):
            if not isinstance(o, ast.Attribute):
                continue
            rt = ft.of(o.value)
            for u in members(rt):
                if u[0] == "inst" and u[1] in prog.classes:
                    m = prog.find_method(prog.classes[u[1]], o.attr)
                    if m is not None and not any((dotted(d) or "").split(".")[-1] in ("property", "cached_property") for d in m.node.decorator_list):
                        out.append((t, prog.classes[u[1]].name, o.attr))
    return out


def groupby_unsorted(fn_node: ast.AST) -> List[ast.Call]:
    """calls of itertools.groupby whose input is not visibly sorted (sorted(...) directly, or a local bound only to sorted(...)):
    groupby groups ADJACENT equal keys only, so a key that re-appears later starts a second group"""
    out = []
    defs = None
    for n in ast.walk(fn_node):
        if isinstance(n, ast.Call) and (dotted(n.func) or "").split(".")[-1] == "groupby" and n.args:
            a0 = n.args[0]
            srt = isinstance(a0, ast.Call) and dotted(a0.func) == "sorted"
            if isinstance(a0, ast.Name):
                defs = defs or Defs(fn_node)
                vs_ = [v for k, v, st in defs.values(a0.id) if v is not None]
                srt = bool(vs_) and all(isinstance(v, ast.Call) and dotted(v.func) == "sorted" for v in vs_)
            if not srt:
                out.append(n)
    return out


def _pair_key(target: ast.AST) -> Optional[str]:
    if isinstance(target, (ast.Tuple, ast.List)) and target.elts and isinstance(target.elts[0], ast.Name):
        return target.elts[0].id
    return None


def keyed_pairs_use(eng, f, call: ast.Call, depth: int = 2) -> Tuple[str, str]:
    """what happens to the (key, group) pairs produced by `call` (an iterable of pairs with possibly REPEATED keys):
    'overwrite' - they land in a mapping where a later pair replaces an earlier one with the same key (dict(...), {k: v for ...},
                  d[k] = v);  'merge' - pairs with the same key are accumulated (setdefault/append/extend/+=);  'unknown'"""
    pm = parent_map(f.node)
    par = pm.get(id(call))
    # dict(pairs)
    if isinstance(par, ast.Call) and dotted(par.func) == "dict" and par.args and par.args[0] is call:
        return "overwrite", "dict(%s)" % ast.unparse(call)[:50]
    if isinstance(par, ast.Call) and isinstance(par.func, ast.Attribute) and par.func.attr == "update" and par.args and par.args[0] is call:
        return "overwrite", ast.unparse(par)[:70]
    if isinstance(par, ast.comprehension) and par.iter is call:
        comp = pm.get(id(par))
        k = _pair_key(par.target)
        if isinstance(comp, ast.DictComp) and k and isinstance(comp.key, ast.Name) and comp.key.id == k:
            return "overwrite", ast.unparse(comp)[:70]
        if isinstance(comp, (ast.GeneratorExp, ast.ListComp)) and k and isinstance(comp.elt, ast.Tuple) and comp.elt.elts and isinstance(comp.elt.elts[0], ast.Name) and comp.elt.elts[0].id == k:
            cp = pm.get(id(comp))
            if isinstance(cp, ast.Call) and dotted(cp.func) == "dict":
                return "overwrite", ast.unparse(cp)[:70]
            if isinstance(cp, ast.Call) and isinstance(cp.func, ast.Attribute) and cp.func.attr == "update" and cp.args and cp.args[0] is comp:
                return "overwrite", ast.unparse(cp)[:70]
        return "unknown", "comprehension"
    if isinstance(par, (ast.For, ast.AsyncFor)) and par.iter is call:
        k = _pair_key(par.target)
        if not k:
            return "unknown", "loop target is not a (key, group) pair"
        verdicts = []
        for st in par.body:
            for n in ast.walk(st):
                if isinstance(n, ast.Assign):
                    for t in n.targets:
                        if isinstance(t, ast.Subscript) and isinstance(t.slice, ast.Name) and t.slice.id == k:
                            verdicts.append(("overwrite", ast.unparse(n)[:70]))
                elif isinstance(n, ast.Call) and isinstance(n.func, ast.Attribute) and n.func.attr in ("extend", "append", "update", "add"):
                    recv = n.func.value
                    if isinstance(recv, ast.Call) and isinstance(recv.func, ast.Attribute) and recv.func.attr == "setdefault" and recv.args and isinstance(recv.args[0], ast.Name) and recv.args[0].id == k:
                        verdicts.append(("merge", ast.unparse(n)[:70]))
                    elif isinstance(recv, ast.Subscript) and isinstance(recv.slice, ast.Name) and recv.slice.id == k:
                        verdicts.append(("merge", ast.unparse(n)[:70]))
                elif isinstance(n, ast.AugAssign) and isinstance(n.target, ast.Subscript) and isinstance(n.target.slice, ast.Name) and n.target.slice.id == k:
                    verdicts.append(("merge", ast.unparse(n)[:70]))
                elif isinstance(n, (ast.Yield,)) and n.value is not None and depth > 0:
                    v = n.value
                    if isinstance(v, ast.Tuple) and v.elts and isinstance(v.elts[0], ast.Name) and v.elts[0].id == k:
                        # the enclosing generator hands the pairs on: look at what its callers do with them
                        sub = []
                        for cs in eng.cg.callers_of(f.qual):
                            sub.append(keyed_pairs_use(eng, cs.caller, cs.node, depth - 1))
                        if not sub:
                            verdicts.append(("unknown", "generator of pairs without a resolved caller"))
                        verdicts += sub
        for v in verdicts:
            if v[0] == "overwrite":
                return v
        if verdicts and all(v[0] == "merge" for v in verdicts):
            return verdicts[0]
        return "unknown", "pairs are not stored by key here"
    return "unknown", "use of the pairs not recognised"


def head_reads_in_descent(fn_node: ast.AST) -> List[Tuple[ast.While, ast.AST, str]]:
    """`c = X.a; acc = X.f; while ...: acc op= <X.f>; c = c.a` - a loop that walks down a chain from X through attribute `a`
    but accumulates, at every level, the attribute `f` of the HEAD X instead of the level it is at (the cursor): every level
    contributes the head's value.  -> [(loop, offending expression, text)]"""
    out = []
    for w in ast.walk(fn_node):
        if not isinstance(w, ast.While):
            continue
        steps = {}
        for st in w.body:
            if isinstance(st, ast.Assign) and len(st.targets) == 1 and isinstance(st.targets[0], ast.Name) and isinstance(st.value, ast.Attribute) and isinstance(st.value.value, ast.Name) and st.value.value.id == st.targets[0].id:
                steps[st.targets[0].id] = st.value.attr
        if len(steps) != 1:
            continue
        cur, a = next(iter(steps.items()))
        # where the cursor starts: cur = X.a before the loop
        heads = set()
        for st in ast.walk(fn_node):
            if isinstance(st, ast.Assign) and len(st.targets) == 1 and isinstance(st.targets[0], ast.Name) and st.targets[0].id == cur and isinstance(st.value, ast.Attribute) and st.value.attr == a and isinstance(st.value.value, ast.Name) and st.value.value.id != cur:
                heads.add(st.value.value.id)
        if len(heads) != 1:
            continue
        head = next(iter(heads))
        for st in w.body:
            val = None
            if isinstance(st, ast.AugAssign) and isinstance(st.target, ast.Name):
                val = st.value
            elif isinstance(st, ast.Assign) and len(st.targets) == 1 and isinstance(st.targets[0], ast.Name) and isinstance(st.value, ast.BinOp) and any(isinstance(x, ast.Name) and x.id == st.targets[0].id for x in ast.walk(st.value)):
                val = st.value
            if val is None:
                continue
            names = {x.id for x in ast.walk(val) if isinstance(x, ast.Name)}
            reads_head = [x for x in ast.walk(val) if isinstance(x, ast.Attribute) and isinstance(x.value, ast.Name) and x.value.id == head]
            if reads_head and cur not in names:
                out.append((w, st, ast.unparse(st)))
    return out


def _simple_assigns(st: ast.stmt) -> List[Tuple[str, ast.AST]]:
    """(name, value) pairs of `a = e` and of element-wise tuple assignments `a, b = e1, e2`"""
    out = []
    if isinstance(st, ast.Assign) and len(st.targets) == 1:
        t, v = st.targets[0], st.value
        if isinstance(t, ast.Name):
            out.append((t.id, v))
        elif isinstance(t, (ast.Tuple, ast.List)) and isinstance(v, (ast.Tuple, ast.List)) and len(t.elts) == len(v.elts):
            for a, b in zip(t.elts, v.elts):
                if isinstance(a, ast.Name):
                    out.append((a.id, b))
    return out


def overwrites_in_descent(fn_node: ast.AST) -> List[Tuple[ast.While, ast.stmt, str]]:
    """`n = 1; while ...: n = c.f; c = c.a` ... `n * x`: a loop that walks down a chain and is meant to accumulate a size over
    the levels (the accumulator starts at the neutral element 1 / 0 and is used in arithmetic afterwards) but REPLACES it at
    every level: only the innermost level counts"""
    out = []
    body = getattr(fn_node, "body", [])
    for w in ast.walk(fn_node):
        if not isinstance(w, ast.While):
            continue
        asg = [(n, v, st) for st in w.body for n, v in _simple_assigns(st)]
        steps = {n: v.attr for n, v, st in asg if isinstance(v, ast.Attribute) and isinstance(v.value, ast.Name) and v.value.id == n}
        if len(steps) != 1:
            continue
        cur = next(iter(steps))
        for n, v, st in asg:
            if n == cur:
                continue
            if not (isinstance(v, ast.Attribute) and isinstance(v.value, ast.Name) and v.value.id == cur):
                continue
            # neutral initialisation before the loop, arithmetic use somewhere outside the loop
            inits = [x for x in ast.walk(fn_node) if isinstance(x, ast.Assign) and any(isinstance(t, ast.Name) and t.id == n for t in x.targets) and isinstance(x.value, ast.Constant) and x.value.value in (0, 1) and not any(x is y for y in ast.walk(w))]
            inside = {id(y) for y in ast.walk(w)}
            arith = [x for x in ast.walk(fn_node) if isinstance(x, ast.BinOp) and isinstance(x.op, (ast.Mult, ast.Add)) and id(x) not in inside and any(isinstance(y, ast.Name) and y.id == n for y in (x.left, x.right))]
            if inits and arith:
                out.append((w, st, ast.unparse(st)))
    return out
