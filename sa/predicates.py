"""Error-condition extraction for small predicate functions (verifier checks).

A check function is turned into the list of its *error paths*: each path is a list of
quantifier bindings and literals (normalised atoms with a sign) under which the function
returns an error value.  Local single assignments are substituted away, comprehension
variables are alpha-renamed, so renaming / reordering / helper variables do not change the
result.  Anything outside the recognised statement forms yields Undecided.
"""

from __future__ import annotations

import ast
import copy
from typing import Dict, List, Optional, Tuple

from .front_py import norm, dotted


class Undecided(Exception):
    pass


class Subst(ast.NodeTransformer):
    def __init__(self, env: Dict[str, ast.AST]):
        self.env = env
        self.shadow: List[set] = []

    def visit_Name(self, n: ast.Name):
        if isinstance(n.ctx, ast.Load) and n.id in self.env and not any(n.id in s for s in self.shadow):
            return copy.deepcopy(self.env[n.id])
        return n

    def _comp(self, n):
        names = set()
        for g in n.generators:
            for x in ast.walk(g.target):
                if isinstance(x, ast.Name):
                    names.add(x.id)
        # iter of first generator is evaluated outside
        n.generators[0].iter = self.visit(n.generators[0].iter)
        self.shadow.append(names)
        for i, g in enumerate(n.generators):
            if i:
                g.iter = self.visit(g.iter)
            g.ifs = [self.visit(c) for c in g.ifs]
        if isinstance(n, ast.DictComp):
            n.key = self.visit(n.key)
            n.value = self.visit(n.value)
        else:
            n.elt = self.visit(n.elt)
        self.shadow.pop()
        return n

    visit_ListComp = visit_SetComp = visit_GeneratorExp = visit_DictComp = _comp

    def visit_Lambda(self, n):
        names = {a.arg for a in n.args.args}
        self.shadow.append(names)
        n.body = self.visit(n.body)
        self.shadow.pop()
        return n


class Alpha(ast.NodeTransformer):
    """Rename comprehension / lambda variables to _1, _2 ... in order of appearance."""

    def __init__(self):
        self.n = 0
        self.stack: List[Dict[str, str]] = []

    def visit_Name(self, n):
        for m in reversed(self.stack):
            if n.id in m:
                return ast.copy_location(ast.Name(id=m[n.id], ctx=n.ctx), n)
        return n

    def _comp(self, n):
        n.generators[0].iter = self.visit(n.generators[0].iter)
        m: Dict[str, str] = {}
        for g in n.generators:
            for x in ast.walk(g.target):
                if isinstance(x, ast.Name):
                    self.n += 1
                    m[x.id] = "_%d" % self.n if self.n > 1 else "_"
        self.stack.append(m)
        for i, g in enumerate(n.generators):
            g.target = self.visit(g.target)
            if i:
                g.iter = self.visit(g.iter)
            g.ifs = [self.visit(c) for c in g.ifs]
        if isinstance(n, ast.DictComp):
            n.key = self.visit(n.key); n.value = self.visit(n.value)
        else:
            n.elt = self.visit(n.elt)
        self.stack.pop()
        self.n -= len(m)
        return n

    visit_ListComp = visit_SetComp = visit_GeneratorExp = visit_DictComp = _comp


def canon(e: ast.AST) -> str:
    e = Alpha().visit(copy.deepcopy(e))
    ast.fix_missing_locations(e)
    s = norm(e, 400)
    return s.replace('"', "'")


Literal = Tuple[bool, tuple]  # (positive?, atom)


def atom_of(e: ast.AST) -> Tuple[bool, tuple]:
    """Normalise a boolean expression that is not and/or/not into (sign, atom)."""
    # X.count(K) <op> n
    if isinstance(e, ast.Compare) and len(e.ops) == 1:
        l, op, r = e.left, e.ops[0], e.comparators[0]
        if isinstance(l, ast.Call) and isinstance(l.func, ast.Attribute) and l.func.attr == "count" and len(l.args) == 1 and isinstance(r, ast.Constant) and isinstance(r.value, int):
            X, K = canon(l.func.value), canon(l.args[0])
            # decide on the ordering domain {0, 1, >=2}
            truth = tuple(cmp_int(c, op, r.value) for c in (0, 1, 2, 3))
            if truth == (False, False, True, True):
                return True, ("dup", X, K)
            if truth == (True, True, False, False):
                return False, ("dup", X, K)
            return True, ("count-cmp", X, K, "%s %d" % (type(op).__name__, r.value))
        if isinstance(l, ast.Call) and dotted(l.func) == "len" and len(l.args) == 1 and isinstance(r, ast.Constant) and isinstance(r.value, int):
            X = canon(l.args[0])
            truth = tuple(cmp_int(c, op, r.value) for c in (0, 1, 2))
            if truth == (True, False, False):
                return True, ("empty", X)
            if truth == (False, True, True):
                return False, ("empty", X)
            return True, ("len-cmp", X, "%s %d" % (type(op).__name__, r.value))
        if isinstance(op, (ast.NotIn, ast.In)):
            return isinstance(op, ast.NotIn), ("notin", canon(l), canon(r))
        if isinstance(op, (ast.Is, ast.IsNot)) and isinstance(r, ast.Constant) and r.value is None:
            return isinstance(op, ast.Is), ("isnone", canon(l))
        if isinstance(op, (ast.Gt, ast.GtE, ast.Lt, ast.LtE)) and isinstance(r, ast.Constant) and isinstance(r.value, (int, float)):
            v = r.value
            if isinstance(op, ast.Gt):
                return True, ("gt", canon(l), v)
            if isinstance(op, ast.GtE):
                return True, ("gt", canon(l), v - 1) if isinstance(v, int) else (True, ("ge", canon(l), v))
            if isinstance(op, ast.LtE):
                return False, ("gt", canon(l), v)
            if isinstance(op, ast.Lt):
                return False, ("gt", canon(l), v - 1) if isinstance(v, int) else (False, ("ge", canon(l), v))
        if isinstance(op, (ast.Eq, ast.NotEq)):
            a, b = canon(l), canon(r)
            if isinstance(l, ast.Constant) and not isinstance(r, ast.Constant):
                a, b = b, a
            return isinstance(op, ast.Eq), ("eq", a, b)
    if isinstance(e, ast.Call) and isinstance(e.func, ast.Attribute) and not e.args:
        a = e.func.attr
        X = canon(e.func.value)
        if a in ("is_nothing", "is_err"):
            return True, ("nothing" if a == "is_nothing" else "iserr", X)
        if a in ("is_some", "is_ok"):
            return False, ("nothing" if a == "is_some" else "iserr", X)
    if isinstance(e, ast.Call) and dotted(e.func) == "isinstance":
        return True, ("isinstance", canon(e.args[0]), canon(e.args[1]))
    return True, ("truthy", canon(e))


def cmp_int(c: int, op, n: int) -> bool:
    return {ast.Gt: c > n, ast.GtE: c >= n, ast.Lt: c < n, ast.LtE: c <= n, ast.Eq: c == n, ast.NotEq: c != n}[type(op)]


class Path:
    def __init__(self, binds=None, lits=None):
        self.binds: List[Tuple[str, str]] = list(binds or [])  # (var, canonical iterable)
        self.lits: List[Literal] = list(lits or [])

    def plus(self, lit: Literal) -> "Path":
        return Path(self.binds, self.lits + [lit])

    def bind(self, var: str, it: str) -> "Path":
        return Path(self.binds + [(var, it)], self.lits)

    def describe(self) -> str:
        b = "".join("exists %s in %s: " % x for x in self.binds)
        return b + " and ".join(("" if s else "not ") + fmt_atom(a) for s, a in self.lits)


def fmt_atom(a: tuple) -> str:
    return "%s(%s)" % (a[0], ", ".join(str(x) for x in a[1:]))


def dnf(e: ast.AST, positive: bool) -> List[List[Literal]]:
    """Boolean expression -> list of conjunctions of literals."""
    if isinstance(e, ast.UnaryOp) and isinstance(e.op, ast.Not):
        return dnf(e.operand, not positive)
    if isinstance(e, ast.BoolOp):
        is_and = isinstance(e.op, ast.And) == positive
        parts = [dnf(v, positive) for v in e.values]
        if is_and:
            out = [[]]
            for p in parts:
                out = [a + b for a in out for b in p]
            return out
        return [c for p in parts for c in p]
    s, a = atom_of(e)
    return [[(s == positive, a)]]


class Extractor:
    """Error paths of one check function."""

    def __init__(self, fn: ast.FunctionDef, is_error_call, is_ok_call, rename: Dict[str, str]):
        self.fn = fn
        self.is_error = is_error_call
        self.is_ok = is_ok_call
        self.rename = rename  # param name -> canonical (NODE / FCP / SELF)
        self.nloop = 0
        self.messages: List[str] = []
        self.collect = None  # when a list: every return is recorded as (Path, substituted value)

    def run_returns(self):
        """All returns of the function: [(Path, substituted return expression or None)]."""
        self.collect = []
        env: Dict[str, ast.AST] = {k: ast.Name(id=v, ctx=ast.Load()) for k, v in self.rename.items()}
        self.block(self.fn.body, env, [Path()])
        return self.collect

    def run(self) -> List[Path]:
        env: Dict[str, ast.AST] = {k: ast.Name(id=v, ctx=ast.Load()) for k, v in self.rename.items()}
        paths, falls = self.block(self.fn.body, env, [Path()])
        return paths

    def sub(self, e: ast.AST, env) -> ast.AST:
        e2 = Subst(env).visit(copy.deepcopy(e))
        ast.fix_missing_locations(e2)
        return e2

    def block(self, stmts, env, incoming: List[Path]):
        """-> (error paths, fall-through paths)"""
        errs: List[Path] = []
        cur = incoming
        for st in stmts:
            if not cur:
                break
            e, cur = self.stmt(st, env, cur)
            errs += e
        return errs, cur

    def stmt(self, st, env, cur: List[Path]):
        if isinstance(st, ast.Expr) and isinstance(st.value, ast.Constant):
            return [], cur  # docstring
        if isinstance(st, ast.Pass):
            return [], cur
        if isinstance(st, (ast.Assign, ast.AnnAssign)):
            tgt = st.targets[0] if isinstance(st, ast.Assign) else st.target
            if isinstance(st, ast.Assign) and len(st.targets) != 1:
                raise Undecided("chained assignment")
            val = self.sub(st.value, env)
            if isinstance(tgt, ast.Name):
                env[tgt.id] = val
                return [], cur
            if isinstance(tgt, (ast.Tuple, ast.List)) and all(isinstance(x, ast.Name) for x in tgt.elts):
                for i, x in enumerate(tgt.elts):
                    if isinstance(val, (ast.Tuple, ast.List)) and len(val.elts) == len(tgt.elts):
                        env[x.id] = val.elts[i]
                    else:
                        env[x.id] = ast.Subscript(value=copy.deepcopy(val), slice=ast.Constant(value=i), ctx=ast.Load())
                return [], cur
            raise Undecided("store to %s" % norm(tgt, 40))
        if isinstance(st, ast.Return) and self.collect is not None:
            v = self.sub(st.value, env) if st.value is not None else None
            for p in cur:
                self.collect.append((p, v))
            return [], []
        if isinstance(st, ast.Expr) and self.collect is not None:
            return [], cur  # expression statements (calls for effect) are ignored when collecting returns
        if isinstance(st, ast.Return):
            v = st.value
            if v is not None and self.is_error(v):
                if isinstance(v, ast.Call) and v.args:
                    self.messages.append(norm(v.args[0], 80))
                return list(cur), []
            if v is not None and self.is_ok(v):
                return [], []
            raise Undecided("return of %s" % norm(v, 50) if v is not None else "bare return")
        if isinstance(st, ast.If):
            test = self.sub(st.test, env)
            pos = dnf(test, True)
            neg = dnf(test, False)
            t_in = [Path(p.binds, p.lits + c) for p in cur for c in pos]
            f_in = [Path(p.binds, p.lits + c) for p in cur for c in neg]
            env1, env2 = dict(env), dict(env)
            e1, o1 = self.block(st.body, env1, t_in)
            e2, o2 = self.block(st.orelse, env2, f_in) if st.orelse else ([], f_in)
            if not o1 and o2:
                env.clear(); env.update(env2)
            elif not o2 and o1:
                env.clear(); env.update(env1)
            else:
                for k in set(env1) | set(env2):
                    x, y = env1.get(k), env2.get(k)
                    if x is not None and y is not None and ast.dump(x) == ast.dump(y):
                        env[k] = x
                    else:
                        env.pop(k, None)
            return e1 + e2, o1 + o2
        if isinstance(st, ast.For):
            if st.orelse:
                raise Undecided("for-else")
            it = canon(self.sub(st.iter, env))
            if not isinstance(st.target, ast.Name):
                raise Undecided("loop target %s" % norm(st.target, 30))
            self.nloop += 1
            var = "$%d" % self.nloop
            env2 = dict(env)
            env2[st.target.id] = ast.Name(id=var, ctx=ast.Load())
            body_in = [p.bind(var, it) for p in cur]
            errs, outs = self.loop_body(st.body, env2, body_in)
            # after the loop: continue with the pre-loop paths (no error found in the loop)
            return errs, cur
        if isinstance(st, ast.Continue):
            return [], []
        if isinstance(st, ast.Raise) and self.collect is not None:
            for p in cur:
                self.collect.append((p, ast.Name(id="RAISE", ctx=ast.Load())))
            return [], []
        if isinstance(st, ast.Try):
            # try: <assignments> except E: return <error>   ->  error path 'raises(<body>)'
            if st.finalbody or st.orelse:
                raise Undecided("try with else/finally")
            body_txt = "; ".join(canon(self.sub(b, env)) for b in st.body)
            errs: List[Path] = []
            for h in st.handlers:
                he, ho = self.block(h.body, dict(env), [p.plus((True, ("raises", body_txt, canon(h.type) if h.type is not None else "*"))) for p in cur])
                if ho:
                    raise Undecided("exception handler falls through")
                errs += he
            e2, cur2 = self.block(st.body, env, cur)
            return errs + e2, cur2
        raise Undecided("statement %s" % type(st).__name__)

    def loop_body(self, stmts, env, incoming):
        for n in ast.walk(ast.Module(body=stmts, type_ignores=[])):
            if isinstance(n, ast.Break):
                raise Undecided("break in loop")
        return self.block(stmts, env, incoming)
