"""Lark front end: the grammar is extracted with `ast` from the `Lark(...)` call in
fcp/parser.py and loaded by the checker's own lark (a parser library, used as data front
end); nothing of the repository is imported or executed."""

from __future__ import annotations

import ast
from typing import Dict, List, Optional, Tuple

import lark

from .front_py import AnalysisError, Program, dotted


class Grammar:
    def __init__(self, prog: Program, module: str = "fcp.parser"):
        if module not in prog.modules:
            raise AnalysisError("anchor vanished: module %s" % module)
        m = prog.modules[module]
        self.module = m
        self.call: Optional[ast.Call] = None
        self.var: Optional[str] = None
        for name, v in m.assigns.items():
            if isinstance(v, ast.Call):
                r = prog.resolve_expr_symbol(m, None, v.func)
                if r and r[0] == "ext" and r[1].split(".")[-1] == "Lark":
                    self.call, self.var = v, name
                elif r and r[0] == "ext" and r[1].split(".")[-2:] == ["Lark", "open"]:
                    self.call, self.var, self.from_file = v, name, True
        if self.call is None:
            raise AnalysisError("anchor vanished: no module-level Lark(...) call in %s" % module)
        if getattr(self, "from_file", False):
            # Lark.open("<file>", rel_to=__file__, ...): the grammar is a data file next to the module
            import os
            a0 = self.call.args[0] if self.call.args else None
            if isinstance(a0, ast.Name) and isinstance(m.assigns.get(a0.id), ast.Constant):
                a0 = m.assigns[a0.id]
            try:
                fn = ast.literal_eval(a0)
            except Exception:
                raise AnalysisError("grammar file argument of Lark.open(...) is not a literal")
            rel = next((k.value for k in self.call.keywords if k.arg == "rel_to"), None)
            base = os.path.dirname(m.path) if isinstance(rel, ast.Name) and rel.id == "__file__" else None
            if base is None:
                raise AnalysisError("Lark.open(...) without rel_to=__file__: grammar file location not decided")
            try:
                with open(os.path.join(base, fn), encoding="utf-8") as fh:
                    self.text = fh.read()
            except OSError as e:
                raise AnalysisError("grammar file does not load: %s" % e)
        else:
            try:
                self.text = ast.literal_eval(self.call.args[0])
            except Exception:
                raise AnalysisError("grammar argument of Lark(...) is not a literal")
        self.options = {}
        for k in self.call.keywords:
            if k.arg == "rel_to":
                continue
            try:
                self.options[k.arg] = ast.literal_eval(k.value)
            except Exception:
                pass
        try:
            self.lark = lark.Lark(self.text, **self.options)
        except Exception as e:
            raise AnalysisError("grammar does not load: %s" % e)
        self.rules: Dict[str, List[List[Tuple[str, bool, bool]]]] = {}
        for r in self.lark.rules:
            name = str(r.origin.name)
            exp = []
            for s in r.expansion:
                exp.append((str(s.name), s.is_term, bool(getattr(s, "filter_out", False))))
            self.rules.setdefault(name, []).append(exp)
        self.user_rules = sorted(n for n in self.rules if not n.startswith("_"))
        self.ignored = [t for t in getattr(self.lark, "ignore_tokens", [])]
        self.terminals = {t.name: t for t in self.lark.terminals}

    # child-kind language ------------------------------------------------------------
    def child_sequences(self, rule: str, bound: int = 2, limit: int = 400) -> List[Tuple[str, ...]]:
        """All sequences of kept children (rule names / kept terminal names) the rule can
        produce, with helper (star/plus) rules unrolled up to `bound` repetitions."""
        memo: Dict[Tuple[str, int], List[Tuple[str, ...]]] = {}

        def expand_helper(name: str, depth: int) -> List[Tuple[str, ...]]:
            key = (name, depth)
            if key in memo:
                return memo[key]
            memo[key] = []
            out = set()
            for exp in self.rules.get(name, []):
                seqs = [()]
                for sym, is_term, filt in exp:
                    if is_term:
                        if filt:
                            continue
                        seqs = [s + (sym,) for s in seqs]
                    elif sym.startswith("_") or sym.startswith("__"):
                        if sym == name:
                            if depth <= 0:
                                seqs = []
                                break
                            subs = expand_helper(sym, depth - 1)
                        else:
                            subs = expand_helper(sym, bound)
                        seqs = [s + t for s in seqs for t in subs][:limit]
                    else:
                        seqs = [s + (sym,) for s in seqs]
                out |= set(seqs)
            memo[key] = sorted(out)[:limit]
            return memo[key]

        out = set()
        for exp in self.rules.get(rule, []):
            seqs = [()]
            for sym, is_term, filt in exp:
                if is_term:
                    if filt:
                        continue
                    seqs = [s + (sym,) for s in seqs]
                elif sym.startswith("_"):
                    subs = expand_helper(sym, bound)
                    seqs = [s + t for s in seqs for t in subs][:limit]
                else:
                    seqs = [s + (sym,) for s in seqs]
            out |= set(seqs)
        return sorted(out)

    def parse(self, text: str):
        try:
            return self.lark.parse(text)
        except Exception as e:
            raise AnalysisError("schema text does not parse with the repository's grammar: %s" % e)


# ------------------------------------------------------------------------------------------
def type_shape(t) -> tuple:
    """lark Tree of rule `type` -> shape tuple: ('u',N) ('i',N) ('f32',) ('f64',) ('str',)
    ('array', T, n) ('dyn', T) ('opt', T) ('named', name)"""
    if isinstance(t, lark.Tree) and t.data == "type":
        t = t.children[0]
    d = t.data
    if d == "unsigned_type":
        return ("u", int("".join(str(c) for c in t.children)))
    if d == "signed_type":
        return ("i", int("".join(str(c) for c in t.children)))
    if d == "float_type":
        return ("f32",)
    if d == "double_type":
        return ("f64",)
    if d == "str_type":
        return ("str",)
    if d == "array_type":
        return ("array", type_shape(t.children[0]), int(float(str(t.children[1].children[0]))))
    if d == "dynamic_array_type":
        return ("dyn", type_shape(t.children[0]))
    if d == "optional_type":
        return ("opt", type_shape(t.children[0]))
    if d == "composed_type":
        return ("named", str(t.children[0].children[0]))
    raise AnalysisError("unknown type node %s" % d)


def mini_schema(g: Grammar, text: str) -> Dict[str, List[Tuple[str, int, tuple]]]:
    """struct name -> [(field name, id, type shape)] ; enums are returned under '#enums'."""
    tree = g.parse(text)
    out: Dict[str, List[Tuple[str, int, tuple]]] = {}
    for st in tree.find_data("struct"):
        name = str(st.children[0].children[0])
        fields = []
        for f in st.children[1:]:
            if isinstance(f, lark.Tree) and f.data == "struct_field":
                fname = str(f.children[0].children[0])
                fid = int(float(str(f.children[1].children[0])))
                fields.append((fname, fid, type_shape(f.children[2])))
        out[name] = fields
    return out


def shape_constructors(s: tuple) -> set:
    k = s[0]
    out = {k}
    for x in s[1:]:
        if isinstance(x, tuple):
            out |= shape_constructors(x)
    return out
