"""Jinja front end: template ASTs (never rendered), render-site binding, loop facts."""

from __future__ import annotations

import ast
import os
from dataclasses import dataclass, field
from typing import Dict, List, Optional, Tuple

import jinja2
from jinja2 import nodes as J

from .front_py import AnalysisError, FuncInfo, walk_local, dotted, norm


@dataclass
class JLoop:
    node: J.For
    target: str
    iter_src: str  # source-like rendering of the iterable
    base: J.Expr  # iterable with sort/list filters stripped
    sort_attr: Optional[str]  # attribute of a |sort(attribute=...) filter, if any
    sort_reverse: bool
    filters: List[str]
    body_text: str
    lineno: int
    parents: List[J.Node]


class JTemplate:
    def __init__(self, path: str, relpath: str):
        self.path = path
        self.relpath = relpath
        with open(path, encoding="utf-8") as f:
            self.source = f.read()
        self.lines = self.source.split("\n")
        env = jinja2.Environment()
        try:
            self.ast = env.parse(self.source)
        except jinja2.TemplateSyntaxError as e:
            raise AnalysisError("template does not parse: %s: %s" % (relpath, e))
        self.parent: Dict[int, J.Node] = {}
        for n in self._walk(self.ast):
            for c in n.iter_child_nodes():
                self.parent[id(c)] = n

    def _walk(self, n):
        yield n
        for c in n.iter_child_nodes():
            yield from self._walk(c)

    def walk(self):
        return self._walk(self.ast)

    def parents_of(self, n) -> List[J.Node]:
        out = []
        while id(n) in self.parent:
            n = self.parent[id(n)]
            out.append(n)
        return out

    # -- expressions ---------------------------------------------------------------
    @staticmethod
    def src(e) -> str:
        if isinstance(e, J.Name):
            return e.name
        if isinstance(e, J.Getattr):
            return JTemplate.src(e.node) + "." + e.attr
        if isinstance(e, J.Getitem):
            return "%s[%s]" % (JTemplate.src(e.node), JTemplate.src(e.arg))
        if isinstance(e, J.Const):
            return repr(e.value)
        if isinstance(e, J.Call):
            args = [JTemplate.src(a) for a in e.args] + ["%s=%s" % (k.key, JTemplate.src(k.value)) for k in e.kwargs]
            return "%s(%s)" % (JTemplate.src(e.node), ", ".join(args))
        if isinstance(e, J.Filter):
            args = [JTemplate.src(a) for a in e.args] + ["%s=%s" % (k.key, JTemplate.src(k.value)) for k in e.kwargs]
            return "%s | %s%s" % (JTemplate.src(e.node) if e.node is not None else "", e.name, "(%s)" % ", ".join(args) if args else "")
        if isinstance(e, J.Test):
            return "%s is %s" % (JTemplate.src(e.node), e.name)
        if isinstance(e, J.Not):
            return "not " + JTemplate.src(e.node)
        if isinstance(e, J.Compare):
            sym = {"eq": "==", "ne": "!=", "gt": ">", "gteq": ">=", "lt": "<", "lteq": "<=", "in": "in", "notin": "not in"}
            return JTemplate.src(e.expr) + "".join(" %s %s" % (sym.get(o.op, o.op), JTemplate.src(o.expr)) for o in e.ops)
        if isinstance(e, (J.And, J.Or)):
            return "(%s %s %s)" % (JTemplate.src(e.left), "and" if isinstance(e, J.And) else "or", JTemplate.src(e.right))
        if isinstance(e, J.CondExpr):
            return "(%s if %s else %s)" % (JTemplate.src(e.expr1), JTemplate.src(e.test), JTemplate.src(e.expr2) if e.expr2 is not None else "")
        if isinstance(e, J.BinExpr):
            return "(%s %s %s)" % (JTemplate.src(e.left), e.operator, JTemplate.src(e.right))
        if isinstance(e, J.Tuple):
            return "(" + ", ".join(JTemplate.src(x) for x in e.items) + ")"
        if isinstance(e, J.TemplateData):
            return repr(e.data)
        return type(e).__name__

    def body_text(self, stmts) -> str:
        out = []
        for st in stmts:
            for n in self._walk(st):
                if isinstance(n, J.TemplateData):
                    out.append(n.data)
                elif isinstance(n, J.Output):
                    pass
        return "".join(out)

    def text_before(self, n) -> str:
        """template data that precedes node n among its siblings (back to the previous control block)"""
        ps = self.parents_of(n)
        if not ps:
            return ""
        par = ps[0]
        for fld in ("body", "else_"):
            lst = getattr(par, fld, None)
            if isinstance(lst, list) and any(x is n for x in lst):
                i = next(k for k, x in enumerate(lst) if x is n)
                out = []
                for prev in reversed(lst[:i]):
                    if not isinstance(prev, J.Output):
                        break
                    out.insert(0, "".join(c.data if isinstance(c, J.TemplateData) else "{{}}" for c in prev.nodes))
                return "".join(out)
        return ""

    def output_sequence(self, stmts) -> List[Tuple[str, object]]:
        """Flattened ('data', str) / ('expr', node) sequence of a body (control flow ignored)."""
        out = []
        for st in stmts:
            for n in self._walk(st):
                if isinstance(n, J.Output):
                    for c in n.nodes:
                        if isinstance(c, J.TemplateData):
                            out.append(("data", c.data))
                        else:
                            out.append(("expr", c))
        return out

    def loops(self) -> List[JLoop]:
        out = []
        assigns = self.assigns()
        for n in self.walk():
            if isinstance(n, J.For):
                base = n.iter
                filters, sort_attr, rev = [], None, False
                hops = 0
                while isinstance(base, (J.Filter, J.Name)):
                    if isinstance(base, J.Name):
                        a = assigns.get(base.name, [])
                        if len(a) == 1 and hops < 4 and isinstance(a[0].node, (J.Filter, J.Getattr, J.Name)):
                            base = a[0].node  # {% set x = <expr> %}: follow the alias
                            hops += 1
                            continue
                        break
                    filters.append(base.name)
                    if base.name == "sort":
                        for k in base.kwargs:
                            if k.key == "attribute" and isinstance(k.value, J.Const):
                                sort_attr = k.value.value
                            if k.key == "reverse" and isinstance(k.value, J.Const) and k.value.value:
                                rev = True
                        if base.args and isinstance(base.args[0], J.Const) and base.args[0].value:
                            rev = True
                        if sort_attr is None:
                            sort_attr = "<value>"
                    if base.name == "reverse":
                        rev = not rev
                    base = base.node
                tgt = self.src(n.target)
                out.append(JLoop(n, tgt, self.src(n.iter), base, sort_attr, rev, filters, self.body_text(n.body), n.lineno, self.parents_of(n)))
        return out

    def assigns(self) -> Dict[str, List[J.Assign]]:
        out: Dict[str, List[J.Assign]] = {}
        for n in self.walk():
            if isinstance(n, J.Assign) and isinstance(n.target, J.Name):
                out.setdefault(n.target.name, []).append(n)
        return out

    def free_names(self) -> set:
        """Names loaded but never bound by for/set/macro in the template (approximation of
        jinja2.meta.find_undeclared_variables without needing filters registered)."""
        bound = set()
        loaded = set()
        for n in self.walk():
            if isinstance(n, J.Name):
                if n.ctx == "load":
                    loaded.add(n.name)
                else:
                    bound.add(n.name)
            elif isinstance(n, J.Macro):
                bound.add(n.name)  # {% macro name(...) %}
                for a in n.args:
                    bound.add(a.name)
            elif isinstance(n, J.Import):
                bound.add(n.target)  # {% import "x" as target %}
            elif isinstance(n, J.FromImport):
                for nm in n.names:
                    bound.add(nm[1] if isinstance(nm, tuple) else nm)  # {% from "x" import a as b %}
            elif isinstance(n, J.CallBlock):
                for a in n.args:
                    bound.add(a.name)
        return {x for x in loaded - bound if x not in ("loop", "range", "true", "false", "none", "True", "False", "None", "namespace", "dict", "lipsum", "cycler", "joiner")}

    def names_with_lines(self, names) -> List[Tuple[str, int]]:
        out = []
        for n in self.walk():
            if isinstance(n, J.Name) and n.ctx == "load" and n.name in names:
                out.append((n.name, n.lineno))
        return out


# ------------------------------------------------------------------------------------------
@dataclass
class RenderSite:
    template: str  # template file name as written in Python
    path: Optional[str]  # resolved path in the repo (relative), when found
    func: FuncInfo
    node: ast.AST
    bound: Dict[str, ast.AST] = field(default_factory=dict)  # name -> python expr
    bound_open: bool = False  # **kwargs / unknown dict merged in
    output_name: Optional[str] = None


class JinjaBinding:
    """Finds render sites in the plug-ins, binds template names to Python expressions,
    and records env.globals / env.filters installations."""

    def __init__(self, eng):
        self.eng = eng
        self.prog = eng.prog
        self.globals: Dict[str, str] = {}  # jinja global name -> python function qual
        self.filters: Dict[str, str] = {}
        self.sites: List[RenderSite] = []
        self.templates: Dict[str, JTemplate] = {}
        self._scan()

    def template(self, relpath: str) -> JTemplate:
        if relpath not in self.templates:
            p = os.path.join(self.eng.root, relpath)
            if not os.path.exists(p):
                raise AnalysisError("anchor vanished: template %s" % relpath)
            self.templates[relpath] = JTemplate(p, relpath)
        return self.templates[relpath]

    def _find_template_file(self, modfile: str, name: str) -> Optional[str]:
        d = os.path.dirname(os.path.join(self.eng.root, modfile))
        for cand in (os.path.join(d, name), os.path.join(d, "..", "templates", name), os.path.join(d, "templates", name)):
            if os.path.exists(cand):
                return os.path.relpath(os.path.normpath(cand), self.eng.root)
        return None

    def _scan(self) -> None:
        prog = self.prog
        for f in prog.functions.values():
            if not f.module.name.startswith("fcp_"):
                continue
            for n in walk_local(f.node):
                # env.globals["x"] = func / env.filters["x"] = func
                if isinstance(n, ast.Assign) and isinstance(n.targets[0], ast.Subscript):
                    t = n.targets[0]
                    if isinstance(t.value, ast.Attribute) and t.value.attr in ("globals", "filters") and isinstance(t.slice, ast.Constant):
                        r = prog.resolve_expr_symbol(f.module, f, n.value)
                        q = r[1] if r and r[0] == "func" else None
                        (self.globals if t.value.attr == "globals" else self.filters)[t.slice.value] = q
        # render sites, idiom 1: OutputBuilder.with_file(filename, template_name, {args})
        meta_keys: Dict[str, ast.AST] = {}
        for f in prog.functions.values():
            if not f.module.name.startswith("fcp_"):
                continue
            for n in walk_local(f.node):
                if isinstance(n, ast.Call) and isinstance(n.func, ast.Attribute) and n.func.attr == "with_file" and len(n.args) >= 2 and isinstance(n.args[1], ast.Constant):
                    tname = n.args[1].value
                    rs = RenderSite(tname, self._find_template_file(f.file, tname), f, n)
                    rs.output_name = norm(n.args[0])
                    if len(n.args) > 2:
                        if isinstance(n.args[2], ast.Dict):
                            for k, v in zip(n.args[2].keys, n.args[2].values):
                                if isinstance(k, ast.Constant):
                                    rs.bound[k.value] = v
                                else:
                                    rs.bound_open = True
                        else:
                            rs.bound_open = True
                    self.sites.append(rs)
                # metadata dict merged into every with_file render: OutputBuilder({...})
                # (the dict literal may be any argument of the constructor)
                if isinstance(n, ast.Call) and any(isinstance(a_, ast.Dict) for a_ in list(n.args) + [k_.value for k_ in n.keywords]) and isinstance(n.func, (ast.Name, ast.Attribute)):
                    r = prog.resolve_expr_symbol(f.module, f, n.func)
                    if r and r[0] == "class" and r[1] in prog.classes and "with_file" in prog.classes[r[1]].methods:
                        for a_ in list(n.args) + [k_.value for k_ in n.keywords]:
                            if not isinstance(a_, ast.Dict):
                                continue
                            for k, v in zip(a_.keys, a_.values):
                                if isinstance(k, ast.Constant):
                                    meta_keys[k.value] = v
        for rs in self.sites:
            for k, v in meta_keys.items():
                rs.bound.setdefault(k, v)
        self.metadata_keys = meta_keys
        # idiom 2: self.templates = {"k": env.get_template("file")}; self.templates["k"].render(kw=...)
        for ci in prog.classes.values():
            if not ci.module.name.startswith("fcp_"):
                continue
            tmap: Dict[str, str] = {}
            for m in ci.methods.values():
                for n in walk_local(m.node):
                    if isinstance(n, ast.Assign) and isinstance(n.value, ast.Dict) and norm(n.targets[0]) == "self.templates":
                        for k, v in zip(n.value.keys, n.value.values):
                            if isinstance(k, ast.Constant) and isinstance(v, ast.Call) and isinstance(v.func, ast.Attribute) and v.func.attr == "get_template" and v.args and isinstance(v.args[0], ast.Constant):
                                tmap[k.value] = v.args[0].value
            for m in ci.methods.values():
                for n in walk_local(m.node):
                    if isinstance(n, ast.Call) and isinstance(n.func, ast.Attribute) and n.func.attr == "render":
                        recv = n.func.value
                        tname = None
                        if isinstance(recv, ast.Subscript) and norm(recv.value) == "self.templates" and isinstance(recv.slice, ast.Constant):
                            tname = tmap.get(recv.slice.value)
                        elif isinstance(recv, ast.Call) and isinstance(recv.func, ast.Attribute) and recv.func.attr == "get_template" and recv.args and isinstance(recv.args[0], ast.Constant):
                            tname = recv.args[0].value
                        if tname is None:
                            continue
                        rs = RenderSite(tname, self._find_template_file(m.file, tname), m, n)
                        for k in n.keywords:
                            if k.arg is None:
                                rs.bound_open = True
                            else:
                                rs.bound[k.arg] = k.value
                        if n.args:
                            rs.bound_open = True
                        self.sites.append(rs)

    def sites_for(self, relpath: str) -> List[RenderSite]:
        return [s for s in self.sites if s.path == relpath]

    def global_func(self, name: str) -> Optional[FuncInfo]:
        q = self.globals.get(name)
        return self.prog.functions.get(q) if q else None
