"""Effect-grammar extraction for cursor programs (the Python codec).

An abstract interpreter inlines a handler from the dispatcher down to the word primitives of the
cursor class with abstract arguments and records the sequence of primitive transfers:

    ('W', width, role)          n-bit word at the cursor          role: data | len | flag
    ('loop', count, [body])     repetition                          count: int | ('len', src) | ('var', name)
                                                                    | ('size', typesrc) | ('fields', struct, order)
    ('if', cond, [body])        conditional presence                cond: ('some', src) | ('flag', name)
    ('rec', typesrc, datasrc)   dispatch on a non-constant type
    ('raise', text)             path ends in an exception

No repository code is executed; the only "evaluation" is constant folding of literals
(`int("u32"[1:])`, struct format sizes from a frozen table).
"""

from __future__ import annotations

import ast
from typing import Dict, List, Optional, Tuple

from .front_py import FuncInfo, Program, norm, dotted, walk_local


class Unsupported(Exception):
    pass


STRUCT_FMT = {"f": 4, "d": 8, "<f": 4, "<d": 8, "=f": 4, "=d": 8, "e": 2, "<e": 2}


# ---------------------------------------------------------------- abstract values
class V:
    src = "?"

    def __repr__(self):
        return "%s(%s)" % (type(self).__name__, self.src)


class TypeV(V):
    def __init__(self, cls: Optional[str], name: Optional[str], src: str):
        self.cls, self.name, self.src = cls, name, src


class IntV(V):
    def __init__(self, const: Optional[int], sym=None, src: str = "?"):
        self.const, self.sym, self.src = const, sym, src


class StrV(V):
    def __init__(self, const: Optional[str], src: str = "?"):
        self.const, self.src = const, src


class DataV(V):
    def __init__(self, src: str):
        self.src = src


class BytesV(V):
    def __init__(self, n, src: str = "?", fmt: Optional[str] = None):
        self.n, self.src, self.fmt = n, src, fmt  # n: int | ('var', name) | ('len', src)


class BufV(V):
    def __init__(self, cls: str):
        self.cls, self.src = cls, "buffer"


class FcpV(V):
    src = "fcp"


class ObjV(V):
    """an instance of a repository class that is not one of the modelled kinds (e.g. a per-call wrapper around the schema):
    its attributes are what its __init__ stored; its methods are interpreted"""

    def __init__(self, cls: str, src: str = "obj"):
        self.cls, self.src = cls, src
        self.fields: Dict[str, V] = {}


class StructV(V):
    def __init__(self, src):
        self.src = src


class EnumV(V):
    def __init__(self, src):
        self.src = src


class FieldsV(V):
    def __init__(self, struct_src, order):
        self.struct_src, self.order, self.src = struct_src, order, "fields(%s)" % struct_src


class FieldV(V):
    def __init__(self, src):
        self.src = src


class WordV(V):
    """result of a word read, bound to a variable later"""

    def __init__(self, eff_index: int, src="word"):
        self.eff_index, self.src = eff_index, src
        self.name = None


class BoolV(V):
    def __init__(self, cond, src="?"):
        self.cond, self.src = cond, src


class NoneV(V):
    src = "None"


class ListV(V):
    def __init__(self, src="[]"):
        self.src = src


class Unknown(V):
    def __init__(self, src="?"):
        self.src = src


class MaybeV(V):
    def __init__(self, inner: V):
        self.inner, self.src = inner, inner.src


TRANSFER_IN_BRANCH = True


def has_transfer(effs) -> bool:
    for e in effs:
        if e[0] in ("W", "B", "rec"):
            return True
        if e[0] in ("loop", "if") and has_transfer(e[2]):
            return True
    return False


# ---------------------------------------------------------------- interpreter
class Interp:
    def __init__(self, eng, module: str, buf_cls: str, word_prims: Dict[str, Tuple[str, int]], depth_limit: int = 12):
        """word_prims: method name -> (kind 'push'|'read', index of the bits parameter among call args)"""
        self.eng = eng
        self.prog: Program = eng.prog
        self.module = self.prog.modules[module]
        self.buf_cls = buf_cls
        self.word_prims = word_prims
        self.depth_limit = depth_limit
        self.notes: List[str] = []
        self.fmt_pairs: List[Tuple[str, str, object]] = []  # ('pack'|'unpack', fmt, nbytes)
        self.var_counter = 0
        self.dispatchers: set = set()  # quals of dispatcher functions: non-constant type -> ('rec', ...)

    # -- function call ---------------------------------------------------------------
    def call_function(self, f: FuncInfo, args: List[V], kwargs: Dict[str, V], effects: List, depth: int) -> V:
        if depth > self.depth_limit:
            raise Unsupported("inlining depth exceeded at %s" % f.qual)
        env: Dict[str, V] = {}
        ps = f.params
        for i, p in enumerate(ps):
            if i < len(args):
                env[p.arg] = args[i]
            elif p.arg in kwargs:
                env[p.arg] = kwargs[p.arg]
            else:
                env[p.arg] = Unknown(p.arg)
        self._ret: List[V] = []
        ret = self.block(f.node.body, env, effects, f, depth)
        return ret if ret is not None else NoneV()

    # -- statements ------------------------------------------------------------------
    def block(self, stmts, env, effects, f, depth) -> Optional[V]:
        """returns the returned value if the block definitely returns, else None"""
        for i, st in enumerate(stmts):
            if isinstance(st, ast.If) and not st.orelse and i + 1 < len(stmts):
                r = self.early_if(st, stmts[i + 1:], env, effects, f, depth)
                if r is not NotImplemented:
                    return r
            if isinstance(st, ast.If) and i + 1 < len(stmts) and any(isinstance(x, (ast.Assign, ast.AnnAssign)) for b_ in (st.body, st.orelse) for s_ in b_ for x in ast.walk(s_)):
                r = self.fork_if(st, stmts[i + 1:], env, effects, f, depth)
                if r is not NotImplemented:
                    return r
            r = self.stmt(st, env, effects, f, depth)
            if r is not None:
                return r
        return None

    def fork_if(self, st, rest, env, effects, f, depth):
        """a test on the class of a symbolic type whose branches bind locals (`if isinstance(t, A): n = ...; else: n = None`):
        what follows depends on which branch ran, so the rest of the block is interpreted once per branch (path split)"""
        mark = len(effects)
        c = self.cond(st.test, env, effects, f, depth)
        if not (isinstance(c, tuple) and c and c[0] == "isinstance") or getattr(self, "_forks", 0) > 6:
            del effects[mark:]
            return NotImplemented
        self._forks = getattr(self, "_forks", 0) + 1
        try:
            e1: List = []
            e2: List = []
            env1, env2 = dict(env), dict(env)
            r1 = self.block(list(st.body) + list(rest), env1, e1, f, depth)
            r2 = self.block(list(st.orelse) + list(rest), env2, e2, f, depth)
        finally:
            self._forks -= 1
        if e1:
            effects.append(("if", c, e1))
        if e2:
            effects.append(("if", ("not", c), e2))
        if r1 is not None and r2 is not None:
            return r1
        return Unknown("fork") if (r1 is not None or r2 is not None) else NoneV()

    def early_if(self, st, rest, env, effects, f, depth):
        """`if c: <transfers>; return ...` followed by more statements: the rest is the else branch.
        Only taken when the condition is not static and the branch transfers data and returns."""
        mark = len(effects)
        c = self.cond(st.test, env, effects, f, depth)
        if c is True or c is False or not TRANSFER_IN_BRANCH:
            del effects[mark:]
            return NotImplemented
        e1: List = []
        r1 = self.block(st.body, dict(env), e1, f, depth)
        if r1 is None or not has_transfer(e1) or isinstance(st.body[-1], ast.Raise):
            del effects[mark:]
            return NotImplemented
        e2: List = []
        r2 = self.block(rest, env, e2, f, depth)
        effects.append(("if", c, e1))
        if e2:
            effects.append(("if", ("not", c), e2))
        return r2 if r2 is not None else r1

    def stmt(self, st, env, effects, f, depth) -> Optional[V]:
        if isinstance(st, ast.Expr):
            if isinstance(st.value, ast.Constant):
                return None
            self.expr(st.value, env, effects, f, depth)
            return None
        if isinstance(st, (ast.Assign, ast.AnnAssign)):
            val = self.expr(st.value, env, effects, f, depth) if st.value is not None else Unknown()
            tgts = st.targets if isinstance(st, ast.Assign) else [st.target]
            for t in tgts:
                self.assign(t, val, env, effects, f, depth)
            return None
        if isinstance(st, ast.AugAssign):
            self.expr(st.value, env, effects, f, depth)
            return None
        if isinstance(st, ast.Return):
            v = self.expr(st.value, env, effects, f, depth) if st.value is not None else NoneV()
            return v
        if isinstance(st, ast.Raise):
            effects.append(("raise", norm(st.exc, 50) if st.exc is not None else ""))
            return Unknown("raise")
        if isinstance(st, ast.Pass):
            return None
        if isinstance(st, ast.If):
            c = self.cond(st.test, env, effects, f, depth)
            if c is True:
                return self.block(st.body, env, effects, f, depth)
            if c is False:
                return self.block(st.orelse, env, effects, f, depth)
            e1: List = []
            e2: List = []
            env1, env2 = dict(env), dict(env)
            r1 = self.block(st.body, env1, e1, f, depth)
            r2 = self.block(st.orelse, env2, e2, f, depth)
            if e1:
                effects.append(("if", c, e1))
            if e2:
                effects.append(("if", ("not", c), e2))
            for k in set(env1) | set(env2):
                if env1.get(k) is env2.get(k):
                    env[k] = env1[k]
                else:
                    env[k] = env1.get(k) or env2.get(k)
            if r1 is not None and r2 is not None:
                return r1
            if r1 is not None and not st.orelse:
                return None
            return None
        if isinstance(st, ast.For):
            self.loop(st.target, st.iter, st.body, env, effects, f, depth)
            return None
        if isinstance(st, ast.Assert):
            return None
        raise Unsupported("statement %s in %s" % (type(st).__name__, f.qual))

    def assign(self, t, val, env, effects, f, depth):
        if isinstance(t, ast.Name):
            if isinstance(val, WordV) and val.name is None:
                val.name = t.id
            if isinstance(val, BoolV) and isinstance(val.cond, tuple) and val.cond[0] == "flagword":
                pass
            env[t.id] = val
        elif isinstance(t, ast.Subscript):
            self.expr(t.value, env, effects, f, depth)
        elif isinstance(t, ast.Attribute):
            # e.g. buffer.bitaddr = 0 (cursor reset) - recorded
            base = self.expr(t.value, env, effects, f, depth)
            if isinstance(base, BufV):
                effects.append(("cursor-store", t.attr, norm(val.src if isinstance(val, V) else "?", 30)))
            elif isinstance(base, ObjV):
                base.fields[t.attr] = val
        elif isinstance(t, (ast.Tuple, ast.List)):
            for e in t.elts:
                self.assign(e, Unknown(), env, effects, f, depth)

    def loop(self, target, it, body, env, effects, f, depth, comp_elt=None):
        itv = self.expr(it, env, effects, f, depth)
        count = None
        elem: V = Unknown()
        if isinstance(itv, tuple) and itv[0] == "range":
            count = itv[1]
            elem = IntV(None, src="i")
        elif isinstance(itv, DataV):
            count = ("len", itv.src)
            elem = DataV("elem(%s)" % itv.src)
        elif isinstance(itv, BytesV):
            count = itv.n
            elem = IntV(None, src="byte")
        elif isinstance(itv, FieldsV):
            count = ("fields", itv.struct_src, itv.order)
            elem = FieldV("field")
        else:
            raise Unsupported("loop over %s in %s" % (norm(it, 40), f.qual))
        env2 = dict(env)
        if isinstance(target, ast.Name):
            env2[target.id] = elem
        else:
            for n in ast.walk(target):
                if isinstance(n, ast.Name):
                    env2[n.id] = Unknown(n.id)
        sub: List = []
        if comp_elt is not None:
            self.expr(comp_elt, env2, sub, f, depth)
        else:
            r = self.block(body, env2, sub, f, depth)
        effects.append(("loop", count, sub))

    # -- conditions ------------------------------------------------------------------
    def cond(self, test, env, effects, f, depth):
        """-> True / False (static) or a condition descriptor"""
        if isinstance(test, ast.Call) and dotted(test.func) == "isinstance" and len(test.args) == 2:
            v = self.expr(test.args[0], env, effects, f, depth)
            classes = test.args[1].elts if isinstance(test.args[1], ast.Tuple) else [test.args[1]]
            if not isinstance(v, TypeV):
                return ("expr", norm(test, 60))
            quals = []
            for c in classes:
                r = self.prog.resolve_expr_symbol(f.module, f, c)
                if not (r and r[0] == "class"):
                    raise Unsupported("isinstance against %s" % norm(c))
                quals.append(r[1])
            if isinstance(v, TypeV) and v.cls is not None:
                return any(self.prog.is_subclass(v.cls, q) for q in quals)
            if isinstance(v, TypeV):
                return ("isinstance", v.src, tuple(quals))
            raise Unsupported("isinstance on non-constant type %s" % norm(test.args[0]))
        if isinstance(test, ast.BoolOp):
            vals = [self.cond(x, env, effects, f, depth) for x in test.values]
            if isinstance(test.op, ast.Or):
                if any(v is True for v in vals):
                    return True
                if all(v is False for v in vals):
                    return False
            else:
                if any(v is False for v in vals):
                    return False
                if all(v is True for v in vals):
                    return True
            rest = [v for v in vals if v is not True and v is not False]
            if len(rest) == 1:
                return rest[0]
            return ("or" if isinstance(test.op, ast.Or) else "and", tuple(rest), norm(test, 60))
        if isinstance(test, ast.UnaryOp) and isinstance(test.op, ast.Not):
            c = self.cond(test.operand, env, effects, f, depth)
            if c is True:
                return False
            if c is False:
                return True
            return ("not", c)
        if isinstance(test, ast.Compare) and len(test.ops) == 1 and isinstance(test.ops[0], (ast.Is, ast.IsNot)) and isinstance(test.comparators[0], ast.Constant) and test.comparators[0].value is None and isinstance(test.left, ast.Name) and test.left.id in env:
            lv = env[test.left.id]
            isnone = True if isinstance(lv, NoneV) else (False if isinstance(lv, (IntV, StrV, WordV, BytesV, ListV, TypeV, BufV, ObjV, StructV, EnumV)) else None)
            if isnone is not None:
                return isnone if isinstance(test.ops[0], ast.Is) else (not isnone)
        v = self.expr(test, env, effects, f, depth)
        if isinstance(v, BoolV):
            return v.cond
        return ("expr", norm(test, 60))

    # -- expressions -----------------------------------------------------------------
    def expr(self, e, env, effects, f, depth):
        if e is None:
            return NoneV()
        if isinstance(e, ast.Constant):
            if isinstance(e.value, bool):
                return BoolV(e.value, str(e.value))
            if isinstance(e.value, int):
                return IntV(e.value, src=str(e.value))
            if isinstance(e.value, str):
                return StrV(e.value, repr(e.value))
            if e.value is None:
                return NoneV()
            return Unknown(repr(e.value))
        if isinstance(e, ast.Name):
            if e.id in env:
                return env[e.id]
            r = self.prog.resolve_name(f.module, f, e.id)
            if r and r[0] == "ext":
                return Unknown("ext:" + r[1])
            if r and r[0] in ("func", "class"):
                return Unknown("%s:%s" % (r[0], r[1]))
            return Unknown(e.id)
        if isinstance(e, ast.Attribute):
            b = self.expr(e.value, env, effects, f, depth)
            return self.attr(b, e.attr, e)
        if isinstance(e, ast.Compare):
            l = self.expr(e.left, env, effects, f, depth)
            rs = [self.expr(c, env, effects, f, depth) for c in e.comparators]
            op = e.ops[0]
            if isinstance(l, DataV) and isinstance(rs[0], NoneV) and isinstance(op, (ast.Is, ast.IsNot)):
                c = ("some", l.src)
                return BoolV(c if isinstance(op, ast.IsNot) else ("not", c), norm(e))
            if isinstance(l, WordV) and isinstance(rs[0], IntV) and rs[0].const == 0 and isinstance(op, (ast.NotEq, ast.Eq, ast.Gt)):
                c = ("flagword", l)
                return BoolV(c if not isinstance(op, ast.Eq) else ("not", c), norm(e))
            if isinstance(l, WordV) and isinstance(rs[0], IntV) and rs[0].const == 1 and isinstance(op, ast.Eq):
                return BoolV(("flagword-eq1", l), norm(e))
            return BoolV(("expr", norm(e, 60)), norm(e))
        if isinstance(e, ast.IfExp):
            c = self.cond(e.test, env, effects, f, depth)
            a = self.expr(e.body, env, effects, f, depth)
            b = self.expr(e.orelse, env, effects, f, depth)
            if isinstance(a, IntV) and isinstance(b, IntV) and a.const is not None and b.const is not None:
                return IntV(None, sym=("ifexp", c, a.const, b.const), src=norm(e, 40))
            return Unknown(norm(e, 40))
        if isinstance(e, ast.Call):
            return self.call(e, env, effects, f, depth)
        if isinstance(e, ast.Subscript):
            b = self.expr(e.value, env, effects, f, depth)
            if isinstance(e.slice, ast.Slice):
                if isinstance(b, StrV) and b.const is not None:
                    lo = e.slice.lower.value if isinstance(e.slice.lower, ast.Constant) else None
                    hi = e.slice.upper.value if isinstance(e.slice.upper, ast.Constant) else None
                    if e.slice.step is None:
                        return StrV(b.const[lo:hi], repr(b.const[lo:hi]))
                return Unknown(norm(e, 40))
            k = self.expr(e.slice, env, effects, f, depth)
            if isinstance(b, DataV):
                ks = k.src if isinstance(k, V) else "?"
                return DataV("%s[%s]" % (b.src, ks))
            if isinstance(b, tuple) and b[0] == "unpacked":
                return DataV("float")
            return Unknown(norm(e, 40))
        if isinstance(e, (ast.List, ast.Tuple)):
            for x in e.elts:
                self.expr(x, env, effects, f, depth)
            return ListV()
        if isinstance(e, ast.Dict):
            return ListV("{}")
        if isinstance(e, ast.DictComp) and len(e.generators) == 1 and not e.generators[0].ifs:
            g = e.generators[0]
            self.loop(g.target, g.iter, None, env, effects, f, depth, comp_elt=ast.Tuple(elts=[e.key, e.value], ctx=ast.Load()))
            return ListV("{}")
        if isinstance(e, ast.ListComp) and len(e.generators) == 1 and not e.generators[0].ifs:
            g = e.generators[0]
            self.loop(g.target, g.iter, None, env, effects, f, depth, comp_elt=e.elt)
            # result: list whose length is the loop count
            last = effects[-1]
            return BytesV(last[1], src="comp") if last[0] == "loop" else ListV()
        if isinstance(e, ast.BinOp):
            a = self.expr(e.left, env, effects, f, depth)
            b = self.expr(e.right, env, effects, f, depth)
            if isinstance(a, IntV) and isinstance(b, IntV) and a.const is not None and b.const is not None:
                try:
                    v = {ast.Add: a.const + b.const, ast.Sub: a.const - b.const, ast.Mult: a.const * b.const}.get(type(e.op))
                    if v is not None:
                        return IntV(v, src=str(v))
                except Exception:
                    pass
            if isinstance(a, StrV) and isinstance(b, StrV) and isinstance(e.op, ast.Add) and a.const is not None and b.const is not None:
                return StrV(a.const + b.const)
            if isinstance(e.op, ast.Mult) and (isinstance(a, (WordV,)) or isinstance(b, (WordV,))):
                w = a if isinstance(a, WordV) else b
                o = b if w is a else a
                return IntV(None, sym=("mul", w, o.const if isinstance(o, IntV) else None), src=norm(e, 40))
            return IntV(None, sym=("expr", norm(e, 50)), src=norm(e, 40))
        if isinstance(e, ast.BoolOp) or (isinstance(e, ast.UnaryOp) and isinstance(e.op, ast.Not)):
            c = self.cond(e, env, effects, f, depth)
            return BoolV(c, norm(e, 60))
        if isinstance(e, ast.UnaryOp):
            v = self.expr(e.operand, env, effects, f, depth)
            return Unknown(norm(e, 30))
        if isinstance(e, ast.JoinedStr):
            return StrV(None, norm(e, 30))
        if isinstance(e, ast.Lambda):
            return Unknown("lambda")
        raise Unsupported("expression %s in %s" % (type(e).__name__, f.qual))

    def attr(self, b: V, attr: str, node) -> V:
        if isinstance(b, TypeV):
            if attr == "name":
                return StrV(b.name, "%s.name" % b.src)
            if attr == "underlying_type":
                return TypeV(None, None, "%s.underlying_type" % b.src)
            if attr == "size":
                return IntV(None, sym=("size", b.src), src="%s.size" % b.src)
            return Unknown("%s.%s" % (b.src, attr))
        if isinstance(b, StructV) and attr == "fields":
            return FieldsV(b.src, "declared")
        if isinstance(b, FieldV):
            if attr == "type":
                return TypeV(None, None, "field.type")
            if attr == "name":
                return StrV(None, "field.name")
            if attr == "field_id":
                return IntV(None, src="field.field_id")
        if isinstance(b, BufV):
            return Unknown("buffer.%s" % attr)
        if isinstance(b, ObjV) and attr in b.fields:
            return b.fields[attr]
        return Unknown("%s.%s" % (getattr(b, "src", "?"), attr))

    # -- calls -----------------------------------------------------------------------
    def call(self, e: ast.Call, env, effects, f, depth):
        fn = e.func
        # method calls
        if isinstance(fn, ast.Attribute):
            recv = self.expr(fn.value, env, effects, f, depth)
            name = fn.attr
            if isinstance(recv, BufV):
                return self.buf_call(recv, name, e, env, effects, f, depth)
            args = [self.expr(a, env, effects, f, depth) for a in e.args]
            if isinstance(recv, ObjV):
                m_ = self.prog.find_method(self.prog.classes[recv.cls], name) if recv.cls in self.prog.classes else None
                if m_ is None:
                    return Unknown("%s.%s()" % (recv.src, name))
                return self.call_function(m_, [recv] + args, {k.arg: self.expr(k.value, env, effects, f, depth) for k in e.keywords if k.arg}, effects, depth + 1)
            if isinstance(recv, TypeV):
                if name == "get_length":
                    if recv.name is not None:
                        try:
                            return IntV(int(recv.name[1:]), src=recv.name[1:])
                        except ValueError:
                            raise Unsupported("width of %s" % recv.name)
                    return IntV(None, sym=("width", recv.src), src="width(%s)" % recv.src)
                return Unknown("%s.%s()" % (recv.src, name))
            if isinstance(recv, FcpV):
                a0 = args[0].src if args else "?"
                if name == "get_struct":
                    return MaybeV(StructV(a0))
                if name == "get_enum":
                    return MaybeV(EnumV(a0))
                if name == "get_type":
                    return MaybeV(StructV(a0))
                return Unknown("fcp.%s" % name)
            if isinstance(recv, MaybeV) and name in ("unwrap", "attempt", "expect"):
                return recv.inner
            if isinstance(recv, EnumV) and name == "get_packed_size":
                return IntV(None, sym=("packed", recv.src), src="packed(%s)" % recv.src)
            if isinstance(recv, (ListV, DataV)) and name in ("append", "extend", "update"):
                return NoneV()
            if isinstance(recv, FieldsV) and name == "sort":
                from .rules.C15 import key_is_field_id
                key = next((k.value for k in e.keywords if k.arg == "key"), None)
                order = "other"
                if key is not None:
                    order = "sorted(field_id)" if key_is_field_id(key, self.eng, f) else "sorted(%s)" % norm(key, 30)
                if any(k.arg == "reverse" for k in e.keywords):
                    order += ",reverse"
                recv.order = order
                recv.src = "fields(%s)" % recv.struct_src
                return NoneV()
            if isinstance(recv, Unknown) and recv.src == "ext:struct" and name in ("pack", "unpack"):
                fmt = args[0].const if args and isinstance(args[0], StrV) else None
                n = STRUCT_FMT.get(fmt) if fmt is not None else None
                if name == "pack":
                    self.fmt_pairs.append(("pack", fmt, n))
                    if n is None:
                        raise Unsupported("struct.pack format %r" % (fmt,))
                    return BytesV(n, src="pack(%s)" % fmt, fmt=fmt)
                got = args[1].n if len(args) > 1 and isinstance(args[1], BytesV) else None
                self.fmt_pairs.append(("unpack", fmt, got))
                return ("unpacked", fmt, got)
            if name == "decode" and isinstance(recv, BytesV):
                return DataV("str")
            if name == "encode" and isinstance(recv, DataV):
                enc = args[0].const if args and isinstance(args[0], StrV) else (kw_enc if (kw_enc := next((self.expr(k.value, env, effects, f, depth).const for k in e.keywords if k.arg == "encoding" and isinstance(k.value, ast.Constant)), None)) else "utf-8")
                if isinstance(enc, str) and enc.lower().replace("_", "-") in ("ascii", "us-ascii", "latin-1", "latin1", "iso-8859-1"):
                    return BytesV(("len", recv.src), src="%s.encode(%s)" % (recv.src, enc))
                return BytesV(("bytes-of", recv.src, enc), src="%s.encode(%s)" % (recv.src, enc))
            if name in ("to_bytes",):
                return BytesV(args[0].const if args and isinstance(args[0], IntV) else None)
            return Unknown("%s.%s()" % (getattr(recv, "src", "?"), name))
        # plain calls
        d = dotted(fn) or ""
        r = self.prog.resolve_expr_symbol(f.module, f, fn) if isinstance(fn, ast.Name) and fn.id not in env else None
        args = [self.expr(a, env, effects, f, depth) for a in e.args]
        kwargs = {k.arg: self.expr(k.value, env, effects, f, depth) for k in e.keywords if k.arg}
        if r and r[0] == "builtin":
            n = r[1]
            if n == "range":
                a = args[-1] if len(args) == 1 else None
                if a is None:
                    raise Unsupported("range with %d args" % len(args))
                return ("range", self.count_of(a))
            if n == "len":
                a = args[0]
                if isinstance(a, DataV):
                    return IntV(None, sym=("len", a.src), src="len(%s)" % a.src)
                if isinstance(a, BytesV):
                    return IntV(a.n if isinstance(a.n, int) else None, sym=a.n, src="len(bytes)")
                return IntV(None, sym=("len", getattr(a, "src", "?")), src="len(?)")
            if n in ("list", "bytearray", "bytes", "tuple"):
                return args[0] if args else ListV()
            if n == "sorted":
                a = args[0]
                if isinstance(a, FieldsV):
                    key = None
                    for k in e.keywords:
                        if k.arg == "key":
                            key = k.value
                    order = "other"
                    if key is not None:
                        from .rules.C15 import key_is_field_id
                        order = "sorted(field_id)" if key_is_field_id(key, self.eng, f) else "sorted(%s)" % norm(key, 30)
                    if any(k.arg == "reverse" for k in e.keywords):
                        order += ",reverse"
                    return FieldsV(a.struct_src, order)
                return a
            if n in ("ord", "int", "float", "str", "bool", "abs", "round", "chr"):
                a = args[0] if args else Unknown()
                if n in ("int", "float") and isinstance(a, (WordV, DataV)):
                    return a
                if isinstance(a, tuple):
                    return DataV("float")
                return DataV("%s(%s)" % (n, getattr(a, "src", "?"))) if isinstance(a, DataV) else (a if isinstance(a, (IntV, WordV)) else Unknown("%s(..)" % n))
            if n in ("enumerate", "reversed", "zip", "map", "filter"):
                raise Unsupported("builtin %s" % n)
            return Unknown(n + "()")
        if r and r[0] == "class":
            q = r[1]
            ci = self.prog.classes[q]
            if q == self.buf_cls or q in getattr(self, "buf_classes", ()):
                effects.append(("new-buffer",))
                b = BufV(q)
                b.fresh = True
                return b
            if self.prog.is_subclass(q, "fcp.specs.type.Type"):
                nm = args[0].const if args and isinstance(args[0], StrV) else None
                if nm is None and not args:
                    # FloatType()/DoubleType()/StringType(): name fixed in __init__
                    init = self.prog.find_method(ci, "__init__")
                    if init:
                        for n2 in walk_local(init.node):
                            if isinstance(n2, ast.Assign) and norm(n2.targets[0]) == "self.name" and isinstance(n2.value, ast.Constant):
                                nm = n2.value.value
                return TypeV(q, nm, "%s(%s)" % (ci.name, nm or ""))
            if ci.module is self.module and "__init__" in ci.methods:
                return self.new_object(q, args, kwargs, effects, depth)
            return Unknown("new:" + q)
        if r and r[0] == "func":
            f2 = self.prog.functions[r[1]]
            if f2.module is not self.module:
                return Unknown("call:" + r[1])
            if f2.qual in self.dispatchers:
                tv = [a for a in args if isinstance(a, TypeV)]
                if tv and tv[0].cls is None:
                    dv = [a for a in args if isinstance(a, DataV)]
                    effects.append(("rec", tv[0].src, dv[0].src if dv else ""))
                    return DataV("decoded(%s)" % tv[0].src)
            return self.call_function(f2, args, kwargs, effects, depth + 1)
        if isinstance(fn, ast.Name) and fn.id in env:
            return Unknown("callvar:" + fn.id)
        return Unknown("call:" + d)

    def new_object(self, q: str, args, kwargs, effects, depth) -> V:
        o = ObjV(q, self.prog.classes[q].name)
        init = self.prog.classes[q].methods.get("__init__")
        if init is not None:
            self.call_function(init, [o] + list(args), kwargs, effects, depth + 1)
        return o

    def count_of(self, a: V):
        if isinstance(a, IntV):
            if a.const is not None:
                return a.const
            if a.sym is not None:
                return a.sym
            return ("expr", a.src)
        if isinstance(a, WordV):
            return ("var", a)
        if isinstance(a, DataV):
            return ("expr", a.src)
        return ("expr", getattr(a, "src", "?"))

    def width_of(self, a: V):
        if isinstance(a, IntV):
            if a.const is not None:
                return a.const
            if a.sym is not None:
                return a.sym
        if isinstance(a, WordV):
            return ("var", a)
        return ("expr", getattr(a, "src", "?"))

    def buf_call(self, recv: BufV, name: str, e: ast.Call, env, effects, f, depth):
        args = [self.expr(a, env, effects, f, depth) for a in e.args]
        if name in self.word_prims:
            kind, bits_idx = self.word_prims[name]
            if bits_idx >= len(args):
                raise Unsupported("call of %s without bits argument" % name)
            width = self.width_of(args[bits_idx])
            if kind == "push":
                val = args[0] if bits_idx != 0 else (args[1] if len(args) > 1 else Unknown())
                role = "data"
                if isinstance(val, IntV) and val.sym and val.sym[0] == "len":
                    role = ("len", val.sym[1])
                elif isinstance(val, IntV) and val.sym and val.sym[0] == "ifexp":
                    role = ("flag", val.sym[1], val.sym[2], val.sym[3])
                elif isinstance(val, IntV) and isinstance(val.sym, tuple) and val.sym[0] in ("len",):
                    role = ("len", val.sym[1])
                elif isinstance(val, IntV) and isinstance(val.sym, tuple) and val.sym[0] == "bytes-of":
                    role = ("len", val.sym)
                effects.append(("W", width, role))
                return NoneV()
            effects.append(("W", width, "data"))
            w = WordV(len(effects) - 1)
            effects[-1] = ("W", width, w)
            return w
        if name in getattr(self, "byte_prims", {}):
            kind, idx = self.byte_prims[name]
            a = args[idx] if idx < len(args) else Unknown()
            n = a.n if isinstance(a, BytesV) else self.count_of(a)
            effects.append(("B", n, kind))
            return BytesV(n, src="bytes") if kind == "read" else NoneV()
        ci = self.prog.classes[recv.cls]
        m = self.prog.find_method(ci, name)
        if m is None:
            raise Unsupported("buffer has no method %s" % name)
        if getattr(recv, "fresh", False) and not args and any(isinstance(n, ast.Return) and n.value is not None for n in walk_local(m.node)):
            # the content of a buffer created inside a handler: whole bytes (padded to a byte boundary)
            return BytesV(("expr", "whole bytes of a separately encoded value"), src="separate buffer")
        return self.call_function(m, [recv] + args, {}, effects, depth + 1)
