"""Obligation records, verdict lines, known findings, evidence."""

from __future__ import annotations

import json
import os
import time
from typing import Dict, List, Optional

VERIF = os.path.dirname(os.path.dirname(os.path.abspath(__file__)))
KNOWN_PATH = os.path.join(VERIF, "known_findings.json")


def load_known() -> Dict:
    if not os.path.exists(KNOWN_PATH):
        return {"findings": [], "fixed": []}
    with open(KNOWN_PATH, encoding="utf-8") as f:
        return json.load(f)


def key_of(o: Dict) -> str:
    return "|".join([o["property"], o["rule"], o["file"], o["function"], o["construct"]])


class Report:
    def __init__(self, pid: str, tier: str, root: str, quiet: bool = False):
        self.pid = pid
        self.tier = tier
        self.root = root
        self.t0 = time.time()
        self.obls: List[Dict] = []
        self.assumptions: List[str] = []
        self.extra: Dict = {}
        self.rule_text: Dict[str, str] = {}
        self.explanation = ""
        self.floors: List[Dict] = []
        self.errors: List[str] = []
        self.quiet = quiet
        self.known = load_known()

    # -- recording -------------------------------------------------------------
    def rule(self, rid: str, text: str) -> None:
        self.rule_text[rid] = text

    def _add(self, verdict, rule, file, function, construct, detail, path=None):
        o = {
            "property": self.pid,
            "rule": rule,
            "file": file or "-",
            "function": function or "-",
            "construct": " ".join(str(construct).split()),
            "verdict": verdict,
            "detail": detail,
        }
        if path:
            o["path"] = path
        self.obls.append(o)
        return o

    def ok(self, rule, file, function, construct, detail=""):
        return self._add("ok", rule, file, function, construct, detail)

    def violation(self, rule, file, function, construct, detail="", path=None):
        return self._add("violation", rule, file, function, construct, detail, path)

    def undecided(self, rule, file, function, construct, detail=""):
        return self._add("undecided", rule, file, function, construct, detail)

    def info(self, rule, file, function, construct, detail=""):
        return self._add("info", rule, file, function, construct, detail)

    def check(self, cond: bool, rule, file, function, construct, ok_detail="", bad_detail="", path=None):
        if cond:
            return self.ok(rule, file, function, construct, ok_detail)
        return self.violation(rule, file, function, construct, bad_detail, path)

    def floor(self, rule: str, what: str, count: int, minimum: int) -> None:
        self.floors.append({"rule": rule, "what": what, "count": count, "min": minimum})
        if count < minimum:
            self.errors.append(
                "floor not met for %s (%s): found %d, confirmed by hand >= %d" % (rule, what, count, minimum)
            )

    def error(self, msg: str) -> None:
        self.errors.append(msg)

    def assume(self, text: str) -> None:
        if text not in self.assumptions:
            self.assumptions.append(text)

    # -- finishing ---------------------------------------------------------------
    def finish(self) -> int:
        known_keys = {key_of(k): k for k in self.known.get("findings", []) if k.get("property") == self.pid}
        viol, known_hit, undec = [], [], []
        for o in self.obls:
            if o["verdict"] == "violation":
                k = key_of(o)
                if k in known_keys:
                    o["verdict"] = "known"
                    known_hit.append(o)
                else:
                    viol.append(o)
            elif o["verdict"] == "undecided":
                undec.append(o)
        out = []
        units = self.extra.get("units")
        if units is not None:
            out.append("analysed %s units, %s functions, %s call sites" % (units, self.extra.get("functions"), self.extra.get("call_sites")))
        by_rule: Dict[str, Dict[str, int]] = {}
        for o in self.obls:
            by_rule.setdefault(o["rule"], {}).setdefault(o["verdict"], 0)
            by_rule[o["rule"]][o["verdict"]] += 1
        for r in sorted(by_rule):
            out.append("rule %s: %s  -- %s" % (r, " ".join("%s=%d" % kv for kv in sorted(by_rule[r].items())), self.rule_text.get(r, "")))
        if not self.quiet:
            for o in self.obls:
                if o["verdict"] in ("ok",):
                    out.append("  ok   %s %s::%s :: %s %s" % (o["rule"], o["file"], o["function"], o["construct"][:110], ("-- " + o["detail"]) if o["detail"] else ""))
        for o in self.obls:
            if o["verdict"] == "info":
                out.append("INFO property=%s rule=%s %s::%s :: %s -- %s" % (self.pid, o["rule"], o["file"], o["function"], o["construct"], o["detail"]))
        for o in undec:
            out.append("UNDECIDED property=%s rule=%s %s::%s :: %s reason=%s" % (self.pid, o["rule"], o["file"], o["function"], o["construct"], o["detail"]))
        for o in known_hit:
            out.append("KNOWN-FINDING: property=%s rule=%s %s::%s :: %s -- %s" % (self.pid, o["rule"], o["file"], o["function"], o["construct"], o["detail"]))
        code = 0
        replay = None
        if self.errors:
            for e in self.errors:
                out.append("ANALYSIS-ERROR property=%s %s" % (self.pid, e))
            code = 2
        if viol:
            replay = os.path.join(VERIF, "evidence", "%s.replay.json" % self.pid)
            os.makedirs(os.path.dirname(replay), exist_ok=True)
            with open(replay, "w", encoding="utf-8") as f:
                json.dump({"property": self.pid, "root": self.root, "violations": viol}, f, indent=1)
            for o in viol:
                out.append("  violation %s %s::%s :: %s -- %s%s" % (o["rule"], o["file"], o["function"], o["construct"], o["detail"], (" path=" + " -> ".join(o["path"])) if o.get("path") else ""))
            out.append("VIOLATION property=%s replay=%s" % (self.pid, replay))
            if code == 0:
                code = 1
        print("\n".join(out))
        self._write_evidence(viol, known_hit, undec, code)
        return code

    def _write_evidence(self, viol, known_hit, undec, code) -> None:
        n_obl = len([o for o in self.obls if o["verdict"] != "info"])
        discharged = len([o for o in self.obls if o["verdict"] == "ok"])
        distinct = len({(o["rule"], o["file"], o["function"], o["construct"]) for o in self.obls if o["verdict"] != "info"})
        samples = []
        seen_rules = {}
        for o in self.obls:
            c = seen_rules.get(o["rule"], 0)
            if c < 4 or o["verdict"] not in ("ok",):
                samples.append({k: o[k] for k in ("rule", "file", "function", "construct", "verdict", "detail")})
                seen_rules[o["rule"]] = c + 1
        cov = {
            "explanation": self.explanation,
            "rule": "; ".join("%s: %s" % kv for kv in sorted(self.rule_text.items())),
            "obligations": n_obl,
            "discharged": discharged,
            "evaluations": max(n_obl, 1),
            "distinct_nontrivial": distinct,
            "samples": samples[:120],
            "known_findings": [key_of(o) for o in known_hit],
            "undecided": [dict(rule=o["rule"], construct=o["construct"], detail=o["detail"]) for o in undec],
            "floors": self.floors,
            "analysis_errors": self.errors,
            "exit_code": code,
        }
        cov.update(self.extra)
        ev = {
            "property_id": self.pid,
            "tier": self.tier,
            "seed": int(os.environ.get("VERIF_SEED", "0") or 0),
            "level": "other",
            "coverage": cov,
            "assumptions": self.assumptions,
            "wall_s": round(time.time() - self.t0, 3),
            "violations": len(viol),
        }
        p = os.path.join(VERIF, "evidence", "%s.json" % self.pid)
        if os.environ.get("VERIF_NO_EVIDENCE"):
            return
        os.makedirs(os.path.dirname(p), exist_ok=True)
        with open(p, "w", encoding="utf-8") as f:
            json.dump(ev, f, indent=1, sort_keys=True)
            f.write("\n")
