"""Statement-level control-flow graph for the statement kinds the repo uses."""

from __future__ import annotations

import ast
from typing import Dict, Iterable, List, Optional, Set


class Node:
    __slots__ = ("id", "kind", "ast", "label")

    def __init__(self, id: int, kind: str, node: Optional[ast.AST], label: str = ""):
        self.id = id
        self.kind = kind  # entry | exit | raise | stmt | test | loop | handler | with
        self.ast = node
        self.label = label

    def __repr__(self) -> str:
        ln = getattr(self.ast, "lineno", "-")
        return "<%d %s L%s %s>" % (self.id, self.kind, ln, self.label)


class CFG:
    def __init__(self, fn_node: ast.AST):
        self.fn = fn_node
        self.nodes: List[Node] = []
        self.succ: Dict[int, Set[int]] = {}
        self.pred: Dict[int, Set[int]] = {}
        self.exc_succ: Dict[int, Set[int]] = {}  # exceptional edges (stmt -> handler / raise-exit)
        self.by_ast: Dict[int, int] = {}
        self.entry = self._new("entry", None)
        self.exit = self._new("exit", None)
        self.rexit = self._new("raise", None)
        body = fn_node.body if not isinstance(fn_node, ast.Lambda) else [ast.Return(value=fn_node.body)]
        outs = self._block(body, {self.entry}, [], [])
        for o in outs:
            self._edge(o, self.exit)

    # -- construction -----------------------------------------------------------
    def _new(self, kind, node, label="") -> int:
        n = Node(len(self.nodes), kind, node, label)
        self.nodes.append(n)
        self.succ[n.id] = set()
        self.pred[n.id] = set()
        self.exc_succ[n.id] = set()
        if node is not None and id(node) not in self.by_ast:
            self.by_ast[id(node)] = n.id
        return n.id

    def _edge(self, a: int, b: int) -> None:
        self.succ[a].add(b)
        self.pred[b].add(a)

    def _exc(self, a: int, handlers: List[List[int]]) -> None:
        """statement `a` may raise: edges to the innermost enclosing handlers, else raise-exit."""
        if handlers:
            for h in handlers[-1]:
                self.exc_succ[a].add(h)
                self._edge(a, h)
            # an exception not matching the innermost handlers propagates outwards; model by
            # also linking to outer handlers / raise exit through exc_succ only
            for outer in handlers[:-1]:
                for h in outer:
                    self.exc_succ[a].add(h)
            self.exc_succ[a].add(self.rexit)
        else:
            self.exc_succ[a].add(self.rexit)

    def _block(self, stmts, preds: Set[int], loops, handlers) -> Set[int]:
        cur = set(preds)
        for st in stmts:
            cur = self._stmt(st, cur, loops, handlers)
        return cur

    def _stmt(self, st, preds: Set[int], loops, handlers) -> Set[int]:
        if isinstance(st, ast.If):
            t = self._new("test", st, "if")
            for p in preds:
                self._edge(p, t)
            if handlers:
                self._exc(t, handlers)
            a = self._block(st.body, {t}, loops, handlers)
            b = self._block(st.orelse, {t}, loops, handlers) if st.orelse else {t}
            return a | b
        if isinstance(st, (ast.For, ast.AsyncFor, ast.While)):
            h = self._new("loop", st, "loop")
            for p in preds:
                self._edge(p, h)
            if handlers:
                self._exc(h, handlers)
            brk: Set[int] = set()
            loops.append((h, brk))
            body_out = self._block(st.body, {h}, loops, handlers)
            loops.pop()
            for o in body_out:
                self._edge(o, h)
            if isinstance(st, ast.While) and isinstance(st.test, ast.Constant) and st.test.value is True:
                return brk  # `while True:` is left only through break (return/raise have their own edges)
            out = self._block(st.orelse, {h}, loops, handlers) if st.orelse else {h}
            return out | brk
        if isinstance(st, ast.Try):
            hs = []
            for hd in st.handlers:
                hs.append(self._new("handler", hd, "except"))
            handlers.append(hs)
            body_out = self._block(st.body, preds, loops, handlers)
            handlers.pop()
            else_out = self._block(st.orelse, body_out, loops, handlers) if st.orelse else body_out
            outs = set(else_out)
            for hid, hd in zip(hs, st.handlers):
                outs |= self._block(hd.body, {hid}, loops, handlers)
            if st.finalbody:
                outs = self._block(st.finalbody, outs, loops, handlers)
            return outs
        if isinstance(st, (ast.With, ast.AsyncWith)):
            w = self._new("with", st, "with")
            for p in preds:
                self._edge(p, w)
            if handlers:
                self._exc(w, handlers)
            return self._block(st.body, {w}, loops, handlers)
        if isinstance(st, ast.Match):
            t = self._new("test", st, "match")
            for p in preds:
                self._edge(p, t)
            outs = {t}
            for c in st.cases:
                outs |= self._block(c.body, {t}, loops, handlers)
            return outs
        n = self._new("stmt", st, type(st).__name__)
        for p in preds:
            self._edge(p, n)
        if isinstance(st, ast.Return):
            self._edge(n, self.exit)
            if handlers:
                self._exc(n, handlers)
            return set()
        if isinstance(st, ast.Raise):
            self._exc(n, handlers)
            if not handlers:
                self._edge(n, self.rexit)
            return set()
        if isinstance(st, ast.Break):
            if loops:
                loops[-1][1].add(n)
            return set()
        if isinstance(st, ast.Continue):
            if loops:
                self._edge(n, loops[-1][0])
            return set()
        if handlers:
            self._exc(n, handlers)
        return {n}

    # -- queries ------------------------------------------------------------------
    def node_for(self, a: ast.AST) -> Optional[int]:
        return self.by_ast.get(id(a))

    def stmt_node_containing(self, expr: ast.AST) -> Optional[int]:
        """CFG node whose own header/simple statement contains `expr` (an inner expression).
        For compound statements only the header expressions (test / iter / items) count."""
        for n in self.nodes:
            if n.ast is None:
                continue
            for sub in self._own_exprs(n.ast):
                for x in ast.walk(sub):
                    if x is expr:
                        return n.id
        return None

    @staticmethod
    def _own_exprs(st: ast.AST) -> List[ast.AST]:
        if isinstance(st, ast.If) or isinstance(st, ast.While):
            return [st.test]
        if isinstance(st, (ast.For, ast.AsyncFor)):
            return [st.target, st.iter]
        if isinstance(st, (ast.With, ast.AsyncWith)):
            return [i.context_expr for i in st.items] + [i.optional_vars for i in st.items if i.optional_vars]
        if isinstance(st, ast.ExceptHandler):
            return [st.type] if st.type is not None else []
        if isinstance(st, ast.Match):
            return [st.subject]
        if isinstance(st, (ast.FunctionDef, ast.AsyncFunctionDef, ast.ClassDef)):
            return list(st.decorator_list)
        return [st]

    def reachable_avoiding(self, start: int, avoid: Iterable[int], use_exc: bool = True) -> Set[int]:
        avoid = set(avoid)
        seen = set()
        if start in avoid:
            return seen
        work = [start]
        seen.add(start)
        while work:
            a = work.pop()
            for b in self.succ[a]:
                if b in avoid or b in seen:
                    continue
                if not use_exc and b in self.exc_succ[a] and self.nodes[b].kind == "handler":
                    continue
                seen.add(b)
                work.append(b)
        return seen

    def every_path_passes(self, target: int, through: Iterable[int]) -> bool:
        """True iff every entry->target path contains a node of `through`."""
        through = set(through)
        if target in through:
            return True
        return target not in self.reachable_avoiding(self.entry, through)

    def dominators(self) -> Dict[int, Set[int]]:
        all_nodes = set(self.reachable_avoiding(self.entry, ()))
        dom = {n: set(all_nodes) for n in all_nodes}
        dom[self.entry] = {self.entry}
        changed = True
        order = sorted(all_nodes)
        while changed:
            changed = False
            for n in order:
                if n == self.entry:
                    continue
                ps = [p for p in self.pred[n] if p in all_nodes]
                new = set.intersection(*[dom[p] for p in ps]) if ps else set()
                new = new | {n}
                if new != dom[n]:
                    dom[n] = new
                    changed = True
        return dom

    def dominates(self, a: int, b: int) -> bool:
        return self.every_path_passes(b, {a})

    def normal_exit_preds(self) -> Set[int]:
        return set(self.pred[self.exit])

    def reaches(self, a: int, b: int) -> bool:
        return b in self.reachable_avoiding(a, ()) and a != b or (a == b)
