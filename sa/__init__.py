"""Static-analysis engine for the fcp-core verification task (see /verif/DESIGN.md)."""
