"""Checker self-test: mutants must fire (exit 1, naming the rule), twins must stay silent.

Edits are exact-once text replacements applied to a scratch copy of the analysed parts of
the repository (made under a fresh temporary directory, removed at the end).  The self-test
validates the checker, not the repository; it never runs repository code.
"""

from __future__ import annotations

import json
import os
import shutil
import subprocess
import sys
import tempfile
from concurrent.futures import ThreadPoolExecutor

HERE = os.path.dirname(os.path.abspath(__file__))
VERIF = os.path.dirname(os.path.dirname(HERE))
COPY_DIRS = ["src", "plugins", "tests/standardized", "docs"]


def make_copy(root: str, dst: str) -> None:
    for d in COPY_DIRS:
        s = os.path.join(root, d)
        if os.path.isdir(s):
            shutil.copytree(s, os.path.join(dst, d), ignore=shutil.ignore_patterns("__pycache__", "*.pyc", "*.egg-info", "tests") if d == "plugins" else shutil.ignore_patterns("__pycache__", "*.pyc", "*.egg-info"))


def apply_edits(dst: str, edits) -> str:
    for e in edits:
        p = os.path.join(dst, e["file"])
        with open(p, encoding="utf-8") as f:
            s = f.read()
        n = s.count(e["old"])
        if n != 1 and not e.get("all"):
            return "edit does not apply exactly once (%d matches) in %s: %r" % (n, e["file"], e["old"][:60])
        s = s.replace(e["old"], e["new"])
        with open(p, "w", encoding="utf-8") as f:
            f.write(s)
    return ""


def apply_patch(dst: str, patch_file: str) -> str:
    r = subprocess.run(["patch", "-p1", "-s", "-f", "-i", patch_file], cwd=dst, capture_output=True, text=True)
    return "" if r.returncode == 0 else "seeded patch no longer applies: %s" % (r.stdout + r.stderr)[-200:]


def seeded_cases(pid: str):
    """Confirmed seeded changes (from independent sub-agents) that this property's check is recorded to catch."""
    out = []
    sd = os.path.join(VERIF, "seeded")
    if not os.path.isdir(sd):
        return out
    for d in sorted(os.listdir(sd)):
        mp = os.path.join(sd, d, "meta.json")
        pp = os.path.join(sd, d, "patch.diff")
        if os.path.exists(mp) and os.path.exists(pp):
            try:
                meta = json.load(open(mp))
            except Exception:
                continue
            if pid in (meta.get("checks_firing") or {}):
                out.append({"name": "seeded/" + d, "kind": "mutant", "patch": pp, "edits": []})
    return out


def twin_cases(pid: str):
    """Confirmed behaviour-preserving changes (from independent sub-agents): the check must stay silent.
    A twin is run for its own property and for every property listed in meta['also_checks']."""
    out = []
    td = os.path.join(VERIF, "twins")
    if not os.path.isdir(td):
        return out
    for d in sorted(os.listdir(td)):
        mp = os.path.join(td, d, "meta.json")
        pp = os.path.join(td, d, "patch.diff")
        if os.path.exists(mp) and os.path.exists(pp):
            try:
                meta = json.load(open(mp))
            except Exception:
                continue
            if meta.get("property") == pid or pid in (meta.get("also_checks") or []):
                out.append({"name": "twins/" + d, "kind": "twin", "patch": pp, "edits": []})
    return out


def run_case(pid: str, case, root: str, tier: str):
    tmp = tempfile.mkdtemp(prefix="fcpverif-st-")
    try:
        make_copy(root, tmp)
        err = apply_patch(tmp, case["patch"]) if case.get("patch") else apply_edits(tmp, case["edits"])
        if err:
            return case, "stale", err
        env = dict(os.environ, VERIF_NO_EVIDENCE="1")
        r = subprocess.run([os.path.join(VERIF, "check"), pid, "--root", tmp, "--tier", tier, "-q"], capture_output=True, text=True, env=env)
        out = r.stdout
        if case["kind"] == "mutant":
            if r.returncode != 1:
                return case, "missed", "exit %d (expected 1)\n%s" % (r.returncode, out[-600:] + r.stderr[-300:])
            want = case.get("expect_rule")
            if want and not any(("violation " + want) in ln for ln in out.splitlines()):
                return case, "wrong-rule", "fired, but not rule %s\n%s" % (want, "\n".join(l for l in out.splitlines() if "violation" in l)[:600])
            return case, "fired", ""
        else:
            if r.returncode != 0:
                return case, "false-alarm", "exit %d on a behaviour-preserving twin\n%s" % (r.returncode, "\n".join(l for l in out.splitlines() if "violation" in l or "ANALYSIS" in l)[:800] + r.stderr[-300:])
            return case, "silent", ""
    finally:
        shutil.rmtree(tmp, ignore_errors=True)


def selftest(pid: str, root: str = "/repo", tier: str = "quick", jobs: int = 16):
    p = os.path.join(HERE, "corpus", pid + ".json")
    if not os.path.exists(p):
        return {"mutants": 0, "twins": 0, "fired": 0, "silent": 0, "problems": []}
    cases = json.load(open(p)) + seeded_cases(pid) + twin_cases(pid)
    res = {"mutants": 0, "twins": 0, "fired": 0, "silent": 0, "stale": 0, "problems": []}
    with ThreadPoolExecutor(max_workers=jobs) as ex:
        for case, verdict, msg in ex.map(lambda c: run_case(pid, c, root, tier), cases):
            if case["kind"] == "mutant":
                res["mutants"] += 1
            else:
                res["twins"] += 1
            if verdict == "fired":
                res["fired"] += 1
            elif verdict == "silent":
                res["silent"] += 1
            elif verdict == "stale":
                res["stale"] += 1
                res["problems"].append({"case": case["name"], "verdict": verdict, "msg": msg})
            else:
                res["problems"].append({"case": case["name"], "verdict": verdict, "msg": msg})
    return res


if __name__ == "__main__":
    pids = sys.argv[1:] or sorted(f[:-5] for f in os.listdir(os.path.join(HERE, "corpus")) if f.endswith(".json"))
    bad = 0
    for pid in pids:
        r = selftest(pid, os.environ.get("VERIF_ROOT", "/repo"))
        print("%s: mutants %d/%d fired, twins %d/%d silent, stale %d" % (pid, r["fired"], r["mutants"], r["silent"], r["twins"], r.get("stale", 0)))
        for pr in r["problems"]:
            bad += 1
            print("   PROBLEM %s: %s\n      %s" % (pr["case"], pr["verdict"], pr["msg"].replace("\n", "\n      ")))
    sys.exit(1 if bad else 0)
