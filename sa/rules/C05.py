"""C05 - the generated DBC describes exactly the packed layout of every CAN binding (narrow:
provenance of every DBC attribute).

R05.1 one signal per layout leaf: the signal construction sits unconditionally in a loop over the whole layout
R05.2 every signal attribute derives from the layout attribute the property names, of the same leaf, and
      every value used in the construction is computed in the same iteration on every path
R05.3 message attributes (frame id, name, length, signals, bus) derive from the same binding; the layout
      is that binding's own; only CAN bindings are iterated; one description per bus
"""

from __future__ import annotations

import ast
from typing import Dict, List, Optional, Set, Tuple

from ..front_py import AnalysisError, FuncInfo, walk_local, norm, dotted
from ..dataflow import Defs, Provenance, access_path
from .codec_py import lin, lin_eq, fmt_lin


def body_unconditional_assigns(loop: ast.For) -> Dict[str, List[ast.AST]]:
    out: Dict[str, List[ast.AST]] = {}
    for st in loop.body:
        if isinstance(st, (ast.Assign, ast.AnnAssign)):
            tgts = st.targets if isinstance(st, ast.Assign) else [st.target]
            for t in tgts:
                for x in (t.elts if isinstance(t, (ast.Tuple, ast.List)) else [t]):
                    if isinstance(x, ast.Name):
                        out.setdefault(x.id, []).append(st.value)
    return out


def conditional_assigns(loop: ast.For) -> Set[str]:
    out = set()
    for st in loop.body:
        if isinstance(st, (ast.If, ast.Try, ast.For, ast.While, ast.With)):
            for n in ast.walk(st):
                if isinstance(n, ast.Name) and isinstance(n.ctx, ast.Store):
                    out.add(n.id)
    return out


def iteration_local(rep, rule, f: FuncInfo, loop: ast.For, ctor: ast.Call) -> Dict[str, ast.AST]:
    """Names used by the construction that are (re)assigned inside the loop: each must be assigned
    unconditionally in the body (else a value from a previous iteration can be used).  Returns the
    substitution name -> defining expression for unconditional single assignments."""
    uncond = body_unconditional_assigns(loop)
    cond = conditional_assigns(loop)
    used = {n.id for n in ast.walk(ctor) if isinstance(n, ast.Name) and isinstance(n.ctx, ast.Load)}
    for name in sorted(used & cond):
        if name not in uncond:
            rep.violation(rule, f.file, f.qual, "%s (assigned only on some paths of the loop body)" % name,
                          "'%s' is used in the description of a leaf but is not recomputed in every iteration: a leaf inherits the value computed for an earlier leaf" % name)
    return {k: v[-1] for k, v in uncond.items() if len(v) == 1}


class Subst(ast.NodeTransformer):
    def __init__(self, env):
        self.env = env
        self.active = []

    def visit_Name(self, n):
        if isinstance(n.ctx, ast.Load) and n.id in self.env and n.id not in self.active and len(self.active) < 12:
            import copy
            self.active.append(n.id)
            r = self.visit(copy.deepcopy(self.env[n.id]))
            self.active.pop()
            return r
        return n


def resolved(e: ast.AST, env: Dict[str, ast.AST]) -> ast.AST:
    import copy
    e2 = Subst(env).visit(copy.deepcopy(e))
    ast.fix_missing_locations(e2)
    return e2


def atoms_of(e: ast.AST) -> Set[str]:
    """access paths mentioned by e (no local expansion)"""
    out = set()

    def go(n):
        if isinstance(n, ast.Call):
            p = access_path(n)
            if p is not None:
                out.add(p)
                return
            if isinstance(n.func, ast.Attribute):
                go(n.func.value)
            elif not isinstance(n.func, ast.Name):
                go(n.func)
            for a in n.args:
                go(a)
            for k in n.keywords:
                go(k.value)
            return
        if isinstance(n, (ast.Attribute, ast.Subscript)):
            p = access_path(n)
            if p is not None:
                out.add(p)
                return
        if isinstance(n, ast.Name):
            out.add(n.id)
            return
        for c in ast.iter_child_nodes(n):
            go(c)

    go(e)
    return out


def get_arg(call: ast.Call, pos: Optional[int], name: str) -> Optional[ast.AST]:
    for k in call.keywords:
        if k.arg == name:
            return k.value
    if pos is not None and pos < len(call.args):
        return call.args[pos]
    return None


def run(eng, rep) -> None:
    prog, cg = eng.prog, eng.cg
    rep.explanation = (
        "Def-use provenance of every argument of the CanSignal(...) / CanMessage(...) constructions in the DBC writer: each must derive "
        "from the layout attribute the property names, of the leaf (binding) currently iterated, and from nothing else of it; values used "
        "in a construction must be recomputed in every iteration on every path (no stale value from an earlier leaf); the construction is "
        "unconditional in a loop over the whole layout; the layout handed to the signal builder is encoder.generate(<this binding>); the "
        "message is filed under the bus read from the same binding; results are keyed by bus."
    )
    rep.rule("R05.1", "one signal per layout leaf, one message per CAN binding (unconditional construction in a loop over the whole sequence)")
    rep.rule("R05.2", "signal attributes <- attributes of the same leaf: name, start(+7 iff not little), length, byte order, signedness, float marker, unit, multiplexing")
    rep.rule("R05.4", "each bus is written to its own file: the record path is output directory / (bus name + constant suffix)")
    rep.rule("R05.5", "what stands for a binding in the DBC (message, frame record) is named by the binding's own name, not by the struct it refers to")
    from .lints import named_after_referent
    named_after_referent(eng, rep, "R05.5", ("fcp_dbc",), "a struct bound twice on a bus (`impl can for S as A`, `... as B`) gives two DBC messages of the same name, and a renamed binding appears under its struct's name")
    rep.rule("R05.3", "message attributes <- the same binding: id, name, dlc of its own layout, its signals, its bus; only CAN bindings; one result per bus")
    rep.assume("cantools' DBC printer and reader; Motorola start-bit arithmetic for non byte-aligned big-endian signals; that a packed frame decodes through the DBC needs execution")
    dbc = prog.modules.get("fcp_dbc.dbc_writer")
    if dbc is None:
        raise AnalysisError("anchor vanished: fcp_dbc.dbc_writer")
    builder = None
    sig_ctor = None
    for f in dbc.functions.values():
        for cs in cg.sites_in(f):
            if any(x.endswith("signal.Signal") for x in cs.externals):
                builder, sig_ctor = f, cs.node
    wd = dbc.functions.get("write_dbc")
    if builder is None or wd is None:
        raise AnalysisError("anchor vanished: CanSignal construction / write_dbc in fcp_dbc.dbc_writer")
    enc_param = builder.params[0].arg
    # ---- R05.1 ---------------------------------------------------------------------
    loop = None
    for n in walk_local(builder.node):
        if isinstance(n, ast.For) and any(x is sig_ctor for x in ast.walk(n)):
            loop = n
    if loop is None:
        rep.undecided("R05.1", builder.file, builder.qual, "loop over the layout", "signal construction is not inside a for loop")
        return
    whole = isinstance(loop.iter, ast.Name) and loop.iter.id == enc_param and not Defs(builder.node).values(enc_param)
    piece_from_pair = None
    if isinstance(loop.iter, ast.Call) and isinstance(loop.target, ast.Tuple) and all(isinstance(t_, ast.Name) for t_ in loop.target.elts) and not Defs(builder.node).values(enc_param):
        fn_ = dotted(loop.iter.func)
        if fn_ == "enumerate" and len(loop.iter.args) >= 1 and isinstance(loop.iter.args[0], ast.Name) and loop.iter.args[0].id == enc_param and len(loop.target.elts) == 2:
            piece_from_pair, whole = loop.target.elts[1].id, True
        elif fn_ == "zip" and len(loop.iter.args) == len(loop.target.elts):
            for i_, a_ in enumerate(loop.iter.args):
                if isinstance(a_, ast.Name) and a_.id == enc_param:
                    piece_from_pair = loop.target.elts[i_].id
    if piece_from_pair is not None and not whole:
        rep.undecided("R05.1", builder.file, builder.qual, "for %s in %s" % (norm(loop.target), norm(loop.iter, 40)), "the layout is walked in step with another sequence (zip stops at the shorter one); that every leaf is visited is not decided")
    else:
        rep.check(whole, "R05.1", builder.file, builder.qual, "for %s in %s" % (norm(loop.target), norm(loop.iter, 40)), "iterates the whole layout", "signals are built from %s, not from the whole layout list" % norm(loop.iter, 40))
    direct = [st for st in loop.body if any(x is sig_ctor for x in ast.walk(st))]
    uncond = len(direct) == 1 and isinstance(direct[0], (ast.Expr, ast.Assign)) and not any(isinstance(x, (ast.Continue, ast.Break, ast.Return)) for st in loop.body for x in ast.walk(st))
    rep.check(uncond, "R05.1", builder.file, builder.qual, norm(direct[0], 50) if direct else "construction", "one signal per leaf, unconditionally", "a leaf can be skipped or the loop left early: not every layout leaf gets a signal")
    appended = isinstance(direct[0], ast.Expr) and isinstance(direct[0].value, ast.Call) and isinstance(direct[0].value.func, ast.Attribute) and direct[0].value.func.attr == "append" if direct else False
    if not appended:
        rep.undecided("R05.1", builder.file, builder.qual, "signals.append(CanSignal(...))", "collection idiom not recognised")
    piece = loop.target.id if isinstance(loop.target, ast.Name) else piece_from_pair
    if piece is None:
        rep.undecided("R05.2", builder.file, builder.qual, "for %s in ..." % norm(loop.target, 30), "the loop variable that holds the layout leaf is not identified")
        return
    env = iteration_local(rep, "R05.2", builder, loop, sig_ctor)
    P = piece

    def A(pos, name):
        a = get_arg(sig_ctor, pos, name)
        return resolved(a, env) if a is not None else None

    def want_exact(arg, expect_txts, label, detail_bad):
        if arg is None:
            rep.violation("R05.2", builder.file, builder.qual, label, "attribute is not passed to the signal: " + detail_bad)
            return
        t = norm(arg, 200)
        rep.check(t in expect_txts, "R05.2", builder.file, builder.qual, "%s <- %s" % (label, t[:70]), "derives from the leaf's own attribute", detail_bad + " (is: %s)" % t[:80])

    # name
    a = A(0, "name")
    if a is not None:
        at = atoms_of(a)
        rep.check("%s.name" % P in at and not {x for x in at if x.startswith(P + ".") and x != "%s.name" % P}, "R05.2", builder.file, builder.qual, "name <- %s" % norm(a, 50), "leaf name", "signal name does not derive from the leaf's name alone")
    # start
    a = A(1, "start")
    names = {"%s.bitstart" % P: "S"}
    if a is None:
        rep.violation("R05.2", builder.file, builder.qual, "start", "start bit is not passed")
    elif isinstance(a, ast.IfExp):
        t = a.test
        ok_test = isinstance(t, ast.Compare) and norm(t.left) == "%s.endianess" % P and isinstance(t.comparators[0], ast.Constant) and len(t.ops) == 1
        little_when_true = None
        if ok_test:
            c = t.comparators[0].value
            if isinstance(t.ops[0], ast.NotEq) and c == "little":
                little_when_true = False
            elif isinstance(t.ops[0], ast.Eq) and c == "little":
                little_when_true = True
            elif isinstance(t.ops[0], ast.Eq) and c == "big":
                little_when_true = False
            elif isinstance(t.ops[0], ast.NotEq) and c == "big":
                little_when_true = True
        lb, lo = lin(a.body, names), lin(a.orelse, names)
        if little_when_true is None:
            rep.undecided("R05.2", builder.file, builder.qual, "start <- %s" % norm(a, 70), "byte-order test not recognised")
        else:
            little, other = (lb, lo) if little_when_true else (lo, lb)
            rep.check(lin_eq(little, {"S": 1}) is True and lin_eq(other, {"S": 1, "": 7}) is True, "R05.2", builder.file, builder.qual, "start <- %s" % norm(a, 70), "leaf start; +7 exactly on the non-little branch",
                      "start bit is %s for little-endian and %s otherwise; it must be the leaf's start, +7 only for big-endian" % (fmt_lin(little), fmt_lin(other)))
    else:
        bo = A(3, "byte_order")
        can_be_big = bo is not None and "big_endian" in norm(bo, 200)
        if can_be_big and lin_eq(lin(a, names), {"S": 1}) is True:
            rep.violation("R05.2", builder.file, builder.qual, "start <- %s" % norm(a, 50), "big-endian signals are emitted (byte_order can be 'big_endian') but the start bit is the leaf's LSB position for both byte orders: the DBC convention needs start+7 for a byte-aligned big-endian signal")
        else:
            rep.check(lin_eq(lin(a, names), {"S": 1}) is True, "R05.2", builder.file, builder.qual, "start <- %s" % norm(a, 50), "leaf start", "start bit is not the leaf's bit position")
    want_exact(A(2, "length"), {"%s.bitlength" % P}, "length", "signal width is not the leaf's width")
    # byte order
    a = A(3, "byte_order")
    if isinstance(a, ast.IfExp) and isinstance(a.test, ast.Compare) and norm(a.test.left) == "%s.endianess" % P and isinstance(a.body, ast.Constant) and isinstance(a.orelse, ast.Constant):
        c = a.test.comparators[0].value if isinstance(a.test.comparators[0], ast.Constant) else None
        eq = isinstance(a.test.ops[0], ast.Eq)
        m = {(True, "big"): (a.body.value, a.orelse.value), (False, "big"): (a.orelse.value, a.body.value), (True, "little"): (a.orelse.value, a.body.value), (False, "little"): (a.body.value, a.orelse.value)}.get((eq, c))
        rep.check(m == ("big_endian", "little_endian"), "R05.2", builder.file, builder.qual, "byte_order <- %s" % norm(a, 70), "big -> big_endian, else little_endian", "byte order mapping is wrong way round or tests the wrong value")
    else:
        rep.undecided("R05.2", builder.file, builder.qual, "byte_order <- %s" % (norm(a, 60) if a is not None else "-"), "mapping form not recognised")
    want_exact(A(4, "is_signed"), {"%s.type.is_signed()" % P}, "is_signed", "signedness is not taken from the leaf's type")
    want_exact(A(None, "unit"), {"%s.unit" % P}, "unit", "unit is not the leaf's unit")
    # float marker
    conv = A(7, "conversion")
    fl = None
    if conv is not None:
        for k in ast.walk(conv):
            if isinstance(k, ast.keyword) and k.arg == "is_float":
                fl = k.value
    if fl is None:
        rep.violation("R05.2", builder.file, builder.qual, "value type (integer/float)", "no argument of the signal depends on the leaf being f32/f64: float fields are described as integer signals")
    else:
        t = norm(fl, 120)
        okf = ("%s.type" % P in t) and (("FloatType" in t and "DoubleType" in t) or ("is_float()" in t and "is_double()" in t))
        rep.check(okf, "R05.2", builder.file, builder.qual, "is_float <- %s" % t[:70], "float marker from the leaf's type (f32 and f64)", "float marker does not cover both f32 and f64 of the leaf's own type")
    # multiplexing
    a = A(None, "multiplexer_signal")
    want_exact(a, {"%s.extended_data.get('mux_signal')" % P, "%s.extended_data['mux_signal']" % P}, "multiplexer_signal", "multiplexer signal is not the leaf's own mux_signal option")
    a = A(None, "multiplexer_ids")
    if a is not None:
        at = atoms_of(a)
        own = {x for x in at if x.startswith(P + ".")}
        rep.check(own == {"%s.extended_data['mux_count']" % P}, "R05.2", builder.file, builder.qual, "multiplexer_ids <- %s" % norm(a, 80), "from the leaf's own mux_count", "multiplexer ids do not derive from the leaf's own mux_count option alone (%s)" % sorted(at))
    else:
        rep.violation("R05.2", builder.file, builder.qual, "multiplexer_ids", "not passed")
    a = A(None, "is_multiplexer")
    if a is not None:
        defs = Defs(builder.node)
        t = norm(a, 100)
        okm = isinstance(a, ast.Compare) and isinstance(a.ops[0], ast.In) and norm(a.left) == "%s.name" % P
        src = None
        if okm and isinstance(a.comparators[0], ast.Name):
            vs = [v for k, v, st in defs.values(a.comparators[0].id) if v is not None]
            src = norm(vs[0], 200) if len(vs) == 1 else None
        rep.check(bool(okm and src and "extended_data.get('mux_signal')" in src and "for " in src and " in %s" % enc_param in src), "R05.2", builder.file, builder.qual, "is_multiplexer <- %s" % t[:60], "leaf is named as selector by some leaf of this layout", "multiplexer flag is not `leaf name in {mux_signal options of this layout}`")
    # dlc
    rets = [n.value for n in walk_local(builder.node) if isinstance(n, ast.Return) and n.value is not None]
    dlc_ok = False
    for r in rets:
        if isinstance(r, ast.Tuple) and len(r.elts) == 2 and isinstance(r.elts[1], ast.Name):
            dname = r.elts[1].id
            vals = [v for k, v, st in Defs(builder.node).values(dname) if v is not None and not (isinstance(v, ast.Constant))]
            for v in vals:
                v = resolved(v, env)
                form = dlc_form(v, P, enc_param)
                if form is True:
                    dlc_ok = True
                    rep.ok("R05.3", builder.file, builder.qual, "dlc <- %s" % norm(v, 60), "ceil((last leaf start + length) / 8)")
                elif form is False:
                    rep.violation("R05.3", builder.file, builder.qual, "dlc <- %s" % norm(v, 60), "message length is not ceil((start + length) / 8) of the last leaf: rounding the two terms separately under-counts a leaf that straddles a byte boundary")
                else:
                    rep.undecided("R05.3", builder.file, builder.qual, "dlc <- %s" % norm(v, 60), "length formula not recognised")
            # the dlc assignment must be unconditional in the loop (last leaf wins)
    # ---- R05.3 ---------------------------------------------------------------------
    r053(eng, rep, wd, builder)
    r054(eng, rep, wd)
    # one-shot iterators that are consulted repeatedly (mux selector set, node lists, ...)
    from ..dataflow import lazy_reuse
    for f_ in prog.functions.values():
        if f_.module.name.startswith("fcp_dbc"):
            for nm_, v_, how_ in lazy_reuse(f_.node):
                rep.violation("R05.2", f_.file, f_.qual, "%s = %s" % (nm_, norm(v_, 60)), "'%s' is a one-shot iterator (%s) but is %s: after the first use it is exhausted, so later signals are described from an empty set" % (nm_, type(v_).__name__ if not isinstance(v_, ast.Call) else norm(v_.func), how_))


def r054(eng, rep, wd: FuncInfo) -> None:
    """One file per bus: the record path is an injective function of the bus name."""
    prog, cg = eng.prog, eng.cg
    gens = [f for f in prog.functions.values() if f.module.name.startswith("fcp_dbc") and f.name == "generate" and f.cls is not None]
    if not gens:
        rep.undecided("R05.4", "-", "-", "fcp_dbc Generator.generate", "not found")
        return
    g = gens[0]
    found = False
    for n in ast.walk(g.node):
        if not isinstance(n, ast.Dict):
            continue
        keys = {k.value: v for k, v in zip(n.keys, n.values) if isinstance(k, ast.Constant)}
        if "path" not in keys or "contents" not in keys:
            continue
        found = True
        pexpr = keys["path"]
        # bus variable: the name paired with the contents variable in the iteration over write_dbc's result
        busv = None
        for c in ast.walk(g.node):
            tgt = c.target if isinstance(c, (ast.For, ast.comprehension)) else None
            if isinstance(tgt, ast.Tuple) and len(tgt.elts) == 2 and all(isinstance(e, ast.Name) for e in tgt.elts) and norm(keys["contents"]) == tgt.elts[1].id:
                busv = tgt.elts[0].id
        if busv is None:
            rep.undecided("R05.4", g.file, g.qual, "path <- %s" % norm(pexpr, 60), "bus variable of the (bus, contents) iteration not recognised")
            continue
        uses = [x for x in ast.walk(pexpr) if isinstance(x, ast.Name) and x.id == busv]
        if not uses:
            rep.violation("R05.4", g.file, g.qual, "path <- %s" % norm(pexpr, 60), "the file path does not depend on the bus: every bus is written to the same file (the last one wins)")
            continue
        lossy = [x for x in ast.walk(pexpr) if (isinstance(x, ast.Attribute) and x.attr in ("with_suffix", "with_name", "with_stem", "stem", "suffix", "replace", "split", "rsplit", "partition", "lower", "upper", "strip", "lstrip", "rstrip", "casefold", "title"))
                 or (isinstance(x, ast.Subscript) and any(isinstance(y, ast.Name) and y.id == busv for y in ast.walk(x.value)))]
        if lossy:
            what = sorted({("." + x.attr) if isinstance(x, ast.Attribute) else "slice" for x in lossy})
            rep.violation("R05.4", g.file, g.qual, "path <- %s" % norm(pexpr, 60), "the file name is derived from the bus name through %s, which maps different bus names to the same file (e.g. 'can0.body' and 'can0.chassis'): one bus file overwrites another" % ", ".join(what))
            continue
        # accepted injective forms: dir / (bus + const) , dir / f"{bus}const", os.path.join(dir, bus + const)
        def name_part(e):
            if isinstance(e, ast.BinOp) and isinstance(e.op, ast.Add):
                return (isinstance(e.left, ast.Name) and e.left.id == busv and isinstance(e.right, ast.Constant)) or (isinstance(e.right, ast.Name) and e.right.id == busv and isinstance(e.left, ast.Constant))
            if isinstance(e, ast.JoinedStr):
                fv = [v for v in e.values if isinstance(v, ast.FormattedValue)]
                return len(fv) == 1 and isinstance(fv[0].value, ast.Name) and fv[0].value.id == busv and fv[0].format_spec is None
            if isinstance(e, ast.Name):
                return e.id == busv
            return False
        ok = False
        if isinstance(pexpr, ast.BinOp) and isinstance(pexpr.op, ast.Div):
            ok = name_part(pexpr.right)
        elif isinstance(pexpr, ast.Call) and (dotted(pexpr.func) or "").endswith("join") and pexpr.args:
            ok = name_part(pexpr.args[-1])
        if ok:
            rep.ok("R05.4", g.file, g.qual, "path <- %s" % norm(pexpr, 60), "output directory / (bus name + constant suffix): one file per bus")
        else:
            rep.undecided("R05.4", g.file, g.qual, "path <- %s" % norm(pexpr, 60), "path form not recognised")
    if not found:
        rep.undecided("R05.4", g.file, g.qual, "file record", "no {'path':..., 'contents':...} record found in generate")


def dlc_form(v: ast.AST, P: str, enc: str):
    """True for ceil((X.bitstart + X.bitlength) / 8) or (X.bitstart + X.bitlength + 7) // 8; False for a sum of
    separately rounded terms; None otherwise."""
    def is_sum(e):
        if isinstance(e, ast.BinOp) and isinstance(e.op, ast.Add):
            t = {norm(e.left), norm(e.right)}
            for X in (P, "%s[-1]" % enc):
                if t == {"%s.bitstart" % X, "%s.bitlength" % X}:
                    return True
        return False
    if isinstance(v, ast.Call) and (dotted(v.func) or "").split(".")[-1] == "ceil" and v.args:
        a = v.args[0]
        if isinstance(a, ast.BinOp) and isinstance(a.op, ast.Div) and isinstance(a.right, ast.Constant) and a.right.value == 8 and is_sum(a.left):
            return True
    if isinstance(v, ast.Call) and dotted(v.func) in ("max", "int") and v.args:
        for a in v.args:
            r = dlc_form(a, P, enc)
            if r is not None:
                return r
    if isinstance(v, ast.BinOp) and isinstance(v.op, ast.FloorDiv) and isinstance(v.right, ast.Constant) and v.right.value == 8:
        l = v.left
        if isinstance(l, ast.BinOp) and isinstance(l.op, ast.Add) and isinstance(l.right, ast.Constant) and l.right.value == 7 and is_sum(l.left):
            return True
        if is_sum(l):
            return False
    if isinstance(v, ast.BinOp) and isinstance(v.op, ast.Add):
        t = norm(v, 200)
        if ("// 8" in t or "ceil(" in t) and ".bitstart" in t and ".bitlength" in t:
            return False
    return None


def r053(eng, rep, wd: FuncInfo, builder: FuncInfo) -> None:
    prog, cg = eng.prog, eng.cg
    loops = [n for n in walk_local(wd.node) if isinstance(n, ast.For)]
    main = None
    for lp in loops:
        if any(isinstance(c, ast.Call) and cg.site_of.get(id(c)) and builder.qual in cg.site_of[id(c)].callees for c in ast.walk(lp)):
            main = lp
    if main is None or not isinstance(main.target, ast.Name):
        rep.undecided("R05.3", wd.file, wd.qual, "loop over CAN bindings", "not found")
        return
    impl = main.target.id
    it = norm(main.iter, 80)
    rep.check(it in ("fcp.get_matching_impls('can')", "fcp.get_matching_impls(\"can\")") or it == "%s.get_matching_impls('can')" % wd.params[0].arg, "R05.3", wd.file, wd.qual, "for %s in %s" % (impl, it), "exactly the CAN bindings", "the DBC writer does not iterate exactly the bindings of protocol 'can'")
    env = iteration_local(rep, "R05.3", wd, main, main)
    uncond = body_unconditional_assigns(main)
    # layout of this binding
    enc_call = None
    for c in ast.walk(main):
        if isinstance(c, ast.Call) and cg.site_of.get(id(c)) and builder.qual in cg.site_of[id(c)].callees:
            enc_call = c
    enc_arg = enc_call.args[0] if enc_call is not None and enc_call.args else None
    if isinstance(enc_arg, ast.Name):
        vs = uncond.get(enc_arg.id, [])
        okl = len(vs) == 1 and isinstance(vs[0], ast.Call) and isinstance(vs[0].func, ast.Attribute) and vs[0].func.attr == "generate" and len(vs[0].args) == 1 and norm(vs[0].args[0]) == impl
        rep.check(okl, "R05.3", wd.file, wd.qual, "%s = %s" % (enc_arg.id, norm(vs[0], 50) if vs else "<not assigned unconditionally>"), "the layout is computed for this binding in this iteration",
                  "the layout given to the signal builder is not `encoder.generate(%s)` computed in this iteration: another binding's options (byte order, multiplexing) can be described" % impl)
    else:
        rep.undecided("R05.3", wd.file, wd.qual, "layout argument", "not a local name")
    # encoder unrolls arrays (scalar leaves)
    okun = any(isinstance(c, ast.Call) and isinstance(c.func, ast.Attribute) and c.func.attr == "with_unroll_arrays" and c.args and isinstance(c.args[0], ast.Constant) and c.args[0].value is True for c in ast.walk(wd.node))
    rep.check(okun, "R05.3", wd.file, wd.qual, "with_unroll_arrays(True)", "arrays are described element by element", "arrays are not unrolled: an array leaf is described as one wide signal")
    # message construction
    msg = None
    for cs in cg.sites_in(wd):
        if any(x.endswith("message.Message") for x in cs.externals):
            msg = cs.node
    if msg is None:
        rep.undecided("R05.3", wd.file, wd.qual, "CanMessage(...)", "not found")
        return
    direct = [st for st in main.body if any(x is msg for x in ast.walk(st))]
    rep.check(len(direct) == 1 and not isinstance(direct[0], (ast.If, ast.Try, ast.For, ast.While)), "R05.1", wd.file, wd.qual, "CanMessage(...) per binding", "one message per CAN binding", "a CAN binding can be skipped: not every binding gets a message")
    def M(name):
        a = get_arg(msg, None, name)
        return resolved(a, env) if a is not None else None
    fid = M("frame_id")
    rep.check(fid is not None and norm(fid) in ("%s.fields.get('id')" % impl, "%s.fields['id']" % impl), "R05.3", wd.file, wd.qual, "frame_id <- %s" % (norm(fid, 50) if fid is not None else "-"), "the binding's id", "frame id is not the binding's own 'id' field")
    nm = M("name")
    rep.check(nm is not None and norm(nm) == "%s.name" % impl, "R05.3", wd.file, wd.qual, "name <- %s" % (norm(nm, 40) if nm is not None else "-"), "the binding's name", "message name is not the binding's name")
    # length and signals come from the builder call of this iteration
    ln, sg = get_arg(msg, None, "length"), get_arg(msg, None, "signals")
    tgt_names = []
    for st in main.body:
        if isinstance(st, ast.Assign) and st.value is enc_call and isinstance(st.targets[0], ast.Tuple):
            tgt_names = [norm(x) for x in st.targets[0].elts]
    rec_name = None
    for st in main.body:
        if isinstance(st, (ast.Assign, ast.AnnAssign)) and st.value is enc_call and isinstance((st.targets[0] if isinstance(st, ast.Assign) else st.target), ast.Name):
            rec_name = (st.targets[0] if isinstance(st, ast.Assign) else st.target).id
    if rec_name is not None and not tgt_names and sg is not None and ln is not None:
        # the builder returns a record (named tuple / dataclass): the message takes two different components of THIS call's result
        def comp(e):
            if isinstance(e, ast.Attribute) and isinstance(e.value, ast.Name) and e.value.id == rec_name:
                return e.attr
            if isinstance(e, ast.Subscript) and isinstance(e.value, ast.Name) and e.value.id == rec_name and isinstance(e.slice, ast.Constant):
                return e.slice.value
            return None
        cs_, cl_ = comp(sg), comp(ln)
        # which component of the record is the signal list: the returned record's construction in the builder
        sig_field = None
        for r_ in walk_local(builder.node):
            if isinstance(r_, ast.Return) and isinstance(r_.value, ast.Call):
                rk = prog.resolve_expr_symbol(builder.module, builder, r_.value.func)
                order = prog.classes[rk[1]].field_order if rk and rk[0] == "class" and rk[1] in prog.classes else []
                lists = {n_.func.value.id for n_ in walk_local(builder.node) if isinstance(n_, ast.Call) and isinstance(n_.func, ast.Attribute) and n_.func.attr == "append" and isinstance(n_.func.value, ast.Name)
                         and n_.args and isinstance(n_.args[0], ast.Call) and (dotted(n_.args[0].func) or "").endswith("Signal")}
                for i_, a_ in enumerate(r_.value.args):
                    if isinstance(a_, ast.Name) and a_.id in lists and i_ < len(order):
                        sig_field = (order[i_], i_)
                for k_ in r_.value.keywords:
                    if isinstance(k_.value, ast.Name) and k_.value.id in lists and k_.arg in order:
                        sig_field = (k_.arg, order.index(k_.arg))
        if cs_ is None or cl_ is None or cs_ == cl_:
            rep.violation("R05.3", wd.file, wd.qual, "signals, length <- %s(...)" % builder.name, "the message's signals/length are not two components of the record just built for this binding")
        elif sig_field is None:
            rep.undecided("R05.3", wd.file, wd.qual, "signals <- %s.%s, length <- %s.%s" % (rec_name, cs_, rec_name, cl_), "which component of the builder's record holds the signal list is not recognised")
        else:
            rep.check(cs_ in sig_field and cl_ not in sig_field, "R05.3", wd.file, wd.qual, "signals <- %s.%s, length <- %s.%s" % (rec_name, cs_, rec_name, cl_), "this binding's own signals and byte length",
                      "the message's signals are not the signal-list component (%s) of the record built for this binding" % sig_field[0])
    else:
        rep.check(len(tgt_names) == 2 and sg is not None and ln is not None and norm(sg) == tgt_names[0] and norm(ln) == tgt_names[1], "R05.3", wd.file, wd.qual, "signals, length <- %s(...)" % builder.name, "this binding's own signals and byte length", "the message's signals/length are not the ones just built for this binding")
    # filed under the bus of the same binding
    holder = None
    pm = {}
    for n in ast.walk(main):
        for c in ast.iter_child_nodes(n):
            pm[id(c)] = n
    call = pm.get(id(msg))
    while call is not None and not (isinstance(call, ast.Call) and isinstance(call.func, ast.Attribute) and call.func.attr == "append"):
        call = pm.get(id(call))
    if call is None:
        rep.undecided("R05.3", wd.file, wd.qual, "filing of the message", "append idiom not recognised")
    else:
        tgt = call.func.value
        tgt_r = resolved(tgt, env) if isinstance(tgt, ast.Name) else tgt
        keys = [norm(x.slice) for x in ast.walk(tgt_r) if isinstance(x, ast.Subscript)]
        keys += [norm(x.args[0]) for x in ast.walk(tgt_r) if isinstance(x, ast.Call) and isinstance(x.func, ast.Attribute) and x.func.attr in ("setdefault", "get") and x.args]
        busvar = [k for k in keys if not k.startswith("'")]
        if not busvar:
            rep.undecided("R05.3", wd.file, wd.qual, "%s.append(...)" % norm(tgt, 40), "the per-bus container is not addressed by a key in a recognised form")
        else:
            b = busvar[0]
            vs = uncond.get(b, [])
            from_binding = lambda v: norm(v, 200).startswith(("%s.get_field('bus'" % impl, "%s.fields.get('bus'" % impl, "%s.fields['bus']" % impl))
            if len(vs) == 1 and from_binding(vs[0]):
                rep.ok("R05.3", wd.file, wd.qual, "%s.append(...)" % norm(tgt, 40), "filed under the bus read from the same binding in this iteration")
            elif len(vs) == 1 or b in conditional_assigns(main):
                rep.violation("R05.3", wd.file, wd.qual, "%s.append(...)" % norm(tgt, 40), "the message is not filed under the bus read from its own binding")
            else:
                rep.undecided("R05.3", wd.file, wd.qual, "%s.append(...)" % norm(tgt, 40), "the bus key %s is not bound in a recognised way" % b)
    # one result per bus: results come from iterating the bus-keyed mapping
    for n in ast.walk(wd.node):
        if isinstance(n, ast.Call) and (dotted(n.func) or "").split(".")[-1] == "groupby":
            a0 = n.args[0] if n.args else None
            srt = isinstance(a0, ast.Call) and dotted(a0.func) == "sorted"
            rep.check(srt, "R05.3", wd.file, wd.qual, norm(n, 60), "groupby over a sequence sorted by the same key", "itertools.groupby over an unsorted sequence yields one group per *run*: a bus whose bindings are not contiguous gets several descriptions (the later file overwrites the earlier)")
