"""C13 - schema loaded at run time from reflection behaves like the compiled one (narrow).

R13.1 tag agreement: type tags written by the Python type classes == tags dispatched by both chains of the
      run-time codec template
R13.2 decode handlers perform the canonical transfer sequence on the shared bit cursor
R13.3 encode handlers compose field encodings only through cursor-consistent primitives (no byte-padded
      private buffers concatenated with Insert)
R13.4 enum width is the canonical packed size (not a float log formula)
R13.5 field iteration follows the reflected order (shared with C15)
"""

from __future__ import annotations

import ast
import re
from typing import Dict, List, Optional, Tuple

from ..front_py import AnalysisError, walk_local, norm
from .dyn_codec import DynCodec, Undecided as DynUndecided

TPL = "plugins/fcp_cpp/fcp_cpp/dynamic.h.j2"


def function_bodies(src: str) -> Dict[str, str]:
    """name -> body text of C++ member functions named _Decode/_Encode/Decode*/Encode*"""
    out = {}
    for m in re.finditer(r"\b(_Decode|_Encode|Decode\w*|Encode\w*)\s*\(([^()]*)\)\s*(const)?\s*(override)?\s*\{", src):
        i = m.end()
        depth = 1
        j = i
        while j < len(src) and depth:
            if src[j] == "{":
                depth += 1
            elif src[j] == "}":
                depth -= 1
            j += 1
        out.setdefault(m.group(1), src[i:j - 1])
        out.setdefault(m.group(1) + "#params", m.group(2))
    return out


def delegate(body: str, fb: Dict[str, str]) -> str:
    """a handler that only forwards to another member function (`return Helper(...);`) is read as that function"""
    for _ in range(3):
        m = re.fullmatch(r"\s*return\s+(\w+)\s*\(([^;]*)\)\s*;\s*", body)
        if m and m.group(1) in fb and m.group(1) not in ("_Decode", "_Encode"):
            body = fb[m.group(1)]
        else:
            break
    return body


def grammar(body: str, side: str) -> str:
    """transfer sequence of a handler body, read left to right"""
    toks = []
    pos = 0
    pat = re.compile(r"(for\s*\([^)]*\)\s*\{)|(if\s*\(([^)]*)\)\s*\{)|(else\s*\{)|(\})|(buffer\.GetWord\(\s*([^,)]*)[^)]*\))|(buffer\.PushWord\(\s*([^,]*),\s*([^)]*)\))|(_(?:De|En)code\(\s*\*?type\.underlying_type)|(_(?:De|En)code\(\s*field\.type)|(buffer\.Insert\()|(Decode(?:Unsigned|Signed)\()")
    stack = []
    out = []
    cur = out
    for m in pat.finditer(body):
        if m.group(1):
            hdr = m.group(1)
            cnt = "fields" if "s.fields" in hdr else ("size(type)" if "type.size" in hdr else ("count" if re.search(r"<\s*(length|len)\b", hdr) or ": j" in hdr or ": data" in hdr else "?"))
            new = []
            cur.append(("loop", cnt, new))
            stack.append(cur)
            cur = new
        elif m.group(2):
            c = m.group(3)
            if "has_value()" in c or "== " in c and "end()" in c:
                # error-propagation / lookup guards: not part of the wire grammar
                new = []
                stack.append(cur)
                cur = new  # discard
                stack[-1].append(("skip", new))
            else:
                new = []
                cur.append(("if", "present" if re.search(r"is_value|is_some|!\s*j\.empty|j\.empty", c) else c.strip()[:20], new, "neg" if "j.empty()" in c and "!" not in c else "pos"))
                stack.append(cur)
                cur = new
        elif m.group(4):
            new = []
            cur.append(("else", new))
            stack.append(cur)
            cur = new
        elif m.group(5):
            if stack:
                cur = stack.pop()
        elif m.group(6):
            cur.append(("W", m.group(7).strip()))
        elif m.group(8):
            cur.append(("W", m.group(10).strip(), m.group(9).strip()))
        elif m.group(11) or m.group(12):
            cur.append(("rec",))
        elif m.group(13):
            cur.append(("insert",))
        elif m.group(14):
            cur.append(("W", "enumwidth"))

    def width(tok: str) -> str:
        """width token -> what it denotes (the local's definition), so that renaming a local is not a difference"""
        tok = tok.strip()
        if re.fullmatch(r"\d+", tok) or tok == "enumwidth":
            return tok
        if re.fullmatch(r"\w+\.\w+", tok):
            return "enumwidth" if re.search(r"enums\.at\(", body) else tok
        if re.fullmatch(r"\w+", tok):
            d = re.search(r"\b(?:auto|int|unsigned|std::\w+|u?int\d+_t|size_t)\s+%s\s*=\s*([^;]*);" % re.escape(tok), body)
            if d:
                ex = re.sub(r"\s+", "", d.group(1))
                if "std::stoi(type.name.substr(1))" in ex:
                    return "width(type)"
                if re.search(r"enums\.at\(", body):
                    return "enumwidth"
                return ex[:40]
        return tok

    def fmt(es):
        s = []
        for e in es:
            if e[0] == "W":
                s.append("W(%s)" % width(e[1]))
            elif e[0] == "loop":
                s.append("Loop(%s){%s}" % (e[1], fmt(e[2])))
            elif e[0] == "if":
                s.append("If(%s){%s}" % (e[1], fmt(e[2])))
            elif e[0] == "else":
                inner = fmt(e[1])
                if inner:
                    s.append("Else{%s}" % inner)
            elif e[0] == "rec":
                s.append("Rec")
            elif e[0] == "insert":
                s.append("Insert")
            elif e[0] == "skip":
                pass
        return " ".join(x for x in s if x)
    return fmt(out)


CANON_DEC = {
    "DecodeUnsigned": "W(width(type))", "DecodeSigned": "W(width(type))", "DecodeFloat32": "W(32)", "DecodeFloat64": "W(64)",
    "DecodeString": "W(32) Loop(count){W(8)}", "DecodeArray": "Loop(size(type)){Rec}", "DecodeDynamicArray": "W(32) Loop(count){Rec}",
    "DecodeOptional": "W(8) If(present){Rec}", "DecodeStruct": "Loop(fields){Rec}", "DecodeEnum": "W(enumwidth)",
}
CANON_ENC = {
    "EncodeUnsigned": "W(width(type))", "EncodeSigned": "W(width(type))", "EncodeFloat": "W(32)", "EncodeDouble": "W(64)",
    "EncodeString": "W(32) Loop(count){W(8)}", "EncodeArray": "Loop(size(type)){Rec}", "EncodeDynamicArray": "W(32) Loop(count){Rec}",
    "EncodeOptional": "If(present){W(8)} Else{W(8) Rec}", "EncodeStruct": "Loop(fields){Rec}", "EncodeEnum": "W(enumwidth)",
}


def run(eng, rep) -> None:
    prog = eng.prog
    rep.explanation = (
        "The run-time (reflection-loaded) C++ codec lives in a template that is almost entirely C++ text. It is instantiated abstractly "
        "(every {{expr}} becomes the literal 0; the template is never rendered) and parsed by clang together with a stand-in reflection.h; "
        "only LoadBinarySchema needs the generated reflection classes, every other member function gets a typed AST. From it the two "
        "dispatch chains (tag -> handler) and the handlers' transfer sequences are extracted (widths resolved to what they denote, forwarding "
        "handlers inlined) and compared with the canonical grammar that the static codec implements (C02/C03); the tags are compared with the "
        "tags the Python type classes put into reflection; the JSON value category of each decode handler (type of the returned expression) "
        "is compared with the static wrapper's. The composition rule forbids building byte-padded private buffers and concatenating them. "
        "The enum width formula and the loader's per-declaration computations are read at text level. If clang cannot produce the AST the "
        "text-level reading of the handlers (brace-matched bodies) is used instead."
    )
    rep.rule("R13.1", "Python type tags == tags of _Decode == tags of _Encode")
    rep.rule("R13.2", "decode handlers: canonical transfer sequence on the shared (by reference) bit cursor")
    rep.rule("R13.3", "encode handlers compose through the shared bit cursor (no private byte-padded buffers joined by Insert)")
    rep.rule("R13.4", "enum width = canonical packed size")
    rep.rule("R13.7", "object pools of the run-time codec are keyed by everything the pooled object is built from")
    rep.rule("R13.5", "struct handlers iterate the reflected field vector in order")
    rep.rule("R13.6", "decoded JSON has the same value category in both codecs: signed fields signed integers, unsigned fields unsigned, sequences always arrays (types from the clang AST of the static wrappers and of Buffer::GetWord)")
    rep.assume("enum naming, JSON conversions other than the value category (R13.6), LoadBinarySchema's reconstruction of type chains (its body does not type-check against the stand-in reflection.h and is read at text level only)")
    src = eng.read(*TPL.split("/"))
    # ---- R13.1 ---------------------------------------------------------------------
    tags = set()
    for c in prog.subclasses("fcp.specs.type.Type", strict=True):
        init = c.methods.get("__init__")
        if init is None:
            continue
        for n in walk_local(init.node):
            if isinstance(n, ast.Assign) and norm(n.targets[0]) == "self.type" and isinstance(n.value, ast.Constant):
                tags.add(n.value.value)
    rep.floor("R13.1", "type tags written by the Python type classes", len(tags), 10)
    fb = function_bodies(src)
    typed = False
    try:
        typed = typed_rules(eng, rep, tags)
    except (DynUndecided, AnalysisError) as e:
        rep.info("R13.2", TPL, "-", "typed reading (clang AST of the abstract instance)", "not available (%s); falling back to the text-level reading" % str(e)[:160])
    if not typed:
        text_rules(eng, rep, src, fb, tags)
    # ---- R13.4 ---------------------------------------------------------------------
    for h in ("DecodeEnum", "EncodeEnum"):
        body = fb.get(h, "")
        m = re.search(r"bitsize\s*=\s*([^;]*);", body)
        if not m:
            rep.undecided("R13.4", TPL, h, "enum width", "width expression not found")
            continue
        e = m.group(1).strip()
        canon_form = re.sub(r"\s+", "", e) in ("max_value<=1?1:std::floor(std::log2(max_value))+1", "max_value<2?1:std::floor(std::log2(max_value))+1")
        if canon_form:
            rep.ok("R13.4", TPL, h, "bitsize = %s" % e, "mirrors Enum.get_packed_size (1 bit for max <= 1, floor(log2(max)) + 1 otherwise)")
        elif "log2" in e or "log(" in e:
            rep.violation("R13.4", TPL, h, "bitsize = %s" % e, "enum width is a float log formula: ceil(log2(max+1)) is 0 for an enum whose largest value is 0, the static codec (get_packed_size) uses 1 bit")
        else:
            rep.undecided("R13.4", TPL, h, "bitsize = %s" % e, "width formula not recognised")
    if not loader_rules_typed(eng, rep):
        loader_rules(eng, rep, src)
    pool_rules(eng, rep)
    # ---- R13.5 ---------------------------------------------------------------------
    for h in (() if typed else ("DecodeStruct", "EncodeStruct")):
        body = fb.get(h, "")
        ok = bool(re.search(r"for\s*\(\s*const\s+auto&\s+field\s*:\s*s\.fields\s*\)", body)) and not re.search(r"std::(sort|reverse)|rbegin", body)
        rep.check(ok, "R13.5", TPL, h, "for (const auto& field: s.fields)", "reflected order", "struct handler does not iterate the reflected field vector front to back")


def json_rules(eng, rep, fb, chains) -> None:
    """R13.6: value category of the JSON produced by decode, static wrapper vs run-time handler."""
    from .cpp_codec import CppCodec
    try:
        cc = CppCodec(eng)
    except AnalysisError as e:
        rep.undecided("R13.6", TPL, "-", "clang AST of the static wrappers", str(e)[:160])
        return
    F2 = "plugins/fcp_cpp/fcp_cpp/decoders.h"
    static = {}
    for label, cls in cc.wrappers().items():
        cat = cc.json_category(cls)
        base = label.split("<")[0]
        if cat is not None:
            static.setdefault(base, set()).add(cat)
    gw = cc.getword_return() or ""
    gw_cat = "unsigned" if gw.startswith(("uint", "unsigned", "std::uint")) else ("signed" if gw else None)

    def dyn_category(h):
        body = fb.get(h)
        if body is None:
            return None, None
        body = delegate(body, fb)
        rets = re.findall(r"return\s+([^;]+);", body)
        rets = [r for r in rets if "nullopt" not in r]
        if not rets:
            return None, None
        r = rets[-1].strip()
        if re.search(r"static_cast<\s*(std::)?int(64|32|16|8)_t\s*>|\((std::)?int64_t\)", r):
            return "signed", r
        if re.search(r"static_cast<\s*(std::)?uint(64|32|16|8)_t\s*>", r):
            return "unsigned", r
        if re.match(r"buffer\.GetWord\(", r):
            return gw_cat, r
        m = re.match(r"^(\w+)$", r)
        if m:
            d = re.search(r"(std::vector<json>|json|std::u?int\d+_t|u?int\d+_t|auto|float|double)\s+%s\b\s*(=\s*([^;]*))?;" % re.escape(m.group(1)), body)
            if d:
                ty = d.group(1)
                if ty == "std::vector<json>":
                    return "array", "%s %s" % (ty, r)
                if ty in ("float", "double"):
                    return "float", "%s %s" % (ty, r)
                if re.match(r"(std::)?uint", ty):
                    return "unsigned", "%s %s" % (ty, r)
                if re.match(r"(std::)?int", ty):
                    return "signed", "%s %s" % (ty, r)
                if ty == "json":
                    init = (d.group(3) or "").replace(" ", "")
                    return ("array" if "json::array()" in init else "array-or-null"), "json %s" % r
        return None, r

    pairs = (("signed", "Signed"), ("unsigned", "Unsigned"), ("DynamicArray", "DynamicArray"), ("Array", "Array"))
    for tag, wrapper in pairs:
        h = chains["_Decode"].get(tag)
        if h is None:
            continue
        dc, expr = dyn_category(h)
        sc = static.get(wrapper)
        site = "tag %s: run-time %s returns `%s`; static %s::DecodeJson" % (tag, h, (expr or "?")[:50], wrapper)
        if dc is None or not sc or len(sc) != 1:
            rep.undecided("R13.6", TPL, h, site, "value category not determined (run-time: %s, static: %s)" % (dc, sorted(sc) if sc else None))
            continue
        sc1 = next(iter(sc))
        if wrapper == "Array" and {dc, sc1} <= {"array", "array-or-null"}:
            rep.ok("R13.6", TPL, h, site, "fixed-size arrays have at least one element: both produce arrays")
            continue
        if dc == sc1:
            rep.ok("R13.6", TPL, h, site, "both produce %s" % dc)
        elif {dc, sc1} == {"signed", "unsigned"}:
            rep.violation("R13.6", TPL if dc != wrapper.lower() else F2, h, "tag %s: run-time %s returns `%s` (%s)" % (tag, h, (expr or "?")[:50], dc),
                          "the run-time decoder hands json a %s 64-bit integer (Buffer::GetWord returns %s) where the static codec produces a %s value: %s" % (
                              dc, gw, sc1, "a negative field decodes as 2^64 - |v|" if dc == "unsigned" else "an unsigned field with the top bit set decodes as a negative number"))
        elif {dc, sc1} == {"array", "array-or-null"}:
            rep.violation("R13.6", F2 if sc1 == "array-or-null" else TPL, "%s::DecodeJson" % wrapper if sc1 == "array-or-null" else h, "empty sequence: %s produces null, %s produces []" % (("static", "run-time") if sc1 == "array-or-null" else ("run-time", "static")),
                          "one codec builds the JSON by push_back into a default-constructed json (null when there are no elements), the other returns a vector (always an array): an empty dynamic array decodes to different values")
        else:
            rep.undecided("R13.6", TPL, h, site, "categories differ (%s / %s) in a way not decided" % (dc, sc1))


def _block(src: str, i: int) -> int:
    """index just after the block whose '{' is at src[i]"""
    depth, j = 0, i
    while j < len(src):
        if src[j] == "{":
            depth += 1
        elif src[j] == "}":
            depth -= 1
            if depth == 0:
                return j + 1
        j += 1
    return len(src)


def pool_rules(eng, rep) -> None:
    """R13.7: a find-or-insert pool (`it = M.find(key); if (it == M.end()) M.emplace(key, make(args))`) hands out one object per key,
    so the key has to be computed from every parameter the object is built from."""
    try:
        dc = DynCodec(eng)
    except (DynUndecided, AnalysisError) as e:
        rep.undecided("R13.7", TPL, "-", "typed reading", str(e)[:120])
        return
    from ..front_clang import walk as cwalk
    n_pools = 0
    for mname, m in sorted(dc.methods.items()):
        parms = {p.get("name") for p in m.inner if p.kind == "ParmVarDecl"}
        body = dc.body(mname)
        locs = {v.get("name"): v for v in cwalk(body) if v.kind == "VarDecl"}

        def pnames(x, depth=0):
            out = set()
            for y in cwalk(x):
                if y.kind == "DeclRefExpr":
                    nm = y.get("referencedDecl", {}).get("name")
                    if nm in parms:
                        out.add(nm)
                    elif nm in locs and depth < 3 and locs[nm].inner:
                        out |= pnames(locs[nm].inner[-1], depth + 1)
            return out
        finds = []
        for c in cwalk(body):
            mc = dc.member_call(c)
            if mc and mc[0] == "find" and mc[2]:
                obj = mc[1]
                finds.append((obj.get("name") if obj is not None and obj.kind == "MemberExpr" else None, pnames(mc[2][0])))
        for c in cwalk(body):
            mc = dc.member_call(c)
            if not (mc and mc[0] in ("emplace", "insert", "try_emplace", "insert_or_assign") and len(mc[2]) >= 2):
                continue
            obj = mc[1]
            cont = obj.get("name") if obj is not None and obj.kind == "MemberExpr" else None
            if cont is None or not any(f[0] == cont for f in finds):
                continue
            n_pools += 1
            key_p, val_p = pnames(mc[2][0]), set()
            for a in mc[2][1:]:
                val_p |= pnames(a)
            missing = sorted(val_p - key_p)
            site = "%s: %s.find(key) / %s.%s(key, ...)" % (mname, cont, cont, mc[0])
            if missing:
                rep.violation("R13.7", TPL, mname, site, "the pooled object is built from %s but the key is computed from %s only: a later request that differs only in %s gets the object made for the first one (e.g. a second [T, n] / Optional[T] with another element type is decoded with the first one's element type)" % (sorted(val_p), sorted(key_p), missing))
            else:
                rep.ok("R13.7", TPL, mname, site, "key covers every parameter the object is built from (%s)" % sorted(val_p))
    rep.ok("R13.7", TPL, "-", "find-or-insert pools in the run-time codec", "%d found" % n_pools)


def loader_rules_typed(eng, rep) -> bool:
    """R13.4 (loader part) on the typed AST of the abstract instance: a local declared before one of the loader's top-level
    loops over declarations and assigned inside it (without being re-initialised first in the iteration) carries state from the
    declarations seen earlier.  -> True when decided on the typed AST."""
    try:
        dc = DynCodec(eng)
    except (DynUndecided, AnalysisError):
        return False
    if dc.errors or "LoadBinarySchema" not in dc.methods:
        return False
    from ..front_clang import walk as cwalk
    b = dc.body("LoadBinarySchema")
    top = [s_ for s_ in b.inner if s_.kind]
    declared = {}
    n_loops = 0
    for st in top:
        if st.kind == "DeclStmt":
            for v in st.inner:
                if v.kind == "VarDecl":
                    declared[v.get("id")] = v
        if st.kind not in ("CXXForRangeStmt", "ForStmt", "WhileStmt"):
            continue
        n_loops += 1
        body = st.inner[-1]
        stmts = [x for x in body.inner if x.kind] if body.kind == "CompoundStmt" else [body]
        for vid, v in declared.items():
            if "map<" in v.qtype or "vector<" in v.qtype or "Buffer" in v.qtype:
                continue  # containers the loader fills are its output, not per-declaration scratch state
            writes = []
            for i, s2 in enumerate(stmts):
                for y in cwalk(s2):
                    lhs = None
                    if y.kind in ("BinaryOperator", "CompoundAssignOperator") and str(y.get("opcode", "")).endswith("=") and y.get("opcode") not in ("==", "!=", "<=", ">=") and y.inner:
                        lhs = y.inner[0]
                    elif y.kind == "UnaryOperator" and y.get("opcode") in ("++", "--") and y.inner:
                        lhs = y.inner[0]
                    elif y.kind == "CXXOperatorCallExpr" and len(y.inner) == 3 and any(z.kind == "DeclRefExpr" and z.get("referencedDecl", {}).get("name") in ("operator=", "operator+=") for z in cwalk(y.inner[0])):
                        lhs = y.inner[1]
                    while lhs is not None and lhs.kind in ("ImplicitCastExpr", "ParenExpr") and lhs.inner:
                        lhs = lhs.inner[0]
                    if lhs is not None and lhs.kind == "DeclRefExpr" and lhs.get("referencedDecl", {}).get("id") == vid:
                        writes.append((i, s2, y))
            if not writes:
                continue
            first_i, first_st, first_w = writes[0]
            plain_reset = first_w.kind == "BinaryOperator" and first_w.get("opcode") == "=" and first_st is first_w \
                and not any(z.kind == "DeclRefExpr" and z.get("referencedDecl", {}).get("id") == vid for z in cwalk(first_w.inner[1]))
            if plain_reset and not any(z.kind == "DeclRefExpr" and z.get("referencedDecl", {}).get("id") == vid for s0 in stmts[:first_i] for z in cwalk(s0)):
                continue  # re-initialised at the start of every iteration
            rep.violation("R13.4", TPL, "LoadBinarySchema", "`%s` declared before a loop over declarations and assigned inside it" % v.get("name"),
                          "a value computed while loading one declaration is carried over to the following ones (never reset): e.g. a running maximum makes every later enum as wide as the widest enum seen so far, unlike the static codec")
    if n_loops:
        rep.ok("R13.4", TPL, "LoadBinarySchema", "%d top-level loops over declarations (typed AST)" % n_loops, "no scalar carried from one declaration to the next")
        return True
    return False


def loader_rules(eng, rep, src: str) -> None:
    """R13.4 (loader part): what LoadBinarySchema computes for one declaration depends on that declaration only.
    A scalar declared before one of the loader's top-level loops over declarations and assigned inside it carries
    state from the declarations seen earlier (e.g. a running maximum that is never reset)."""
    m = re.search(r"\bLoadBinarySchema\s*\([^)]*\)\s*\{", src)
    if not m:
        rep.undecided("R13.4", TPL, "LoadBinarySchema", "loader body", "not found")
        return
    end = _block(src, m.end() - 1)
    body = src[m.end():end - 1]
    # top-level range-for loops
    pos, depth, n_loops = 0, 0, 0
    class _M:  # minimal match-like record
        def __init__(self, start, end, a, b):
            self._s, self._e, self._g = start, end, (a, b)
        def start(self): return self._s
        def end(self): return self._e
        def group(self, i): return self._g[i - 1]
    loops = []
    for fm in re.finditer(r"\bfor\s*\(", body):
        i2, d = fm.end(), 1
        while i2 < len(body) and d:
            d += {"(": 1, ")": -1}.get(body[i2], 0)
            i2 += 1
        hdr = body[fm.end():i2 - 1]
        rest = re.match(r"\s*\{", body[i2:])
        if ";" in hdr or ":" not in hdr or not rest:
            continue
        a, b = hdr.split(":", 1)
        loops.append(_M(fm.start(), i2 + rest.end(), a, b))
    for lm in loops:
        # nesting depth of this loop inside the loader body
        pre = body[:lm.start()]
        if pre.count("{") - pre.count("}") != 0:
            continue
        n_loops += 1
        lend = _block(body, lm.end() - 1)
        lbody = body[lm.end():lend - 1]
        assigned = set(re.findall(r"(?<![\w.>])([A-Za-z_]\w*)\s*(?:[+\-|&*]?=(?!=)|\+\+|--)", lbody)) | set(re.findall(r"(?:\+\+|--)([A-Za-z_]\w*)", lbody))
        for v in sorted(assigned):
            decl_re = r"(?:auto|bool|int|unsigned|float|double|size_t|std::[\w:]+(?:<[^;=]*>)?|u?int\d+_t|const\s+auto&?)\s+%s\b" % re.escape(v)
            if re.search(decl_re, lbody):
                continue
            if not re.search(decl_re, pre):
                continue  # member / not a local of the loader
            rep.violation("R13.4", TPL, "LoadBinarySchema", "`%s` declared before `for (%s :%s)` and assigned inside it" % (v, lm.group(1).strip()[:30], lm.group(2).strip()[:40]),
                          "a value computed while loading one declaration is carried over to the following ones (never reset): e.g. a running maximum makes every later enum as wide as the widest enum seen so far, unlike the static codec")
    rep.ok("R13.4", TPL, "LoadBinarySchema", "%d top-level loops over declarations scanned" % n_loops, "no scalar carried from one declaration to the next") if n_loops else rep.undecided("R13.4", TPL, "LoadBinarySchema", "loops over declarations", "none recognised")


def text_rules(eng, rep, src, fb, tags) -> None:
    """Fallback: R13.1-R13.3 and R13.6 read from the template text (brace-matched bodies), used when clang cannot
    produce the typed AST of the abstract instance."""
    chains = {}
    for name in ("_Decode", "_Encode"):
        body = fb.get(name)
        if body is None:
            raise AnalysisError("anchor vanished: %s in dynamic.h.j2" % name)
        pairs = re.findall(r'type\.type\s*==\s*"(\w+)"\s*\)\s*\{\s*return\s+(\w+)\(', body)
        chains[name] = dict(pairs)
        got = set(chains[name])
        rep.check(got == tags, "R13.1", TPL, name, "tags %s" % sorted(got), "== tags written by Python", "dispatch chain and Python disagree on type tags: only in Python %s, only in C++ %s (a field of that kind throws 'Unknown type' or is never reached)" % (sorted(tags - got), sorted(got - tags)))
        rep.check("throw" in body, "R13.1", TPL, name, "fall-through throws", "unknown tag is an error", "unknown type tag is silently ignored")
    # ---- R13.2 ---------------------------------------------------------------------
    n = 0
    for tag, h in sorted(chains["_Decode"].items()):
        body = fb.get(h)
        if body is None:
            rep.violation("R13.2", TPL, h, "handler for tag %s" % tag, "dispatch names a handler that is not defined")
            continue
        params = fb.get(h + "#params", "")
        rep.check("Buffer&" in params.replace(" ", ""), "R13.2", TPL, h, "(…, Buffer& buffer)", "shares the caller's bit cursor", "decode handler takes the buffer by value: the caller's cursor does not advance")
        g = grammar(delegate(body, fb), "dec")
        want = CANON_DEC.get(h)
        n += 1
        if want is None:
            rep.undecided("R13.2", TPL, h, g, "no canonical grammar for this handler name")
        else:
            rep.check(g == want, "R13.2", TPL, h, g or "<nothing>", "= canonical %s" % want, "run-time decoder performs [%s], the static codec performs [%s]" % (g, want))
    rep.floor("R13.2", "decode handlers", n, 10)
    hs = chains["_Decode"].get("signed", "DecodeSigned")
    dsig = fb.get(hs, "")
    fwd = re.fullmatch(r"\s*return\s+(\w+)\s*\(([^;]*)\)\s*;\s*", dsig)
    if re.search(r"GetWord\(\s*\w+\s*,\s*true", dsig):
        rep.ok("R13.2", TPL, hs, "GetWord(size, true)", "sign extension requested")
    elif fwd and fwd.group(1) in fb:
        helper = fb[fwd.group(1)]
        hp = [x.strip().split()[-1].lstrip("&*") for x in fb.get(fwd.group(1) + "#params", "").split(",") if x.strip()]
        gm = re.search(r"GetWord\(\s*\w+\s*,\s*(\w+)", helper)
        args = [a.strip() for a in fwd.group(2).split(",")]
        if gm and gm.group(1) in hp and hp.index(gm.group(1)) < len(args):
            a = args[hp.index(gm.group(1))]
            rep.check(a == "true", "R13.2", TPL, hs, "%s(..., %s) -> GetWord(size, %s)" % (fwd.group(1), a, gm.group(1)), "sign extension requested through the helper", "signed fields are read without sign extension")
        else:
            rep.undecided("R13.2", TPL, hs, "sign extension", "handler forwards to %s; sign argument not resolved" % fwd.group(1))
    else:
        rep.violation("R13.2", TPL, hs, "GetWord(size, true)", "signed fields are read without sign extension")
    json_rules(eng, rep, fb, chains)
    # ---- R13.3 ---------------------------------------------------------------------
    for tag, h in sorted(chains["_Encode"].items()):
        body = fb.get(h)
        if body is None:
            rep.violation("R13.3", TPL, h, "handler for tag %s" % tag, "dispatch names a handler that is not defined")
            continue
        g = grammar(delegate(body, fb), "enc")
        if "Insert" in g:
            rep.violation("R13.3", TPL, "encode handler of tag %s" % tag, "buffer.Insert(encoded…)", "sub-encodings are produced in private, byte-padded buffers and concatenated with Insert (which appends whole bytes and does not use the bit cursor): a field whose width is not a multiple of 8 is padded to a byte boundary, unlike the static codec")
        else:
            want = CANON_ENC.get(h)
            g2 = g
            rep.check(want is None or g2 == want, "R13.3", TPL, h, g or "<nothing>", "= canonical %s" % want, "run-time encoder performs [%s], the static codec performs [%s]" % (g, want))


CANON_DEC_TAG = {
    "unsigned": "W(width(type))", "signed": "W(width(type))", "float": "W(32)", "double": "W(64)",
    "str": "W(32) Loop(count){W(8)}", "Array": "Loop(size(type)){Rec}", "DynamicArray": "W(32) Loop(count){Rec}",
    "Optional": "W(8) If(present){Rec}", "Struct": "Loop(fields){Rec}", "Enum": "W(enumwidth)",
}
CANON_ENC_TAG = {
    "unsigned": ("W(width(type))",), "signed": ("W(width(type))",), "float": ("W(32)",), "double": ("W(64)",),
    "str": ("W(32) Loop(count){W(8)}",), "Array": ("Loop(size(type)){Rec}",), "DynamicArray": ("W(32) Loop(count){Rec}",),
    "Optional": ("If(absent){W(8)} Else{W(8) Rec}", "If(present){W(8) Rec} Else{W(8)}"), "Struct": ("Loop(fields){Rec}",), "Enum": ("W(enumwidth)",),
}


def typed_rules(eng, rep, tags) -> bool:
    """R13.1-R13.3, R13.5, R13.6 from the clang AST of the abstract instance of the template (sa/rules/dyn_codec.py)."""
    from .cpp_codec import CppCodec
    dc = DynCodec(eng)
    if dc.foreign_errors:
        raise DynUndecided("abstract instance has errors outside the loader: %s" % dc.foreign_errors[0][-120:])
    rep.extra["dynamic_codec_methods"] = sorted(dc.methods)
    chains = {}
    for name in ("_Decode", "_Encode"):
        if name not in dc.methods:
            raise AnalysisError("anchor vanished: %s in dynamic.h.j2" % name)
        d = dc.dispatch(name)
        if d is None:
            rep.undecided("R13.1", TPL, name, "dispatch", "not an if / else-if chain on type.type returning one handler call per tag")
            chains[name] = {}
            continue
        chains[name], has_throw = d
        got = set(chains[name])
        rep.check(got == tags, "R13.1", TPL, name, "tags %s" % sorted(got), "== tags written by Python", "dispatch chain and Python disagree on type tags: only in Python %s, only in C++ %s (a field of that kind throws 'Unknown type' or is never reached)" % (sorted(tags - got), sorted(got - tags)))
        rep.check(has_throw, "R13.1", TPL, name, "fall-through throws", "unknown tag is an error", "unknown type tag is silently ignored")
    # ---- R13.2 decode handlers
    n = 0
    for tag, h in sorted(chains["_Decode"].items()):
        ps = dc.params(h)
        bufp = [p for p in ps if "Buffer" in p.qtype]
        rep.check(bool(bufp) and "&" in bufp[0].qtype, "R13.2", TPL, h, "(…, Buffer& buffer)", "shares the caller's bit cursor", "decode handler takes the buffer by value: the caller's cursor does not advance")
        n += 1
        try:
            g = dc.grammar(h)
        except DynUndecided as e:
            rep.undecided("R13.2", TPL, h, "handler for tag %s" % tag, str(e))
            continue
        want = CANON_DEC_TAG.get(tag)
        if want is None:
            rep.undecided("R13.2", TPL, h, g, "no canonical grammar for tag %s" % tag)
        elif "?" in g:
            rep.undecided("R13.2", TPL, h, g, "a width or count is not in a recognised form")
        else:
            rep.check(g == want, "R13.2", TPL, h, g or "<nothing>", "= canonical %s" % want, "run-time decoder performs [%s], the static codec performs [%s]" % (g, want))
    rep.floor("R13.2", "decode handlers", n, 10)
    for tag, want in (("signed", True), ("unsigned", False)):
        h = chains["_Decode"].get(tag)
        if h is None:
            continue
        sr = dc.sign_requested(h)
        if sr is None:
            rep.undecided("R13.2", TPL, h, "GetWord(size, sign)", "sign argument not resolved")
        elif tag == "signed":
            rep.check(sr is True, "R13.2", TPL, h, "GetWord(size, true)", "sign extension requested", "signed fields are read without sign extension")
        else:
            rep.check(sr is False, "R13.2", TPL, h, "GetWord(size)", "no sign extension for unsigned fields", "unsigned fields are read with sign extension: a value with the top bit set comes back with all higher bits set")
    # ---- R13.6 JSON value category
    try:
        cc = CppCodec(eng)
    except AnalysisError as e:
        rep.undecided("R13.6", TPL, "-", "clang AST of the static wrappers", str(e)[:160])
        cc = None
    if cc is not None:
        F2 = "plugins/fcp_cpp/fcp_cpp/decoders.h"
        static = {}
        for label, cls in cc.wrappers().items():
            cat = cc.json_category(cls)
            if cat is not None:
                static.setdefault(label.split("<")[0], set()).add(cat)
        gw = cc.getword_return() or ""
        for tag, wrapper in (("signed", "Signed"), ("unsigned", "Unsigned"), ("DynamicArray", "DynamicArray"), ("Array", "Array")):
            h = chains["_Decode"].get(tag)
            if h is None:
                continue
            dcat, expr = dc.json_category(h)
            sc = static.get(wrapper)
            site = "tag %s: run-time %s returns %s; static %s::DecodeJson" % (tag, h, expr, wrapper)
            if dcat is None or not sc or len(sc) != 1:
                rep.undecided("R13.6", TPL, h, site, "value category not determined (run-time: %s, static: %s)" % (dcat, sorted(sc) if sc else None))
                continue
            sc1 = next(iter(sc))
            if wrapper == "Array" and {dcat, sc1} <= {"array", "array-or-null"}:
                rep.ok("R13.6", TPL, h, site, "fixed-size arrays have at least one element: both produce arrays")
            elif dcat == sc1:
                rep.ok("R13.6", TPL, h, site, "both produce %s" % dcat)
            elif {dcat, sc1} == {"signed", "unsigned"}:
                rep.violation("R13.6", TPL, h, "tag %s: run-time %s returns %s (%s)" % (tag, h, expr, dcat),
                              "the run-time decoder hands json a %s 64-bit integer (Buffer::GetWord returns %s) where the static codec produces a %s value: %s" % (
                                  dcat, gw, sc1, "a negative field decodes as 2^64 - |v|" if dcat == "unsigned" else "an unsigned field with the top bit set decodes as a negative number"))
            elif {dcat, sc1} == {"array", "array-or-null"}:
                rep.violation("R13.6", F2 if sc1 == "array-or-null" else TPL, "%s::DecodeJson" % wrapper if sc1 == "array-or-null" else h, "empty sequence: %s produces null, %s produces []" % (("static", "run-time") if sc1 == "array-or-null" else ("run-time", "static")),
                              "one codec builds the JSON by push_back into a default-constructed json (null when there are no elements), the other returns a vector (always an array): an empty dynamic array decodes to different values")
            else:
                rep.undecided("R13.6", TPL, h, site, "categories differ (%s / %s) in a way not decided" % (dcat, sc1))
    # ---- R13.3 encode handlers
    for tag, h in sorted(chains["_Encode"].items()):
        try:
            g = dc.grammar(h)
        except DynUndecided as e:
            rep.undecided("R13.3", TPL, h, "handler for tag %s" % tag, str(e))
            continue
        if "Insert" in g:
            rep.violation("R13.3", TPL, "encode handler of tag %s" % tag, "buffer.Insert(encoded…)", "(%s) sub-encodings are produced in private, byte-padded buffers and concatenated with Insert (which appends whole bytes and does not use the bit cursor): a field whose width is not a multiple of 8 is padded to a byte boundary, unlike the static codec" % h)
            continue
        want = CANON_ENC_TAG.get(tag)
        if want is None:
            rep.undecided("R13.3", TPL, h, g, "no canonical grammar for tag %s" % tag)
        elif "?" in g:
            rep.undecided("R13.3", TPL, h, g, "a width or count is not in a recognised form")
        else:
            rep.check(g in want, "R13.3", TPL, h, g or "<nothing>", "= canonical %s" % want[0], "run-time encoder performs [%s], the static codec performs [%s]" % (g, want[0]))
    # ---- R13.5 reflected order
    from ..front_clang import walk as cwalk
    for side in ("_Decode", "_Encode"):
        h = chains[side].get("Struct")
        if h is None or dc.body(h) is None:
            continue
        loops = [y for y in cwalk(dc.body(h)) if y.kind == "CXXForRangeStmt"]
        fl = [l for l in loops if any(z.kind == "MemberExpr" and z.get("name") == "fields" for d_ in l.inner if d_.kind == "DeclStmt" for z in cwalk(d_))]
        reorder = [y for y in cwalk(dc.body(h)) if y.kind == "DeclRefExpr" and y.get("referencedDecl", {}).get("name") in ("sort", "stable_sort", "reverse", "rbegin", "rend", "reverse_copy")]
        if fl and not reorder:
            rep.ok("R13.5", TPL, h, "for (const auto& field: s.fields)", "reflected order")
        elif reorder:
            rep.violation("R13.5", TPL, h, "for (const auto& field: s.fields)", "struct handler does not iterate the reflected field vector front to back")
        else:
            rep.undecided("R13.5", TPL, h, "iteration over the struct's fields", "no range-for over the reflected field vector found")
    return True
