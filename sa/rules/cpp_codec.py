"""Static C++ codec (buffer.h / decoders.h) through clang: effect grammar of the wrapper classes'
Encode/Decode (read off requested instantiations), bit mapping and cursor discipline of fcp::Buffer,
and the wrapper-interface parametricity compile witness.  Parse/type-check only; nothing is linked or run."""

from __future__ import annotations

import os
import re
from typing import Dict, List, Optional, Tuple

from ..front_py import AnalysisError
from ..front_clang import cxx_ast, cxx_syntax_check, walk, parent_map, CNode, int_width

HDR_INCLUDES = """#include <vector>
#include <cstdint>
#include <array>
#include <string>
#include <sstream>
#include <optional>
#include <cstring>
#include <cmath>
#include <limits>
#include <stdexcept>
#include <algorithm>
#include <map>
#include <nlohmann/json.hpp>
#include "buffer.h"
#include "decoders.h"
"""

INST_TU = HDR_INCLUDES + """
namespace fcp {
using Elem = Unsigned<std::uint8_t, 3>;
// probes: whatever class a wrapper name denotes today (a class template, an alias of one, ...) is found through these
using P_U3 = Unsigned<std::uint8_t, 3>;
using P_S12 = Signed<std::int16_t, 12>;
using P_F = Float;
using P_D = Double;
using P_STR = String;
using P_ARR = Array<Elem, 4>;
using P_DYN = DynamicArray<Elem>;
using P_OPT = Optional<Elem>;
void fcpverif_inst(Buffer& b) {
    Unsigned<std::uint8_t, 3> u{}; u.Encode(b); (void)Unsigned<std::uint8_t, 3>::Decode(b);
    Signed<std::int16_t, 12> s{}; s.Encode(b); (void)Signed<std::int16_t, 12>::Decode(b);
    Float f{}; f.Encode(b); (void)Float::Decode(b);
    Double d{}; d.Encode(b); (void)Double::Decode(b);
    String st{}; st.Encode(b); (void)String::Decode(b);
    Array<Elem, 4> a{}; a.Encode(b); (void)Array<Elem, 4>::Decode(b);
    DynamicArray<Elem> da{}; da.Encode(b); (void)DynamicArray<Elem>::Decode(b);
    Optional<Elem> o{}; o.Encode(b); (void)Optional<Elem>::Decode(b);
    (void)u.DecodeJson(); (void)s.DecodeJson(); (void)f.DecodeJson(); (void)d.DecodeJson(); (void)st.DecodeJson();
    (void)a.DecodeJson(); (void)da.DecodeJson(); (void)o.DecodeJson();
}
}
"""

WITNESS_TU = HDR_INCLUDES + """
namespace fcp {
using json = nlohmann::json;
// An element type offering exactly the interface the generated struct template relies on, and nothing
// else (in particular no conversion from int).
struct Elem {
    Elem();
    Elem(const Elem&);
    Elem& operator=(const Elem&);
    static Elem FromJson(json j);
    static Elem Decode(Buffer& buffer, Endianess endianess = Endianess::Little);
    json DecodeJson() const;
    void Encode(Buffer& buffer, Endianess endianess = Endianess::Little) const;
    std::string ToString(std::string prefix = "") const;
    bool operator==(const Elem&) const;
};
template <typename W> void use(Buffer& b, json j) {
    W w{};
    W c{w};
    auto d = W::Decode(b, Endianess::Little);
    auto f = W::FromJson(j);
    d.Encode(b, Endianess::Little);
    (void)f.DecodeJson();
    (void)d.ToString("");
    (void)(c == d);
}
void fcpverif_witness(Buffer& b, json j) {
    use<Array<Elem, 2>>(b, j);
    use<DynamicArray<Elem>>(b, j);
    use<Optional<Elem>>(b, j);
    use<Array<Array<Elem, 2>, 3>>(b, j);
    use<Optional<DynamicArray<Elem>>>(b, j);
    use<DynamicArray<Optional<Elem>>>(b, j);
    use<Array<Unsigned<std::uint8_t, 3>, 2>>(b, j);
    use<Array<String, 2>>(b, j);
}
}
"""

CANON_CPP = {
    "Unsigned<3>": "W(3)",
    "Signed<12>": "W(12)",
    "Float": "W(32)",
    "Double": "W(64)",
    "String": "W(32)=count Loop(count){W(8)}",
    "Array<Elem,4>": "Loop(4){Rec(elem)}",
    "DynamicArray<Elem>": "W(32)=count Loop(count){Rec(elem)}",
    "Optional<Elem>": "W(8)=flag If(present){Rec(elem)}",
}


class CppCodec:
    def __init__(self, eng):
        self.eng = eng
        self.hdir = eng.path("plugins", "fcp_cpp", "fcp_cpp")
        for h in ("buffer.h", "decoders.h"):
            if not os.path.exists(os.path.join(self.hdir, h)):
                raise AnalysisError("anchor vanished: %s" % h)
        self.decls = cxx_ast(INST_TU, [self.hdir], filt="fcp::")
        self.by_id: Dict[str, CNode] = {}
        self.parent: Dict[int, CNode] = {}
        for d in self.decls:
            for n in walk(d):
                if "id" in n:
                    self.by_id.setdefault(n["id"], n)
                for c in n.inner:
                    self.parent[id(c)] = n
        self.buffer = None
        for d in self.decls:
            if d.kind == "CXXRecordDecl" and d.get("name") == "Buffer" and d.inner:
                self.buffer = d
        if self.buffer is None:
            raise AnalysisError("anchor vanished: class fcp::Buffer")

    # ------------------------------------------------------------------ lookup helpers
    def class_of(self, n: CNode) -> Optional[CNode]:
        cur = n
        while id(cur) in self.parent:
            cur = self.parent[id(cur)]
            if cur.kind in ("CXXRecordDecl", "ClassTemplateSpecializationDecl"):
                return cur
        return None

    def spec_label(self, c: CNode) -> str:
        name = c.get("name", "?")
        if c.kind == "ClassTemplateSpecializationDecl":
            targs = [x for x in c.inner if x.kind == "TemplateArgument"]
            parts = []
            for t in targs:
                if "value" in t:
                    parts.append(str(t["value"]))
                else:
                    parts.append(t.get("type", {}).get("qualType", "?"))
            return "%s<%s>" % (name, ",".join(parts))
        return name

    PROBES = {"P_U3": "Unsigned<unsigned char,3>", "P_S12": "Signed<short,12>", "P_F": "Float", "P_D": "Double", "P_STR": "String",
              "P_ARR": "Array<fcp::Unsigned<unsigned char, 3>,4>", "P_DYN": "DynamicArray<fcp::Unsigned<unsigned char, 3>>", "P_OPT": "Optional<fcp::Unsigned<unsigned char, 3>>"}

    def wrappers(self) -> Dict[str, CNode]:
        out = {}
        # through the probe aliases: robust against the wrapper being an alias of another template
        for d in self.decls:
            if d.kind == "TypeAliasDecl" and d.get("name") in self.PROBES:
                recs = [x for x in walk(d) if x.kind == "RecordType" and isinstance(x.get("decl"), dict)]
                if recs:
                    node = self.by_id.get(recs[-1]["decl"].get("id"))
                    if node is not None and node.inner:
                        out[self.PROBES[d["name"]]] = node
        if len(out) == len(self.PROBES):
            return out
        for d in self.decls:
            if d.kind == "ClassTemplateDecl":
                for sp in d.inner:
                    if sp.kind == "ClassTemplateSpecializationDecl":
                        out[self.spec_label(sp)] = sp
            elif d.kind == "CXXRecordDecl" and d.get("name") in ("Float", "Double", "String") and d.inner:
                out[d["name"]] = d
        return out

    def method(self, cls: CNode, name: str, nparams: Optional[int] = None) -> Optional[CNode]:
        for m in cls.inner:
            if m.kind == "CXXMethodDecl" and m.get("name") == name and any(c.kind == "CompoundStmt" for c in m.inner):
                ps = [c for c in m.inner if c.kind == "ParmVarDecl"]
                if nparams is None or len(ps) == nparams:
                    # for Encode take the (Buffer&, Endianess) overload
                    if name == "Encode" and not (ps and "Buffer" in ps[0].qtype):
                        continue
                    return m
        return None

    # ------------------------------------------------------------------ JSON value category of a wrapper
    def json_category(self, cls: CNode) -> Optional[str]:
        """What <wrapper>::DecodeJson returns, by the type of the returned expression before it is converted
        to json: 'signed' | 'unsigned' | 'float' | 'array' (a json that is always an array) |
        'array-or-null' (a default-constructed json that only becomes an array by push_back) | None."""
        m = self.method(cls, "DecodeJson")
        if m is None:
            return None
        body = [c for c in m.inner if c.kind == "CompoundStmt"][0]
        rets = [x for x in walk(body) if x.kind == "ReturnStmt" and x.inner]
        if not rets:
            return None
        e = rets[-1].inner[0]
        # strip conversions to json
        cur = e
        while cur.kind in ("ExprWithCleanups", "CXXConstructExpr", "MaterializeTemporaryExpr", "CXXBindTemporaryExpr", "ImplicitCastExpr", "CXXFunctionalCastExpr", "ParenExpr") and cur.inner:
            if cur.kind == "ImplicitCastExpr" and cur.get("castKind") in ("LValueToRValue", "NoOp") and "json" not in cur.qtype:
                break
            if "json" not in cur.qtype and cur.kind not in ("ExprWithCleanups", "MaterializeTemporaryExpr"):
                break
            cur = cur.inner[-1] if cur.kind != "CXXConstructExpr" else cur.inner[0]
        t = (cur.desugared or cur.qtype).replace("const ", "").strip()
        if "json" in cur.qtype:
            # a json-typed local: how was it initialised?
            ref = next((x for x in walk(cur) if x.kind == "DeclRefExpr"), None)
            decl = self.by_id.get(ref.get("referencedDecl", {}).get("id", "")) if ref is not None else None
            if decl is not None:
                init_calls = [x for x in walk(decl) if x.kind in ("CallExpr", "CXXMemberCallExpr") and any(y.kind == "DeclRefExpr" and y.get("referencedDecl", {}).get("name") in ("array", "object") for y in walk(x))]
                pushes = [x for x in walk(body) if x.kind == "CXXMemberCallExpr" and any(y.kind == "MemberExpr" and y.get("name") == "push_back" for y in walk(x.inner[0]))]
                if init_calls:
                    return "array"
                if pushes:
                    return "array-or-null"
            return "json"
        if t in ("float", "double"):
            return "float"
        w = int_width(t)
        if w is not None:
            return "unsigned" if t.startswith(("uint", "unsigned")) or t in ("bool", "_Bool") else "signed"
        if "vector" in t:
            return "array"
        return None

    def getword_return(self) -> Optional[str]:
        for m in self.buffer.inner:
            if m.kind == "CXXMethodDecl" and m.get("name") == "GetWord":
                q = m.qtype
                return q.split("(")[0].strip()
        return None

    # ------------------------------------------------------------------ effect grammar
    def int_value(self, n: CNode, depth: int = 0) -> Optional[int]:
        for x in walk(n):
            if x.kind == "IntegerLiteral" and "value" in x:
                try:
                    return int(x["value"])
                except ValueError:
                    return None
            if x.kind == "DeclRefExpr" and depth < 3:
                rd = x.get("referencedDecl", {})
                if rd.get("kind") == "VarDecl":
                    d = self.by_id.get(rd.get("id", ""))
                    if d is not None and d.inner:
                        v = self.int_value(d, depth + 1)
                        if v is not None:
                            return v
        return None

    def effects(self, m: CNode, elem_label: Optional[str]) -> List:
        body = [c for c in m.inner if c.kind == "CompoundStmt"][0]
        return self._stmts(body.inner, elem_label, {})

    def _stmts(self, stmts, elem, env) -> List:
        out = []
        stmts = [s_ for s_ in stmts if s_.kind]
        for i, st in enumerate(stmts):
            if st.kind == "IfStmt" and len(st.inner) == 2 and any(y.kind == "ReturnStmt" for y in walk(st.inner[1])) and i + 1 < len(stmts):
                # early return: `if (c) { ...; return x; }  rest`  ==  if (c) {...} else { rest }
                c = self._cond(st.inner[0], env)
                pre = self._expr(st.inner[0], elem, env)
                t = self._stmt(st.inner[1], elem, env)
                rest = self._stmts(stmts[i + 1:], elem, env)
                out += pre
                if t:
                    out.append(("if", c, t))
                if rest:
                    out.append(("if", ("not", c), rest))
                return out
            out += self._stmt(st, elem, env)
        return out

    def _stmt(self, st: CNode, elem, env) -> List:
        k = st.kind
        if k == "CompoundStmt":
            return self._stmts(st.inner, elem, env)
        if k == "ForStmt":
            # inner: init, (cond var), cond, inc, body
            parts = st.inner
            cond = parts[2] if len(parts) > 2 else None
            body = parts[-1]
            pre = self._stmt(parts[0], elem, env) if parts and parts[0].kind == "DeclStmt" else []
            count = self._loop_count(cond, env)
            if count == "?" and cond is not None and len(parts) > 3:
                # count-down form: for (auto left = <word>; left > 0; left--)
                c0 = cond
                while c0.kind in ("ImplicitCastExpr", "ParenExpr", "ExprWithCleanups") and c0.inner:
                    c0 = c0.inner[0]
                inc = parts[3]
                if c0.kind == "BinaryOperator" and c0.get("opcode") in (">", "!=") and self.int_value(c0.inner[1]) == 0 and inc.kind == "UnaryOperator" and inc.get("opcode") == "--":
                    nm = next((y.get("referencedDecl", {}).get("name") for y in walk(c0.inner[0]) if y.kind == "DeclRefExpr"), None)
                    nm2 = next((y.get("referencedDecl", {}).get("name") for y in walk(inc) if y.kind == "DeclRefExpr"), None)
                    if nm is not None and nm == nm2 and nm in env:
                        count = ("clamped", nm, env[nm][2]) if env[nm][0] == "changed" else ("var", nm)
            return pre + [("loop", count, self._stmt(body, elem, env))]
        if k == "CXXForRangeStmt":
            body = st.inner[-1]
            # a range over a std::array<T, N> runs N times whatever it holds
            for x in walk(st):
                if x.kind in ("VarDecl",) and str(x.get("name", "")).startswith("__range"):
                    m_ = re.search(r"array<.*,\s*(\d+)[uUlL]*\s*>\s*(const)?\s*&?\s*$", x.qtype or "")
                    if m_:
                        return [("loop", int(m_.group(1)), self._stmt(body, elem, env))]
            rng = " ".join(x.get("name", "") for x in walk(st) if x.kind == "MemberExpr")
            return [("loop", ("range", "data_" if "data_" in rng or "GetData" in rng else rng[:20]), self._stmt(body, elem, env))]
        if k == "IfStmt":
            cond = st.inner[0]
            then = st.inner[1] if len(st.inner) > 1 else None
            els = st.inner[2] if len(st.inner) > 2 else None
            c = self._cond(cond, env)
            effs = []
            pre = self._expr(cond, elem, env)
            t = self._stmt(then, elem, env) if then is not None else []
            e = self._stmt(els, elem, env) if els is not None else []
            if t:
                effs.append(("if", c, t))
            if e:
                effs.append(("if", ("not", c), e))
            return pre + effs
        if k == "DeclStmt":
            out = []
            for vd in st.inner:
                if vd.kind == "VarDecl":
                    inits = [c for c in vd.inner if c.kind not in ("TemplateArgument",)]
                    effs = []
                    for i_ in inits:
                        effs += self._expr(i_, elem, env)
                    if effs and effs[-1][0] == "W":
                        env[vd.get("name")] = effs[-1]
                        effs[-1] = ("W", effs[-1][1], ("var", vd.get("name")))
                    elif not effs and any(y.kind == "MemberExpr" and y.get("name") == "has_value" for i_ in inits for y in walk(i_)):
                        env[vd.get("name")] = ("some",)
                    out += effs
            return out
        if k == "ReturnStmt":
            return self._expr(st, elem, env)
        core = st
        while core.kind in ("ExprWithCleanups", "ImplicitCastExpr", "ParenExpr") and core.inner:
            core = core.inner[0]
        if core.kind in ("BinaryOperator", "CompoundAssignOperator") and str(core.get("opcode", "")).endswith("=") and core.get("opcode") not in ("==", "!=", "<=", ">=") and core.inner:
            lhs = core.inner[0]
            nm = lhs.get("referencedDecl", {}).get("name") if lhs.kind == "DeclRefExpr" else None
            if nm in env and isinstance(env[nm], tuple) and env[nm][0] == "W":
                # a decoded word that is used as a count / flag later is changed before that use
                effs = self._expr(core.inner[1], elem, env)
                env[nm] = ("changed", nm, self._clamp_unit(core))
                return effs
        return self._expr(st, elem, env)

    def _clamp_unit(self, asg: CNode) -> str:
        """`n = std::min(n, buffer.M())`: the unit of M's result - 'bytes' when M returns a difference of the store's size() and the
        cursor shifted/divided down to bytes, 'bits' when it works on the cursor itself; '?' otherwise."""
        rhs = asg.inner[1]
        calls = [y for y in walk(rhs) if y.kind in ("CallExpr",) and any(z.kind == "DeclRefExpr" and z.get("referencedDecl", {}).get("name") == "min" for z in walk(y.inner[0]))]
        if asg.get("opcode") != "=" or not calls:
            return "?"
        for y in walk(rhs):
            if y.kind == "MemberExpr" and y.get("referencedMemberDecl"):
                m = self.by_id.get(y["referencedMemberDecl"])
                if m is not None and m.kind == "CXXMethodDecl" and self.class_of(m) is not None and self.class_of(m).get("name") == "Buffer":
                    names = [z.get("name") for z in walk(m) if z.kind == "MemberExpr"]
                    down = any(z.kind == "BinaryOperator" and ((z.get("opcode") == ">>" and self.int_value(z.inner[1]) == 3) or (z.get("opcode") == "/" and self.int_value(z.inner[1]) == 8)) for z in walk(m))
                    up = any(z.kind == "BinaryOperator" and ((z.get("opcode") == "<<" and self.int_value(z.inner[1]) == 3) or (z.get("opcode") == "*" and 8 in (self.int_value(z.inner[0]), self.int_value(z.inner[1])))) for z in walk(m))
                    if "size" in names and down and not up:
                        return "bytes"
                    if "size" in names and up and not down:
                        return "bits"
        return "?"

    def _loop_count(self, cond: Optional[CNode], env):
        if cond is None:
            return "?"
        # i < N   /   i < len
        for x in walk(cond):
            if x.kind == "BinaryOperator" and x.get("opcode") in ("<", "!=", "<="):
                rhs = x.inner[1]
                for y in walk(rhs):
                    if y.kind == "DeclRefExpr":
                        nm = y.get("referencedDecl", {}).get("name")
                        if nm in env and env[nm][0] == "changed":
                            return ("clamped", nm, env[nm][2])
                        if nm in env:
                            return ("var", nm)
                v = self.int_value(rhs)
                if v is not None:
                    return v if x.get("opcode") != "<=" else v + 1
                return "?"
        return "?"

    def _cond(self, cond: CNode, env):
        c0 = cond
        while c0 is not None and c0.kind in ("ImplicitCastExpr", "ParenExpr", "ExprWithCleanups", "CXXFunctionalCastExpr", "CStyleCastExpr") and c0.inner:
            c0 = c0.inner[-1] if c0.kind == "CXXFunctionalCastExpr" else c0.inner[0]
        if c0 is not None and c0.kind == "UnaryOperator" and c0.get("opcode") == "!" and c0.inner:
            return ("not", self._cond(c0.inner[0], env))
        if c0 is not None and c0.kind == "BinaryOperator" and c0.get("opcode") == "==" and len(c0.inner) == 2 and self.int_value(c0.inner[1]) == 0:
            return ("not", self._cond(c0.inner[0], env))
        for y in walk(cond):
            if y.kind == "DeclRefExpr" and env.get(y.get("referencedDecl", {}).get("name")) == ("some",):
                return ("some",)
            if y.kind == "DeclRefExpr" and y.get("referencedDecl", {}).get("name") in env:
                return ("flag", y["referencedDecl"]["name"])
            if y.kind == "MemberExpr" and y.get("name") == "has_value":
                return ("some",)
        return ("expr",)

    def _expr(self, e: CNode, elem, env) -> List:
        """effects of evaluating an expression tree, in source order"""
        out = []
        if e.kind in ("CXXMemberCallExpr", "CallExpr", "CXXOperatorCallExpr"):
            callee = e.inner[0] if e.inner else None
            args = e.inner[1:]
            # buffer.PushWord<T,N>(..) / buffer.GetWord(N, ..)
            me = None
            if callee is not None:
                for y in walk(callee):
                    if y.kind == "MemberExpr":
                        me = y
                        break
            name = me.get("name") if me is not None else None
            if name in ("PushWord", "GetWord") and me is not None and "Buffer" in (me.inner[0].qtype if me.inner else ""):
                for a in args:
                    out += self._expr(a, elem, env)
                if name == "GetWord":
                    n = self.int_value(args[0]) if args else None
                    out.append(("W", n, "data"))
                else:
                    decl = self.by_id.get(me.get("referencedMemberDecl", ""))
                    n = None
                    if decl is not None:
                        targs = [c for c in decl.inner if c.kind == "TemplateArgument" and "value" in c]
                        if targs:
                            n = int(targs[-1]["value"])
                        elif len(args) >= 2:
                            n = self.int_value(args[1])
                    role = "data"
                    out.append(("W", n, role))
                return out
            if name in ("Encode", "Decode") or (callee is not None and any(y.kind == "DeclRefExpr" and y.get("referencedDecl", {}).get("name") == "Decode" for y in walk(callee))):
                # whose Encode/Decode?
                target = None
                role = "data"
                if me is not None and name == "Encode":
                    target = self.by_id.get(me.get("referencedMemberDecl", ""))
                    # value written: Unsigned<u32,32>(data_.size()) / (has_value() ? 1 : 0)
                    txt = " ".join(y.get("name", "") for y in walk(me) if y.kind == "MemberExpr")
                    if "size" in txt:
                        role = "count"
                    elif "has_value" in txt or any(y.kind == "DeclRefExpr" and env.get(y.get("referencedDecl", {}).get("name")) == ("some",) for y in walk(me)):
                        role = "flag"
                else:
                    for y in walk(callee):
                        if y.kind == "DeclRefExpr" and y.get("referencedDecl", {}).get("name") == "Decode":
                            target = self.by_id.get(y["referencedDecl"].get("id", ""))
                for a in args:
                    if a.kind not in ("DeclRefExpr",):
                        out += self._expr(a, elem, env)
                if target is None:
                    out.append(("rec", "?"))
                    return out
                cls = self.class_of(target)
                label = self.spec_label(cls) if cls is not None else "?"
                if elem is not None and (label == elem or (cls is not None and cls.get("id") is not None and cls.get("id") == self.wrappers().get(elem, CNode({})).get("id"))):
                    out.append(("rec", "elem"))
                    return out
                inner = self.effects(target, None) if any(c.kind == "CompoundStmt" for c in target.inner) else [("rec", label)]
                if role != "data" and inner and inner[-1][0] == "W":
                    inner[-1] = ("W", inner[-1][1], role)
                return out + inner
        for c in e.inner:
            if c.kind in ("CompoundStmt", "ForStmt", "IfStmt", "DeclStmt", "CXXForRangeStmt", "ReturnStmt"):
                out += self._stmt(c, elem, env)
            else:
                out += self._expr(c, elem, env)
        return out

    @staticmethod
    def canon(effs: List) -> str:
        acc = []
        state = {"count": False, "vars": {}}

        def go(effs, acc):
            for e in effs:
                if e[0] == "W":
                    role = e[2]
                    if role == "count":
                        state["count"] = True
                        acc.append("W(%s)=count" % e[1])
                    elif role == "flag":
                        acc.append("W(%s)=flag" % e[1])
                    elif isinstance(role, tuple) and role[0] == "var":
                        state["vars"][role[1]] = e[1]
                        acc.append("W(%s)" % e[1])
                    else:
                        acc.append("W(%s)" % e[1])
                elif e[0] == "loop":
                    c = e[1]
                    body: List[str] = []
                    go(e[2], body)
                    if isinstance(c, int):
                        ct = str(c)
                    elif isinstance(c, tuple) and c[0] == "var":
                        ct = "count" if c[1] in state["vars"] else "?"
                    elif isinstance(c, tuple) and c[0] == "clamped":
                        # min(count, what is left): harmless when what is left is counted in the unit an iteration consumes at least
                        widths = [x[1] for x in e[2] if x[0] == "W"]
                        only_w = all(x[0] == "W" for x in e[2]) and all(isinstance(w_, int) for w_ in widths)
                        if c[2] == "bits" or (c[2] == "bytes" and only_w and widths and min(widths) >= 8):
                            ct = "count" if c[1] in state["vars"] else "?"
                        elif c[2] == "bytes":
                            ct = "min(count, bytes left)"
                        else:
                            ct = "?"
                    elif isinstance(c, tuple) and c[0] == "range":
                        ct = "count" if state["count"] else "len(data) [no prefix]"
                    else:
                        ct = str(c)
                    acc.append("Loop(%s){%s}" % (ct, " ".join(body)))
                elif e[0] == "if":
                    c = e[1]
                    neg = False
                    while isinstance(c, tuple) and c[0] == "not":
                        neg, c = not neg, c[1]
                    body = []
                    go(e[2], body)
                    ct = "present" if c[0] in ("some",) or (c[0] == "flag" and c[1] in state["vars"]) else "?"
                    acc.append("If(%s%s){%s}" % ("not " if neg else "", ct, " ".join(body)))
                elif e[0] == "rec":
                    acc.append("Rec(%s)" % e[1])
        go(effs, acc)
        return " ".join(acc)


def decode_canon(s: str) -> str:
    return s.replace("=count", "").replace("=flag", "")


def run_cpp_wire(eng, rep, rule: str) -> None:
    """C++ wrapper grammars == canonical grammar; Buffer bit mapping and cursor discipline."""
    try:
        cc = CppCodec(eng)
    except AnalysisError as e:
        rep.undecided(rule, "plugins/fcp_cpp/fcp_cpp/decoders.h", "-", "clang front end", str(e))
        return
    ws = cc.wrappers()
    want = {
        "Unsigned<unsigned char,3>": ("Unsigned<3>", None), "Signed<short,12>": ("Signed<12>", None), "Float": ("Float", None), "Double": ("Double", None), "String": ("String", None),
        "Array<fcp::Unsigned<unsigned char, 3>,4>": ("Array<Elem,4>", "Unsigned<unsigned char,3>"),
        "DynamicArray<fcp::Unsigned<unsigned char, 3>>": ("DynamicArray<Elem>", "Unsigned<unsigned char,3>"),
        "Optional<fcp::Unsigned<unsigned char, 3>>": ("Optional<Elem>", "Unsigned<unsigned char,3>"),
    }
    n = 0
    for label, (key, elem) in want.items():
        cls = ws.get(label)
        if cls is None:
            rep.undecided(rule, "plugins/fcp_cpp/fcp_cpp/decoders.h", label, "wrapper class", "instantiation not found in the clang AST (labels: %s)" % sorted(ws)[:12])
            continue
        for side in ("Encode", "Decode"):
            m = cc.method(cls, side, 2)
            if m is None:
                rep.violation(rule, "plugins/fcp_cpp/fcp_cpp/decoders.h", label, "%s(Buffer&, Endianess)" % side, "wrapper has no such method: generated structs cannot call it")
                continue
            effs = cc.effects(m, elem)
            g = CppCodec.canon(effs)
            w = CANON_CPP[key] if side == "Encode" else decode_canon(CANON_CPP[key])
            if side == "Decode":
                g = decode_canon(g)
            n += 1
            if "?" in g:
                rep.undecided(rule, "plugins/fcp_cpp/fcp_cpp/decoders.h", "%s::%s" % (key, side), g, "effect grammar has unresolved parts")
            else:
                o_ = rep.check(g == w, rule, "plugins/fcp_cpp/fcp_cpp/decoders.h", "%s::%s" % (key, side), g, "= canonical %s" % w, "C++ %s performs [%s], canonical wire format is [%s]" % (side.lower(), g, w))
                if g != w and "min(count, bytes left)" in g and g.replace("min(count, bytes left)", "count") == w:
                    # the only difference is a decoded count clamped to the bytes that are left, read positively from the code
                    # (the unit of the clamping function was taken from its body): new helpers do not make this undecided
                    o_["construct_level"] = True
    rep.floor(rule, "C++ wrapper Encode/Decode grammars extracted", n, 12)
    buffer_rules(cc, rep, rule)


def buffer_rules(cc: CppCodec, rep, rule: str) -> None:
    """fcp::Buffer: per-bit transfer loops in canonical form, cursor advance, no lossy sub-byte shift."""
    F = "plugins/fcp_cpp/fcp_cpp/buffer.h"
    buf = cc.buffer
    methods = []
    for m in buf.inner:
        if m.kind == "CXXMethodDecl":
            methods.append(m)
        elif m.kind == "FunctionTemplateDecl":
            for sp in m.inner:
                if sp.kind == "CXXMethodDecl" and any(c.kind == "TemplateArgument" for c in sp.inner):
                    methods.append(sp)
    seen = set()
    from ..front_clang import narrow_shifts
    seen_ns = set()
    for m in methods:
        for x, w, tq in narrow_shifts(m):
            key_ns = (m.get("name"), w, tq)
            if key_ns in seen_ns:
                continue
            seen_ns.add(key_ns)
            rep.violation(rule, F, "fcp::Buffer::%s" % m.get("name"), "`<<` by a variable count computed in %d-bit int, then widened to %s" % (w, tq),
                          "the shift is evaluated in a %d-bit integer and only afterwards converted to %s: for counts of %d and more the mask/bit is wrong (fields wider than %d bits)" % (w, tq, w - 1, w))["construct_level"] = True  # typed fact about one expression
    for m in methods:
        name = m.get("name")
        body = [c for c in m.inner if c.kind == "CompoundStmt"]
        if not body or name not in ("PushWord", "GetWord"):
            continue
        targs = [c for c in m.inner if c.kind == "TemplateArgument" and "value" in c]
        key = (name, len([c for c in m.inner if c.kind == "ParmVarDecl"]))
        if key in seen:
            continue
        seen.add(key)
        b = body[0]
        prim = "SetBit" if name == "PushWord" else "get_bit"
        calls = [x for x in walk(b) if x.kind in ("CXXMemberCallExpr", "CallExpr") and any(y.kind in ("MemberExpr", "DeclRefExpr") and (y.get("name") == prim or y.get("referencedDecl", {}).get("name") == prim) for y in walk(x.inner[0]))] if True else []
        fors = [x for x in walk(b) if x.kind == "ForStmt"]
        site = "%s/%d" % key
        # lossy shift of the word by the sub-byte offset inside a <= 64-bit integer
        for x in walk(b):
            if x.kind in ("BinaryOperator", "CompoundAssignOperator") and x.get("opcode") in ("<<", "<<="):
                rhs = x.inner[1]
                sub = any(y.kind == "BinaryOperator" and y.get("opcode") in ("&", "%") and any(z.kind == "MemberExpr" and z.get("name") == "current_bit_" for z in walk(y)) and (cc.int_value(y.inner[1]) in (7, 8)) for y in walk(rhs))
                if sub:
                    w = int_width(x.inner[0].qtype) or int_width(x.inner[0].desugared) or 64
                    rep.violation(rule, F, "fcp::Buffer::%s" % name, "%s by (current_bit_ & 7) in a %d-bit integer" % (x.get("opcode"), w),
                                  "the word is shifted by the sub-byte offset inside a %d-bit integer: for a field of more than %d bits at a non-zero bit offset the top bits are shifted out (lost)" % (w, w - 7))
        if not calls or not fors:
            rep.undecided(rule, F, "fcp::Buffer::%s" % name, site, "transfer is not a per-bit loop over %s; placement not decided" % prim)
            continue
        # canonical per-bit form: address = current_bit_ + i ; source bit = (tmp >> i) & 1 ; dst bit << i
        c = calls[0]
        args = c.inner[1:]
        addr = args[1] if name == "PushWord" and len(args) > 1 else (args[1] if len(args) > 1 else args[0])
        addr_ok = any(y.kind == "BinaryOperator" and y.get("opcode") == "+" and any(z.kind == "MemberExpr" and z.get("name") == "current_bit_" for z in walk(y)) and any(z.kind == "DeclRefExpr" and z.get("referencedDecl", {}).get("name") == "i" for z in walk(y)) and not any(z.kind == "BinaryOperator" and z.get("opcode") in ("-", "*") for z in walk(y)) for y in walk(addr))
        rep.check(addr_ok, rule, F, "fcp::Buffer::%s" % name, "bit address = current_bit_ + i", "canonical", "bit address is not current_bit_ + i")
        if name == "PushWord":
            v = args[0]
            sh_ok = any(y.kind == "BinaryOperator" and y.get("opcode") == ">>" and any(z.kind == "DeclRefExpr" and z.get("referencedDecl", {}).get("name") == "i" for z in walk(y.inner[1])) and not any(z.kind == "BinaryOperator" for z in walk(y.inner[1])) for y in walk(v))
            mask_ok = any(y.kind == "BinaryOperator" and y.get("opcode") == "&" and cc.int_value(y.inner[1]) == 1 for y in walk(v))
            rep.check(sh_ok and mask_ok, rule, F, "fcp::Buffer::%s" % name, "source bit = (word >> i) & 1", "LSB first", "source bit is not (word >> i) & 1")
        else:
            par = cc.parent.get(id(c))
            shl = None
            cur = c
            while id(cur) in cc.parent and shl is None:
                cur = cc.parent[id(cur)]
                if cur.kind == "BinaryOperator" and cur.get("opcode") == "<<":
                    shl = cur
                if cur.kind in ("DeclStmt", "CompoundStmt"):
                    break
            ok = shl is not None and any(z.kind == "DeclRefExpr" and z.get("referencedDecl", {}).get("name") == "i" for z in walk(shl.inner[1])) and not any(z.kind == "BinaryOperator" for z in walk(shl.inner[1]))
            rep.check(ok, rule, F, "fcp::Buffer::%s" % name, "destination bit = << i", "LSB first", "read bit is not placed at bit i of the word")
        # loop bound is the width
        f0 = fors[0]
        cond = f0.inner[2] if len(f0.inner) > 2 else None
        width_names = ("Size", "bitlength")
        bound_ok = cond is not None and any(y.kind == "BinaryOperator" and y.get("opcode") == "<" for y in walk(cond)) and (any(z.kind == "DeclRefExpr" and z.get("referencedDecl", {}).get("name") in width_names for z in walk(cond)) or any(z.kind == "SubstNonTypeTemplateParmExpr" for z in walk(cond))) and not any(z.kind == "BinaryOperator" and z.get("opcode") in ("-", "+") for z in walk(cond))
        rep.check(bound_ok, rule, F, "fcp::Buffer::%s" % name, "for i < width", "one iteration per bit of the field", "transfer loop does not run exactly `width` times")
        # cursor advance by the width, outside the loop, on the only path
        adv = [x for x in walk(b) if x.kind == "CompoundAssignOperator" and x.get("opcode") == "+=" and any(z.kind == "MemberExpr" and z.get("name") == "current_bit_" for z in walk(x.inner[0]))]
        adv_ok = len(adv) == 1 and (any(z.kind == "DeclRefExpr" and z.get("referencedDecl", {}).get("name") in width_names for z in walk(adv[0].inner[1])) or any(z.kind == "SubstNonTypeTemplateParmExpr" for z in walk(adv[0].inner[1]))) and not any(z.kind == "BinaryOperator" for z in walk(adv[0].inner[1]))
        in_loop = adv and any(any(z is adv[0] for z in walk(f_)) for f_ in fors)
        rep.check(adv_ok and not in_loop, rule, F, "fcp::Buffer::%s" % name, "current_bit_ += width", "cursor advances by what was transferred", "the cursor does not advance by exactly the transferred width")
    # SetBit / get_bit address split
    for m in buf.inner:
        if m.kind == "CXXMethodDecl" and m.get("name") == "SetBit":
            # the split may sit in one-expression helpers of the class (ByteAddress(i) { return i >> 3; }): read through them
            called = {y.get("name") or y.get("referencedDecl", {}).get("name") for y in walk(m) if y.kind in ("MemberExpr", "DeclRefExpr")}
            scope = [m]
            for h in buf.inner:
                if h.kind == "CXXMethodDecl" and h is not m and h.get("name") in called:
                    hb = [c for c in h.inner if c.kind == "CompoundStmt"]
                    if hb and len(hb[0].inner) == 1 and hb[0].inner[0].kind == "ReturnStmt":
                        scope.append(h)
            txt = [(x.get("opcode"), cc.int_value(x.inner[1])) for s_ in scope for x in walk(s_) if x.kind == "BinaryOperator" and x.get("opcode") in (">>", "&", "<<", "%", "/")]
            ok = ((">>", 3) in txt or ("/", 8) in txt) and (("&", 7) in txt or ("%", 8) in txt)
            rep.check(ok, rule, F, "fcp::Buffer::SetBit", "byte = index >> 3, bit = index & 7", "canonical address split", "bit address is not split as (index >> 3, index & 7)")


def run_witness(eng, rep, rule: str) -> None:
    hdir = eng.path("plugins", "fcp_cpp", "fcp_cpp")
    ok, err = cxx_syntax_check(WITNESS_TU, [hdir])
    errs = [l for l in err.splitlines() if "error:" in l]
    sites = sorted({re.sub(r"^.*/(\w+\.h):(\d+):\d+: error: (.*)$", r"\1 \3", l) for l in errs})
    if ok:
        rep.ok(rule, "plugins/fcp_cpp/fcp_cpp/decoders.h", "fcp::Array / DynamicArray / Optional", "interface-only element type (8 container nestings)", "container templates use the element type only through the wrapper interface")
    elif not errs:
        rep.undecided(rule, "plugins/fcp_cpp/fcp_cpp/decoders.h", "-", "compile witness", "clang++ failed without a diagnostic: %s" % err[-200:])
    else:
        for s in sites[:6]:
            rep.violation(rule, "plugins/fcp_cpp/fcp_cpp/decoders.h", "container templates", s[:160], "a container wrapper uses its element type outside the wrapper interface: generated C++ with a struct (or array) element does not compile")
