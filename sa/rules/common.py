"""Rule helpers shared by several properties (frozen repo-specific tables live here)."""

from __future__ import annotations

import ast
from typing import Iterable, List, Optional, Set, Tuple

from ..front_py import FuncInfo, walk_local, dotted, norm
from ..types_lite import members

# ---- filesystem-mutating primitives (frozen table) --------------------------------
FS_METHODS = {
    "write_text", "write_bytes", "mkdir", "makedirs", "unlink", "rmdir", "rename", "touch",
    "symlink_to", "hardlink_to", "chmod", "rmtree", "removedirs", "renames", "truncate",
}
FS_FUNCS = {
    "os.remove", "os.unlink", "os.rmdir", "os.removedirs", "os.mkdir", "os.makedirs", "os.rename",
    "os.renames", "os.replace", "os.truncate", "os.symlink", "os.link", "os.chmod", "os.system",
    "os.popen", "shutil.rmtree", "shutil.move", "shutil.copy", "shutil.copy2", "shutil.copyfile",
    "shutil.copytree", "shutil.make_archive", "subprocess.run", "subprocess.call",
    "subprocess.check_call", "subprocess.check_output", "subprocess.Popen", "tempfile.mkstemp",
    "tempfile.mkdtemp", "tempfile.NamedTemporaryFile", "os.open", "os.write",
}
# method names that mutate the filesystem only when the receiver is a path-like object
FS_METHODS_PATHONLY = {"replace", "remove", "open"}


def open_mode_writes(c: ast.Call) -> bool:
    mode = None
    if len(c.args) >= 2:
        mode = c.args[1]
    for k in c.keywords:
        if k.arg == "mode":
            mode = k.value
    if mode is None:
        return False
    if isinstance(mode, ast.Constant) and isinstance(mode.value, str):
        return any(ch in mode.value for ch in "wax+")
    return True  # computed mode: conservatively a write


def fs_mutations(eng, f: FuncInfo) -> List[Tuple[ast.Call, str]]:
    """Filesystem-mutating call sites inside f (incl. its lambdas)."""
    ft = eng.T.fn(f)
    out = []
    nodes = list(walk_local(f.node))
    for n in list(nodes):
        if isinstance(n, ast.Lambda):
            nodes += list(ast.walk(n.body))
    for n in nodes:
        if not isinstance(n, ast.Call):
            continue
        d = dotted(n.func) or ""
        # resolve module aliases through the import table
        r = eng.prog.resolve_expr_symbol(f.module, f, n.func) if isinstance(n.func, (ast.Name, ast.Attribute)) else None
        full = r[1] if r and r[0] == "ext" else d
        if full in FS_FUNCS or full.startswith("shutil.") or full.startswith("subprocess."):
            out.append((n, full))
            continue
        if (r and r[0] == "builtin" and r[1] == "open") or full in ("io.open", "builtins.open", "codecs.open"):
            if open_mode_writes(n):
                out.append((n, "open(mode=write)"))
            continue
        if isinstance(n.func, ast.Attribute):
            a = n.func.attr
            if a in FS_METHODS:
                out.append((n, "." + a))
            elif a in FS_METHODS_PATHONLY:
                rt = ft.of(n.func.value)
                pathy = any(u[0] in ("extinst", "extret") and ("Path" in u[1] or "path" in u[1]) for u in members(rt))
                if pathy and (a != "open" or open_mode_writes_method(n)):
                    out.append((n, "Path." + a))
    return out


def open_mode_writes_method(c: ast.Call) -> bool:
    mode = c.args[0] if c.args else None
    for k in c.keywords:
        if k.arg == "mode":
            mode = k.value
    if mode is None:
        return False
    if isinstance(mode, ast.Constant) and isinstance(mode.value, str):
        return any(ch in mode.value for ch in "wax+")
    return True


# ---- wrappers -------------------------------------------------------------------------
def wrapper_reaches(eng, cs, targets: Set[str], bound: int = 3) -> bool:
    """Does call site cs reach one of `targets` through at most `bound` levels of repo
    helpers (excluding the direct case)?  Registry edges are not followed."""
    seen = set()
    frontier = [c for c in cs.callees]
    for _ in range(bound):
        nxt = []
        for q in frontier:
            if q in seen:
                continue
            seen.add(q)
            f = eng.prog.functions.get(q)
            if f is None:
                continue
            for s2 in eng.cg.sites_in(f):
                if set(s2.callees) & targets:
                    return True
                nxt += s2.callees
        frontier = nxt
    return False


def wrapper_raises_on_reject(eng, cs, verify_qual: str) -> bool:
    """The helper called at cs calls verify and attempt()s its verdict on every normal path,
    and is not itself wrapped by @catch (so the ResultAttemptError propagates)."""
    for q in cs.callees:
        f = eng.prog.functions.get(q)
        if f is None or f.has_decorator("catch"):
            return False
        cfg = eng.cfg(f)
        gates = set()
        pm = {}
        for n in ast.walk(f.node):
            for c in ast.iter_child_nodes(n):
                pm[id(c)] = n
        for s2 in eng.cg.sites_in(f):
            if verify_qual in s2.callees:
                par = pm.get(id(s2.node))
                if isinstance(par, ast.Attribute) and par.attr in ("attempt", "unwrap", "expect"):
                    nid = cfg.stmt_node_containing(s2.node)
                    if nid is not None:
                        gates.add(nid)
        if not gates:
            return False
        if cfg.exit in cfg.reachable_avoiding(cfg.entry, gates):
            return False
    return bool(cs.callees)


def unwrap_attempt_receiver(call: ast.Call) -> Optional[ast.AST]:
    if isinstance(call.func, ast.Attribute) and call.func.attr in ("attempt", "unwrap"):
        return call.func.value
    return None


# ---- misc -------------------------------------------------------------------------------
def const_str_values(e: ast.AST) -> Optional[Set[str]]:
    """All constant string values an expression can take (IfExp, +, f-string of constants)."""
    if isinstance(e, ast.Constant) and isinstance(e.value, str):
        return {e.value}
    if isinstance(e, ast.IfExp):
        a, b = const_str_values(e.body), const_str_values(e.orelse)
        if a is None or b is None:
            return None
        return a | b
    if isinstance(e, ast.BinOp) and isinstance(e.op, ast.Add):
        a, b = const_str_values(e.left), const_str_values(e.right)
        if a is None or b is None:
            return None
        return {x + y for x in a for y in b}
    return None
