"""C01 - Python codec round-trip (structural: writer/reader agreement).

R01.1 dispatch exhaustiveness over the parser-produced type classes
R01.2 effect agreement encoder <-> decoder per type constructor
R01.3 cursor discipline of the buffer class
R01.4 bit-mapping symmetry of the word/bit primitives
R01.5 sign threshold ordering
R01.6 float format agreement
R01.7 codec state is per call (no module-level mutable state on the codec path)
"""

from __future__ import annotations

import ast
from typing import Dict, List, Optional

from ..front_py import AnalysisError, FuncInfo, walk_local, norm, dotted
from ..dataflow import Defs, stores_in
from ..effects import Unsupported
from .codec_py import (ENC, DEC, find_cursor_class, Prims, parser_type_classes, find_dispatcher, grammar_of, canon_effects, check_bypasses, lin, lin_eq, fmt_lin)


def strip_roles(s: str) -> str:
    return s.replace("W(32)=count", "W(32)").replace("W(8)=flag{1,0}", "W(8)")


def run(eng, rep) -> None:
    prog, cg = eng.prog, eng.cg
    rep.explanation = (
        "The Python codec is a cursor program: its wire format is the sequence of primitive transfers it performs. An abstract "
        "interpreter inlines each handler from the dispatcher down to the word primitives of the buffer class (found by role: the "
        "class instantiated by encode/decode) with abstract arguments and emits an effect grammar per type constructor; encoder "
        "and decoder grammars must agree for every constructor the parser can produce. The primitives are brought to normal form "
        "(linear forms over the loop variable) and must be mutually inverse; the cursor must advance by what is transferred on every "
        "path; the signed decoder's threshold test is decided on the three orderings of the word against 2^(N-1)."
    )
    rep.rule("R01.1", "every parser-produced type class is dispatched by encoder and decoder (no fall-through raise)")
    rep.rule("R01.2", "Eff_enc(K) == Eff_dec(K) for every constructor K (widths, counts, order, granularity, prefix/flag relation)")
    rep.rule("R01.3", "cursor discipline: only the bit primitives touch the store; every transfer advances the cursor by its width on every path")
    rep.rule("R01.4", "push/read and set/get primitives have equal bit-mapping normal forms")
    rep.rule("R01.5", "sign reconstruction takes the negative branch exactly for word >= 2^(N-1)")
    rep.rule("R01.6", "struct pack/unpack use the same format and the byte count of that format")
    rep.rule("R01.7", "no module-level mutable state is read-and-written on the codec path")
    rep.rule("R01.9", "no bound method object is tested for truth on the codec path (`type.is_signed` for `type.is_signed()` is always true)")
    rep.rule("R01.8", "container decoders obtain every element through the type dispatcher; a direct read is admissible only for element classes whose handler returns the raw word")
    rep.rule("R01.11", "a work-list walk of the codec puts every expansion back at the end it takes from (one order for all constructors)")
    from .lints import mixed_worklist_ends
    mixed_worklist_ends(eng, rep, "R01.11", ("fcp.serde",), "its bytes are written (or read) after the fields that follow it, which is not the canonical order")
    rep.rule("R01.10", "a key that stands for a schema type on the codec path reads every field that tells two types apart")
    from .lints import type_identity_keys
    type_identity_keys(eng, rep, "R01.10", ("fcp.serde",))
    rep.assume("Python integers are unbounded; struct.pack/unpack are exact for f32/f64; native struct format on a little-endian host")
    rep.assume("value plumbing (which datum goes with which transfer) beyond prefix/flag relations is not decided")
    cc = find_cursor_class(eng)
    pr = Prims(eng, cc)
    pr.check_bit_prims(); pr.check_word_prims(); pr.check_composites()
    P = parser_type_classes(eng)
    rep.floor("R01.1", "type classes produced by the parser", len(P), 10)
    grams: Dict[str, Dict[str, str]] = {"enc": {}, "dec": {}}
    fmts: Dict[str, Dict[str, list]] = {"enc": {}, "dec": {}}
    disp = {}
    bypassed = set()
    for side, root in (("enc", ENC), ("dec", DEC)):
        d = find_dispatcher(eng, root)
        if d is None:
            raise AnalysisError("anchor vanished: no type dispatcher reachable from %s" % root)
        disp[side] = d
        for K in P:
            kn = K.split(".")[-1]
            try:
                effs, it = grammar_of(eng, pr, d, K, side)
                g = canon_effects(effs, side)
                grams[side][kn] = g
                fmts[side][kn] = it.fmt_pairs
                if side == "dec" and check_bypasses(eng, rep, "R01.8", pr, d, P, kn, effs):
                    bypassed.add(kn)
                top_raise = any(e[0] == "raise" for e in effs)
                rep.check(not top_raise, "R01.1", d.file, d.qual, "dispatch of %s" % kn, "handled: %s" % g[:80], "no branch for %s: the fall-through raises (any schema using this type cannot be %sd)" % (kn, "encode" if side == "enc" else "decode"))
            except Unsupported as u:
                grams[side][kn] = None
                rep.undecided("R01.1", d.file, d.qual, "dispatch of %s" % kn, str(u))
    for K in P:
        kn = K.split(".")[-1]
        a, b = grams["enc"].get(kn), grams["dec"].get(kn)
        if a is None or b is None:
            rep.undecided("R01.2", disp["enc"].file, "%s / %s" % (disp["enc"].qual, disp["dec"].qual), "Eff(%s)" % kn, "a side is outside the supported statement forms")
            continue
        if "Raise" in a or "Raise" in b:
            continue  # reported by R01.1
        if kn in bypassed:
            continue  # decided (or declared undecided) by R01.8
        rep.check(strip_roles(a) == b, "R01.2", disp["enc"].file, "%s / %s" % (disp["enc"].qual, disp["dec"].qual), "Eff(%s)" % kn, "enc = dec = %s" % b,
                  "encoder performs [%s] but decoder performs [%s]" % (a, b))
    # R01.3 / R01.4
    for v, tag, m, construct, detail in pr.findings:
        if tag == "cursor":
            (rep.ok if v == "ok" else rep.violation if v == "violation" else rep.undecided)("R01.3", m.file, m.qual, construct, detail)
    s = pr.sigs
    if "bit_set" in s and "bit_get" in s:
        rep.check(s["bit_set"] == s["bit_get"], "R01.4", cc.ci.file, cc.ci.qual, "set/get: byte=%s bit=%s" % s["bit_set"], "same address split on both sides",
                  "bit primitives disagree: writer uses (byte %s, bit %s), reader uses (byte %s, bit %s)" % (s["bit_set"] + s["bit_get"]))
    else:
        rep.undecided("R01.4", cc.ci.file, cc.ci.qual, "bit primitives", "not in the recognised form")
    if "push" in s and "read" in s and all(k in s["push"] for k in ("count", "addr", "shift")) and all(k in s["read"] for k in ("count", "addr", "shift")):
        rep.check(s["push"] == s["read"], "R01.4", cc.ci.file, cc.ci.qual, "push/read: %s" % s["push"], "mutually inverse bit mappings",
                  "word primitives disagree: writer %s, reader %s" % (s["push"], s["read"]))
    else:
        rep.undecided("R01.4", cc.ci.file, cc.ci.qual, "word primitives", "not both in the recognised per-bit form: %s" % s)
    r015(eng, rep, disp["dec"], pr)
    # R01.9
    from ..dataflow import method_objects_tested
    n9 = 0
    for q in sorted(set(cg.reachable([ENC, DEC]))):
        f9 = prog.functions.get(q)
        if f9 is None or not f9.module.name.startswith("fcp.serde"):
            continue
        n9 += 1
        for t9, cn9, mn9 in method_objects_tested(eng, f9):
            rep.violation("R01.9", f9.file, f9.qual, norm(t9, 70), "`.%s` is a method of %s and is tested without being called: the bound method object is always true, so the branch it guards is taken for every type (e.g. the two's-complement reconstruction is applied to unsigned and enum fields)" % (mn9, cn9))
    rep.ok("R01.9", "-", "-", "conditions on the codec path", "%d functions scanned" % n9)
    # R01.6
    for kn in sorted(set(fmts["enc"]) | set(fmts["dec"])):
        pe = [x for x in fmts["enc"].get(kn, []) if x[0] == "pack"]
        pd = [x for x in fmts["dec"].get(kn, []) if x[0] == "unpack"]
        if not pe and not pd:
            continue
        if len(pe) == 1 and len(pd) == 1:
            okf = pe[0][1] == pd[0][1] and pe[0][2] == pd[0][2] and pe[0][2] is not None
            rep.check(okf, "R01.6", disp["enc"].file, "Eff(%s)" % kn, "pack(%r) / unpack(%r) over %s bytes" % (pe[0][1], pd[0][1], pd[0][2]), "same format, matching byte count",
                      "encoder packs %r (%s bytes) but decoder unpacks %r from %s bytes" % (pe[0][1], pe[0][2], pd[0][1], pd[0][2]))
        else:
            rep.undecided("R01.6", disp["enc"].file, "Eff(%s)" % kn, "struct formats", "pack/unpack sites: %s / %s" % (pe, pd))
    r017(eng, rep)


def r015(eng, rep, dec_disp: FuncInfo, pr: Prims) -> None:
    """sign threshold ordering in the SignedType decode handler"""
    prog, cg = eng.prog, eng.cg
    # handler: callee of the SignedType branch
    h = None
    for n in walk_local(dec_disp.node):
        if isinstance(n, ast.If) and isinstance(n.test, ast.Call) and dotted(n.test.func) == "isinstance" and "SignedType" in norm(n.test.args[1]):
            for c in ast.walk(ast.Module(body=n.body, type_ignores=[])):
                if isinstance(c, ast.Call) and cg.site_of.get(id(c)) and cg.site_of[id(c)].callees:
                    h = prog.functions[cg.site_of[id(c)].callees[0]]
                    break
    if h is None:
        rep.undecided("R01.5", dec_disp.file, dec_disp.qual, "SignedType branch", "handler not found")
        return
    defs = Defs(h.node)
    ROLE = "decode handler of SignedType"

    def resolve(e, depth=0):
        if isinstance(e, ast.Name) and depth < 3:
            vs = [v for k, v, st in defs.values(e.id) if k == "assign" and v is not None]
            if len(vs) == 1:
                return resolve(vs[0], depth + 1)
        return e

    def pow2_exp(e):
        """2**X | 1 << X -> X ; None"""
        e = resolve(e)
        if isinstance(e, ast.BinOp) and isinstance(e.op, ast.Pow) and isinstance(e.left, ast.Constant) and e.left.value == 2:
            return e.right
        if isinstance(e, ast.BinOp) and isinstance(e.op, ast.LShift) and isinstance(e.left, ast.Constant) and e.left.value == 1:
            return e.right
        return None

    def is_length(e):
        e = resolve(e)
        return isinstance(e, ast.Call) and isinstance(e.func, ast.Attribute) and e.func.attr == "get_length"

    def half(e):
        """is e == 2^(length-1)?"""
        e = resolve(e)
        x = pow2_exp(e)
        if x is not None:
            x = x
            if isinstance(x, ast.BinOp) and isinstance(x.op, ast.Sub) and isinstance(x.right, ast.Constant) and x.right.value == 1 and is_length(x.left):
                return True
            return False
        if isinstance(e, ast.BinOp) and isinstance(e.op, (ast.Div, ast.FloorDiv)) and isinstance(e.right, ast.Constant) and e.right.value == 2:
            x = pow2_exp(e.left)
            return x is not None and is_length(x)
        if isinstance(e, ast.BinOp) and isinstance(e.op, ast.RShift) and isinstance(e.right, ast.Constant) and e.right.value == 1:
            x = pow2_exp(e.left)
            return x is not None and is_length(x)
        return None

    import copy as _copy

    class _Deep(ast.NodeTransformer):
        def __init__(self):
            self.depth = 0

        def visit_Name(self, n):
            if isinstance(n.ctx, ast.Load) and self.depth < 4:
                vs = [v for k, v, st in defs.values(n.id) if k == "assign" and v is not None]
                if len(vs) == 1:
                    self.depth += 1
                    r = self.visit(_copy.deepcopy(vs[0]))
                    self.depth -= 1
                    return r
            return n

    def deep(e):
        return _Deep().visit(_copy.deepcopy(e))

    found = False
    for n in walk_local(h.node):
        test = None
        if isinstance(n, ast.If):
            test, body, orelse = n.test, n.body, n.orelse
        elif isinstance(n, ast.IfExp):
            test, body, orelse = n.test, [ast.Return(value=n.body)], [ast.Return(value=n.orelse)]
        if test is None:
            continue
        # which branch subtracts 2^N ?
        def subtracts(stmts):
            t = " ".join(norm(s, 200) for s in stmts)
            return "-(" in t or " - " in t or "-=" in t
        neg_in_body = subtracts(body) and not subtracts(orelse or [])
        neg_in_else = subtracts(orelse or []) and not subtracts(body)
        if not (neg_in_body or neg_in_else):
            continue
        found = True
        site = norm(test, 60)
        if isinstance(test, ast.Compare) and len(test.ops) == 1:
            l, op, r = test.left, test.ops[0], test.comparators[0]
            hl, hr = half(l), half(r)
            if hr is True or hl is True:
                # the construct is named by what its operands denote, not by the local names used
                site = canon_threshold(test, hl is True, deep)
                if hl is True:  # T op word  ->  word op' T
                    op = {ast.Gt: ast.Lt, ast.GtE: ast.LtE, ast.Lt: ast.Gt, ast.LtE: ast.GtE}.get(type(op), type(op))()
                # truth on (word < T, word == T, word > T)
                tt = {ast.Gt: (False, False, True), ast.GtE: (False, True, True), ast.Lt: (True, False, False), ast.LtE: (True, True, False)}.get(type(op))
                if tt is None:
                    rep.undecided("R01.5", h.file, ROLE, site, "comparator not an ordering")
                    continue
                neg_taken = tt if neg_in_body else tuple(not x for x in tt)
                want = (False, True, True)
                if neg_taken == want:
                    rep.ok("R01.5", h.file, ROLE, site, "negative branch taken exactly for word >= 2^(N-1)")
                else:
                    where = "word == 2^(N-1)" if neg_taken[1] != want[1] else "word %s 2^(N-1)" % ("<" if neg_taken[0] != want[0] else ">")
                    rep.violation("R01.5", h.file, ROLE, site, "sign reconstruction misclassifies %s: the most negative value -2^(N-1) decodes as +2^(N-1)" % where if neg_taken[1] != want[1] else "sign reconstruction misclassifies %s" % where)
            else:
                rep.undecided("R01.5", h.file, ROLE, site, "threshold not recognised as 2^(N-1)")
        elif isinstance(test, ast.BinOp) and isinstance(test.op, (ast.BitAnd, ast.RShift)):
            rep.ok("R01.5", h.file, ROLE, site, "sign bit test") if ("- 1" in norm(test) and neg_in_body) else rep.undecided("R01.5", h.file, ROLE, site, "bit test form not recognised")
        else:
            rep.undecided("R01.5", h.file, ROLE, site, "sign test form not recognised")
    if not found:
        rep.undecided("R01.5", h.file, ROLE, "sign reconstruction", "no branch subtracting 2^N found")


def canon_threshold(test: ast.Compare, threshold_left: bool, deep) -> str:
    """`word > max / 2` with max = 2 ** type.get_length()  ->  'word > 2 ** N / 2' whatever the locals are called"""
    import re as _re
    ops = {ast.Gt: ">", ast.GtE: ">=", ast.Lt: "<", ast.LtE: "<=", ast.Eq: "==", ast.NotEq: "!="}
    thr = test.left if threshold_left else test.comparators[0]
    t = norm(deep(thr), 120)
    t = _re.sub(r"[A-Za-z_][\w\.]*\.get_length\(\)", "N", t)
    op = ops.get(type(test.ops[0]), "?")
    return ("%s %s word" % (t, op)) if threshold_left else ("word %s %s" % (op, t))


def r017(eng, rep) -> None:
    """No module-level mutable object (or global rebinding) is written by a function on the codec
    path; the buffer object is created per call."""
    prog, cg = eng.prog, eng.cg
    reach = cg.reachable([ENC, DEC])
    n = 0
    for q in sorted(reach):
        f = prog.functions[q]
        if f.module.name != "fcp.serde":
            continue
        n += 1
        m = f.module
        loc = f.local_names()
        for node in walk_local(f.node):
            if isinstance(node, ast.Global):
                rep.violation("R01.7", f.file, f.qual, "global %s" % ", ".join(node.names), "codec function rebinds module-level state: results depend on earlier calls")
        for kind, tgt, st in stores_in(f.node):
            root = tgt
            while isinstance(root, (ast.Attribute, ast.Subscript)):
                root = root.value
            if isinstance(root, ast.Name) and root.id in m.assigns and root.id not in loc:
                rep.violation("R01.7", f.file, f.qual, norm(st, 70), "module-level object '%s' is mutated on the codec path: state leaks between calls / schemas" % root.id)
        # module-level instances used as buffers
        for node in walk_local(f.node):
            if isinstance(node, ast.Name) and isinstance(node.ctx, ast.Load) and node.id in m.assigns and node.id not in loc:
                v = m.assigns[node.id]
                if isinstance(v, (ast.Dict, ast.List, ast.Set)) or (isinstance(v, ast.Call) and (dotted(v.func) or "") in ("dict", "list", "set", "defaultdict", "collections.defaultdict")):
                    # read of a module-level mutable container: only a problem if someone writes it
                    writers = []
                    for q2 in reach:
                        f2 = prog.functions[q2]
                        if f2.module is m:
                            for kind, tgt, st in stores_in(f2.node):
                                root = tgt
                                while isinstance(root, (ast.Attribute, ast.Subscript)):
                                    root = root.value
                                if isinstance(root, ast.Name) and root.id == node.id:
                                    writers.append(f2.qual)
                    if writers:
                        pass  # reported at the writer
                elif isinstance(v, ast.Call):
                    r = prog.resolve_expr_symbol(m, None, v.func)
                    if r and r[0] == "class" and prog.classes[r[1]].module is m:
                        rep.violation("R01.7", f.file, f.qual, "%s = %s" % (node.id, norm(v, 40)), "a module-level %s instance is shared by all calls: its contents survive from one call to the next" % prog.classes[r[1]].name)
    rep.ok("R01.7", "src/fcp/serde.py", "-", "%d codec functions scanned" % n, "no module-level state written")
