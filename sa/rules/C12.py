"""C12 - reflection is a lossless, faithful description of the schema.

R12.1 each reflection() record's key set == field set of the like-named struct in reflection.fcp,
      with compatible value kinds
R12.2 every method called while building a record resolves on the receiver's class
R12.3 every type constructor used by reflection.fcp is handled by both codec dispatchers
R12.4 faithfulness: key k is fed from attribute k of the same object; nothing serialisable dropped;
      every concrete type class overrides reflection
R12.5 the CLI encodes the struct that describes FcpV2's record
"""

from __future__ import annotations

import ast
from typing import Dict, List, Optional, Tuple

from ..front_py import AnalysisError, FuncInfo, ClassInfo, walk_local, norm, dotted
from ..front_lark import Grammar, mini_schema, shape_constructors
from ..types_lite import members
from ..dataflow import Provenance, Defs

CLASS_TO_STRUCT = {
    "fcp.specs.metadata.MetaData": "MetaData",
    "fcp.specs.struct_field.StructField": "StructField",
    "fcp.specs.struct.Struct": "Struct",
    "fcp.specs.enum.Enumeration": "Enumeration",
    "fcp.specs.enum.Enum": "Enum",
    "fcp.specs.signal_block.SignalBlock": "SignalBlock",
    "fcp.specs.impl.Impl": "Impl",
    "fcp.specs.method.Method": "Method",
    "fcp.specs.service.Service": "Service",
    "fcp.specs.v2.FcpV2": "Fcp",
}
TYPE_BASE = "fcp.specs.type.Type"
SHAPE_TO_CLASS = {"u": "UnsignedType", "i": "SignedType", "f32": "FloatType", "f64": "DoubleType", "str": "StringType",
                  "array": "ArrayType", "dyn": "DynamicArrayType", "opt": "OptionalType", "named": "StructType"}


def returned_dicts(f: FuncInfo) -> List[ast.Dict]:
    out = []
    for n in walk_local(f.node):
        if isinstance(n, ast.Return) and n.value is not None:
            v = n.value
            if isinstance(v, ast.Dict):
                out.append(v)
            elif isinstance(v, ast.List) and len(v.elts) == 1 and isinstance(v.elts[0], ast.Dict):
                out.append(v.elts[0])
            elif isinstance(v, ast.BinOp) and isinstance(v.op, ast.Add) and isinstance(v.left, ast.List) and len(v.left.elts) == 1 and isinstance(v.left.elts[0], ast.Dict):
                out.append(v.left.elts[0])
            elif isinstance(v, ast.Call) and dotted(v.func) == "dict" and not v.args:
                d = ast.Dict(keys=[ast.Constant(value=k.arg) for k in v.keywords], values=[k.value for k in v.keywords])
                out.append(d)
    return out


class Shapes:
    def __init__(self, eng, rep):
        self.eng, self.rep = eng, rep
        self.prog, self.T = eng.prog, eng.T

    def of(self, f: FuncInfo, e: ast.AST, env_loop: Dict[str, tuple] = None) -> tuple:
        """Value shape of a record entry: ('str',) ('int',) ('float',) ('bool',) ('none',)
        ('opt', S) ('list', S, n|None) ('rec', struct-name) ('anon', {k: shape}) ('?', why)"""
        ft = self.T.fn(f)
        if isinstance(e, ast.Constant):
            v = e.value
            if v is None:
                return ("none",)
            if isinstance(v, bool):
                return ("bool",)
            if isinstance(v, int):
                return ("int", v)
            if isinstance(v, float):
                return ("float",)
            if isinstance(v, str):
                return ("str",)
        if isinstance(e, ast.IfExp):
            a, b = self.of(f, e.body, env_loop), self.of(f, e.orelse, env_loop)
            if b == ("none",):
                return ("opt", a)
            if a == ("none",):
                return ("opt", b)
            return a if a == b else ("?", "conditional of different shapes")
        if isinstance(e, ast.List):
            shapes = [self.of(f, x, env_loop) for x in e.elts]
            if shapes and all(s[0] == shapes[0][0] for s in shapes):
                s0 = shapes[0]
                if s0[0] == "int":
                    s0 = ("int", max(s[1] for s in shapes if len(s) > 1) if all(len(s) > 1 for s in shapes) else None)
                return ("list", s0, len(shapes))
            return ("list", ("?", "mixed"), len(shapes))
        if isinstance(e, ast.ListComp):
            return ("list", self.of(f, e.elt, env_loop), None)
        if isinstance(e, ast.Dict):
            return ("anon", {k.value: self.of(f, v, env_loop) for k, v in zip(e.keys, e.values) if isinstance(k, ast.Constant)})
        if isinstance(e, ast.BinOp) and isinstance(e.op, ast.Add):
            a, b = self.of(f, e.left, env_loop), self.of(f, e.right, env_loop)
            if a[0] == "list" and b[0] == "list":
                return ("list", a[1] if a[1] == b[1] else ("?", "concatenation of different records"), None)
        if isinstance(e, ast.Call):
            d = dotted(e.func) or ""
            if d == "str":
                return ("str",)
            if d == "len":
                return ("int", None, "nonneg")
            if d == "int":
                return ("int",)
            if d == "float":
                return ("float",)
            if isinstance(e.func, ast.Attribute) and e.func.attr == "reflection":
                rt = ft.of(e.func.value)
                names = set()
                for u in members(rt):
                    if u[0] == "inst":
                        if self.prog.is_subclass(u[1], TYPE_BASE):
                            names.add(("list", ("rec", "Type"), None))
                        elif u[1] in CLASS_TO_STRUCT:
                            names.add(("rec", CLASS_TO_STRUCT[u[1]]))
                        else:
                            names.add(("?", "record of unmapped class %s" % u[1]))
                    elif u != ("none",):
                        names.add(("?", "receiver %s" % (u,)))
                if len(names) == 1:
                    return names.pop()
                return ("?", "reflection() on receiver of unknown class")
            cs = self.eng.cg.site_of.get(id(e))
            if cs and len(cs.callees) == 1:
                rt = self.T.return_type(self.prog.functions[cs.callees[0]])
                sh = self.type_shape(rt)
                if sh[0] == "int" and cs.callees[0].endswith("encode_version"):
                    return ("int", None, "nonneg")
                return sh
        t = ft.of(e)
        return self.type_shape(t)

    def type_shape(self, t) -> tuple:
        if t is None:
            return ("?", "untyped expression")
        ms = members(t)
        if ("none",) in ms and len(ms) > 1:
            rest = [u for u in ms if u != ("none",)]
            from ..types_lite import union
            return ("opt", self.type_shape(union(rest)))
        if len(ms) > 1:
            return ("?", "union")
        u = ms[0]
        if u[0] == "prim":
            return {"str": ("str",), "int": ("int",), "float": ("float",), "bool": ("bool",)}.get(u[1], ("?", u[1]))
        if u[0] == "none":
            return ("none",)
        if u[0] == "any":
            return ("any",)
        if u[0] == "list":
            return ("list", self.type_shape(u[1]), None)
        return ("?", str(u))


def fmt_ftype(ft: tuple) -> str:
    k = ft[0]
    if k in ("u", "i"):
        return "%s%d" % (k, ft[1])
    if k in ("f32", "f64", "str"):
        return k
    if k == "array":
        return "[%s, %d]" % (fmt_ftype(ft[1]), ft[2])
    if k == "dyn":
        return "[%s]" % fmt_ftype(ft[1])
    if k == "opt":
        return "Optional[%s]" % fmt_ftype(ft[1])
    return str(ft[1])


def compatible(shape: tuple, ftype: tuple, recs) -> Tuple[Optional[bool], str]:
    """Is a python value shape encodable (and decodable back equal) as FCP type `ftype`?"""
    k = ftype[0]
    if shape[0] == "?":
        return None, shape[1]
    if shape[0] == "any":
        return False, "value is declared Any (e.g. an extension value: int, float, str or list) but the schema field is %s" % (k,)
    if k == "opt":
        if shape[0] == "none":
            return True, ""
        if shape[0] == "opt":
            return compatible(shape[1], ftype[1], recs)
        return compatible(shape, ftype[1], recs)
    if shape[0] == "opt":
        return False, "value may be None but the schema field is not Optional"
    if k == "str":
        return (shape[0] == "str"), "expects str, record provides %s" % shape[0]
    if k in ("u", "i"):
        if shape[0] == "int":
            if len(shape) > 1 and shape[1] is not None and k == "u" and not (0 <= shape[1] < 2 ** ftype[1]):
                return False, "constant %s does not fit u%d" % (shape[1], ftype[1])
            const = len(shape) > 1 and shape[1] is not None
            nonneg = const or (len(shape) > 2 and shape[2] == "nonneg")
            if k == "u" and not nonneg:
                return False, "a Python int that may be negative (the grammar's numbers are signed) is stored as u%d: a negative value decodes as value + 2^%d" % (ftype[1], ftype[1])
            return True, ""
        return False, "expects an integer, record provides %s" % shape[0]
    if k in ("f32", "f64"):
        return (shape[0] in ("float", "int")), "expects a float, record provides %s" % shape[0]
    if k == "dyn":
        if shape[0] != "list":
            return False, "expects a list, record provides %s" % shape[0]
        return compatible(shape[1], ftype[1], recs)
    if k == "array":
        if shape[0] != "list":
            return False, "expects a list, record provides %s" % shape[0]
        if shape[2] is not None and shape[2] != ftype[2]:
            return False, "fixed array of %d, record provides %d elements" % (ftype[2], shape[2])
        return compatible(shape[1], ftype[1], recs)
    if k == "named":
        if shape[0] == "rec":
            return (shape[1] == ftype[1]), "expects record %s, value is record %s" % (ftype[1], shape[1])
        if shape[0] == "anon":
            want = recs.get(ftype[1])
            if want is None:
                return None, "unknown struct %s" % ftype[1]
            keys = set(shape[1])
            wk = {n for n, _, _ in want}
            if keys != wk:
                return False, "inline record has keys %s, struct %s has %s" % (sorted(keys), ftype[1], sorted(wk))
            for n, _, ft2 in want:
                ok, why = compatible(shape[1][n], ft2, recs)
                if ok is not True:
                    return ok, "%s.%s: %s" % (ftype[1], n, why)
            return True, ""
        return False, "expects record %s, record provides %s" % (ftype[1], shape[0])
    return None, "unhandled type"


def run(eng, rep) -> None:
    prog, cg, T = eng.prog, eng.cg, eng.T
    rep.explanation = (
        "reflection.fcp is parsed with the grammar extracted from parser.py (checker's own lark; tree only). For each "
        "spec class with a reflection() method the returned dict literal is compared with the like-named struct: same key "
        "set, each value's inferred kind encodable as the declared FCP type, each key fed from the like-named attribute, "
        "every serialised attribute present; every method called in a record must resolve on the inferred receiver class; "
        "every type constructor used by the reflection schema must be dispatched by the Python codec."
    )
    rep.rule("R12.1", "record key set == struct field set; value kinds encodable as the declared types")
    rep.rule("R12.2", "every method call inside reflection() resolves on the receiver's class")
    rep.rule("R12.3", "type constructors used by reflection.fcp are handled by both codec dispatchers")
    rep.rule("R12.4", "key k is fed from attribute k; no serialised attribute dropped; every concrete Type overrides reflection")
    rep.rule("R12.5", "CLI encode names the struct describing FcpV2.reflection()")
    rep.rule("R12.6", "reflection() returns fresh records: no module-level object returned, no in-place change of another record")
    rep.rule("R12.8", "no fixed-precision number formatting (:f/:e/:g/.N, %f, round, format) on the code that builds reflection records")
    rep.rule("R12.9", "every step of a table of field-annotation handlers builds on the annotations accumulated so far")
    from .lints import fold_step_drops_accumulator
    fold_step_drops_accumulator(eng, rep, "R12.9", ("fcp.parser", "fcp.specs"), "a unit written before a range (or the other way round) is lost from the schema")
    rep.rule("R12.7", "a Type entry built inside a loop that walks a chain of types reads every value from the node the walk is at")
    rep.assume("byte-level losslessness of the codec itself is C01/C02 applied to reflection.fcp; float range metadata is stored as f64 exactly")
    g = Grammar(prog)
    recs = mini_schema(g, eng.read("src", "fcp", "reflection", "reflection.fcp"))
    rep.floor("R12.1", "structs in reflection.fcp", len(recs), 12)
    sh = Shapes(eng, rep)
    n_rec = 0
    described = set()

    def check_record(f: FuncInfo, d: ast.Dict, sname: str, ci: Optional[ClassInfo]):
        nonlocal n_rec
        n_rec += 1
        want = recs.get(sname)
        if want is None:
            rep.violation("R12.1", f.file, f.qual, "record for %s" % sname, "no struct named %s in reflection.fcp" % sname)
            return
        described.add(sname)
        keys = [k.value for k in d.keys if isinstance(k, ast.Constant)]
        if len(keys) != len(d.keys):
            rep.undecided("R12.1", f.file, f.qual, "record for %s" % sname, "non-constant keys")
            return
        wk = [n for n, _, _ in want]
        missing = [k for k in wk if k not in keys]
        extra = [k for k in keys if k not in wk]
        rep.check(not missing and not extra, "R12.1", f.file, f.qual, "keys of %s record" % sname, "== fields of struct %s" % sname,
                  ("record lacks %s (encoding raises KeyError)" % missing if missing else "") + (" record has %s that struct %s does not declare (silently dropped by the encoder: lossy)" % (extra, sname) if extra else ""))
        vals = dict(zip(keys, d.values))
        for kname, ve in vals.items():
            lossy = None
            if isinstance(ve, ast.BoolOp) and isinstance(ve.op, ast.Or):
                lossy = "`%s`: a falsy but valid value (0, 0.0, '') is replaced by the alternative" % norm(ve, 50)
            elif isinstance(ve, ast.IfExp) and not isinstance(ve.test, ast.Compare) and not (isinstance(ve.body, ast.Call) and isinstance(ve.body.func, ast.Attribute) and ve.body.func.attr == "reflection"):
                lossy = "`%s`: the truthiness test also drops 0, 0.0 and ''" % norm(ve, 50)
            if lossy:
                rep.violation("R12.4", f.file, f.qual, "%s.%s = %s" % (sname, kname, norm(ve, 60)), "declared value is not reflected faithfully: " + lossy)
        for n, fid, ft in want:
            if n not in vals:
                continue
            s = sh.of(f, vals[n])
            ok, why = compatible(s, ft, recs)
            site = "%s.%s : %s = %s" % (sname, n, fmt_ftype(ft), norm(vals[n], 70))
            if ok is True:
                rep.ok("R12.1", f.file, f.qual, site, "kind %s encodable as %s" % (s[0], ft[0]))
            elif ok is False:
                rep.violation("R12.1", f.file, f.qual, site, "value kind does not fit the reflection schema: %s" % why)
            else:
                rep.undecided("R12.1", f.file, f.qual, site, why)
        # R12.4 faithfulness
        if ci is not None:
            attrs = T.class_attrs(ci)
            ser = [a for a in ci.field_order] or [a for a in attrs]
            for k in keys:
                if k in attrs and k in vals:
                    pv = Provenance(f.node, stop_names={"self"})
                    src = {a for a in pv.of(vals[k]) if a.startswith("self.")}
                    roots = {a.split(".")[1].split("[")[0] for a in src}
                    okf = k in roots and roots <= {k}
                    rep.check(okf, "R12.4", f.file, f.qual, "%s.%s <- %s" % (sname, k, ",".join(sorted(src)) or "-"), "fed from the like-named attribute",
                              "key '%s' is not fed from self.%s alone (reads %s): the record misdescribes the schema" % (k, k, sorted(roots) or "nothing of self"))
            for a in ser:
                if a in ("version", "devices") and sname == "Fcp":
                    continue
                if a not in keys:
                    rep.violation("R12.4", f.file, f.qual, "attribute %s of %s" % (a, ci.name), "serialised attribute is absent from the reflection record")

    # spec classes
    for cq, sname in CLASS_TO_STRUCT.items():
        ci = prog.classes.get(cq)
        if ci is None:
            raise AnalysisError("anchor vanished: class %s" % cq)
        m = ci.methods.get("reflection")
        if m is None:
            rep.violation("R12.1", ci.file, cq, "def reflection", "class has no reflection(): it cannot be described")
            continue
        ds = returned_dicts(m)
        if not ds:
            rep.undecided("R12.1", m.file, m.qual, "return value", "record is not a dict literal")
            continue
        for d in ds:
            check_record(m, d, sname, ci)
    # type classes
    tb = prog.cls(TYPE_BASE)
    concrete = [c for c in prog.subclasses(TYPE_BASE, strict=True) if not prog.subclasses(c.qual, strict=True)]
    for c in concrete:
        m = prog.find_method(c, "reflection")
        if m is None or m.cls.qual == TYPE_BASE:
            rep.violation("R12.4", c.file, c.qual, "def reflection", "concrete type class inherits Type.reflection, which raises: a field of this type cannot be reflected")
            continue
    seen = set()
    for c in prog.subclasses(TYPE_BASE, strict=True):
        m = c.methods.get("reflection")
        if m is None or m.qual in seen:
            continue
        seen.add(m.qual)
        ds = returned_dicts(m)
        if not ds:
            rep.undecided("R12.1", m.file, m.qual, "return value", "record is not a [dict] literal")
            continue
        for d in ds:
            check_record(m, d, "Type", None)
        # container types must append the inner type's chain
        if "underlying_type" in T.class_attrs(c):
            txt = " ".join(norm(n.value, 300) for n in walk_local(m.node) if isinstance(n, ast.Return) and n.value is not None)
            rep.check("self.underlying_type.reflection()" in txt, "R12.4", m.file, m.qual, "+ self.underlying_type.reflection()", "type chain is flattened in order",
                      "container type does not append its element type's chain: nested types are lost")
    rep.floor("R12.1", "reflection records", n_rec, 8)
    # structs of the schema never produced by any record
    for s in recs:
        if s not in described and s != "DictField":
            rep.info("R12.1", "src/fcp/reflection/reflection.fcp", "-", "struct %s" % s, "no reflection() record targets this struct")

    # ---- R12.6: records are fresh ------------------------------------------------------
    from ..dataflow import stores_in as _stores
    for f in [x for x in prog.functions.values() if x.name == "reflection" and x.cls is not None]:
        for n in walk_local(f.node):
            if isinstance(n, ast.Return) and isinstance(n.value, ast.Name):
                r = prog.resolve_name(f.module, f, n.value.id)
                if r and r[0] == "var":
                    rep.violation("R12.6", f.file, f.qual, norm(n, 50), "a module-level object is returned as a reflection record: every caller (and every schema) shares and can alter it")
        defs = Defs(f.node)
        for kind, tgt, st in _stores(f.node):
            root = tgt
            while isinstance(root, (ast.Attribute, ast.Subscript)):
                root = root.value
            if isinstance(root, ast.Name) and kind in ("mutcall", "sub-store", "aug"):
                vals = [v for k, v, s_ in defs.values(root.id) if v is not None]
                if any(isinstance(v, ast.Call) and isinstance(v.func, ast.Attribute) and v.func.attr == "reflection" for v in vals):
                    rep.violation("R12.6", f.file, f.qual, norm(st, 60), "the record returned by another reflection() is modified in place: if that record is shared the description of other fields changes")
    rep.ok("R12.6", "-", "-", "freshness of records", "scanned")
    # ---- R12.8: numbers are turned into text without a fixed precision -------------------------------
    import re as _re
    roots8 = [x.qual for x in prog.functions.values() if x.name == "reflection" and x.cls is not None]
    cone = set(roots8) | set(cg.reachable(roots8))
    n_fmt = 0
    for q in sorted(cone):
        f8 = prog.functions.get(q)
        if f8 is None or not f8.module.name.startswith("fcp.specs"):
            continue
        for n in walk_local(f8.node):
            lossy = None
            if isinstance(n, ast.FormattedValue) and n.format_spec is not None:
                spec = "".join(c.value for c in n.format_spec.values if isinstance(c, ast.Constant) and isinstance(c.value, str))
                n_fmt += 1
                if _re.search(r"[feEgG%]$|\.\d", spec):
                    lossy = "format spec '%s'" % spec
            elif isinstance(n, ast.BinOp) and isinstance(n.op, ast.Mod) and isinstance(n.left, ast.Constant) and isinstance(n.left.value, str):
                n_fmt += 1
                if _re.search(r"%[-+ 0#]*\d*(\.\d+)?[feEgG]", n.left.value):
                    lossy = "%%-format '%s'" % n.left.value
            elif isinstance(n, ast.Call) and dotted(n.func) == "round":
                n_fmt += 1
                lossy = "round()"
            elif isinstance(n, ast.Call) and dotted(n.func) == "format" and len(n.args) == 2 and isinstance(n.args[1], ast.Constant) and _re.search(r"[feEgG%]$|\.\d", str(n.args[1].value)):
                n_fmt += 1
                lossy = "format(.., '%s')" % n.args[1].value
            elif isinstance(n, ast.Call) and isinstance(n.func, ast.Attribute) and n.func.attr == "format" and isinstance(n.func.value, ast.Constant) and isinstance(n.func.value.value, str) and _re.search(r"\{[^}]*:[^}]*([feEgG%]|\.\d)[^}]*\}", n.func.value.value):
                n_fmt += 1
                lossy = "'%s'.format" % n.func.value.value
            if lossy:
                rep.violation("R12.8", f8.file, f8.qual, norm(n, 60), "a declared number is written into the reflection record with a fixed precision (%s): digits beyond it are dropped, so the described schema differs from the declared one (str()/repr() of a float round-trips; this does not)" % lossy)
    rep.ok("R12.8", "-", "-", "number formatting on the reflection cone", "%d functions, %d formatting sites with an explicit spec" % (len(cone), n_fmt))
    # ---- R12.7: an entry built while walking a chain of types describes the node the walk is at --------
    tkeys = {n for n, _, _ in recs.get("Type", [])}
    n_walk = 0
    for f in [x for x in prog.functions.values() if x.module.name == tb.module.name or x.name == "reflection"]:
        n_walk += 1
        f_locals = {a.arg for a in f.node.args.args + f.node.args.kwonlyargs} | {n.id for n in walk_local(f.node) if isinstance(n, ast.Name) and isinstance(n.ctx, ast.Store)}

        def vnames(e):
            return {n.id for n in ast.walk(e) if isinstance(n, ast.Name) and n.id in f_locals}

        def both_arms(name, st):
            if not isinstance(st, ast.If) or not st.orelse:
                return None
            out = []
            for arm in (st.body, st.orelse):
                if len(arm) == 1 and isinstance(arm[0], ast.If):
                    sub = both_arms(name, arm[0])
                    if sub is None:
                        return None
                    out += sub
                    continue
                hit = [a for a in arm if isinstance(a, ast.Assign) and any(isinstance(t, ast.Name) and t.id == name for t in a.targets)]
                if not hit:
                    return None
                out.append(hit[-1])
            return out
        for loop in [n for n in walk_local(f.node) if isinstance(n, (ast.While, ast.For))]:
            assigned = {}
            for st in loop.body:
                for n in ast.walk(st):
                    if isinstance(n, (ast.Assign, ast.AnnAssign, ast.AugAssign)):
                        for t in (n.targets if isinstance(n, ast.Assign) else [n.target]):
                            if isinstance(t, ast.Name):
                                assigned.setdefault(t.id, []).append((st, n))
            head = loop.test if isinstance(loop, ast.While) else loop.target
            cursors = {n.id for n in ast.walk(head) if isinstance(n, ast.Name) and (n.id in assigned or isinstance(loop, ast.For))}
            if not cursors:
                continue
            for st_i, st in enumerate(loop.body):
                for d in [n for n in ast.walk(st) if isinstance(n, ast.Dict)]:
                    keys = [k.value for k in d.keys if isinstance(k, ast.Constant)]
                    if not tkeys or set(keys) != tkeys:
                        continue
                    for k, v in zip(keys, d.values):
                        site = "'%s': %s (walk over %s)" % (k, norm(v, 40), ",".join(sorted(cursors)))
                        if isinstance(v, ast.Constant):
                            continue
                        names = vnames(v)
                        if isinstance(v, ast.Name):
                            defs_in = assigned.get(v.id, [])
                            uncond = [a for s_, a in defs_in if s_ is a and loop.body.index(s_) < st_i]
                            for s_ in loop.body[:st_i]:
                                uncond += both_arms(v.id, s_) or []
                            if uncond:
                                names = set().union(*[vnames(a.value) for a in uncond]) if all(a.value is not None for a in uncond) else set()
                                if not names:
                                    continue
                            elif defs_in:
                                rep.violation("R12.7", f.file, f.qual, site, "`%s` is set only on some iterations and otherwise keeps the value of an earlier (outer) node: entries of inner nodes inherit it" % v.id)
                                continue
                            else:
                                rep.violation("R12.7", f.file, f.qual, site, "`%s` is fixed before the walk: every entry gets the value of the first node" % v.id)
                                continue
                        foreign = sorted(n for n in names if n not in cursors)
                        if names & cursors and not foreign:
                            rep.ok("R12.7", f.file, f.qual, site, "read from the node the walk is at")
                        elif foreign and any(x == "self" or x not in assigned for x in foreign):
                            rep.violation("R12.7", f.file, f.qual, site, "value is read from %s, not from the node the walk is at (%s): entries of inner nodes repeat the outer node's value" % (",".join(foreign), ",".join(sorted(cursors))))
                        else:
                            rep.undecided("R12.7", f.file, f.qual, site, "origin of the value not recognised")
    rep.ok("R12.7", "-", "-", "iterative chain walks", "%d functions scanned" % n_walk)
    # ---- R12.2 ---------------------------------------------------------------------
    refl_funcs = [f for f in prog.functions.values() if f.name == "reflection" and f.cls is not None]
    n_calls = 0
    for f in refl_funcs:
        ft = T.fn(f)
        for n in ast.walk(f.node):
            if isinstance(n, ast.Call) and isinstance(n.func, ast.Attribute):
                rt = ft.of(n.func.value)
                for u in members(rt):
                    if u[0] == "inst" and u[1] in prog.classes:
                        n_calls += 1
                        ci = prog.classes[u[1]]
                        okm = prog.find_method(ci, n.func.attr) is not None or n.func.attr in T.class_attrs(ci)
                        rep.check(okm, "R12.2", f.file, f.qual, norm(n, 70), "resolves on %s" % ci.name,
                                  "%s has no method '%s': building the record raises AttributeError" % (ci.name, n.func.attr))
                    elif u[0] == "dict" and n.func.attr not in ("items", "keys", "values", "get"):
                        rep.violation("R12.2", f.file, f.qual, norm(n, 70), "dict has no method '%s'" % n.func.attr)
    rep.floor("R12.2", "typed method calls inside reflection()", n_calls, 3)

    # ---- R12.3 ---------------------------------------------------------------------
    used = set()
    for s, fields in recs.items():
        for _, _, ft in fields:
            used |= shape_constructors(ft)
    need = {SHAPE_TO_CLASS[k] for k in used if k in SHAPE_TO_CLASS}
    from .codec_py import find_dispatcher, ENC as _ENC, DEC as _DEC
    for root in (_ENC, _DEC):
        f = find_dispatcher(eng, root)
        if f is None:
            rep.undecided("R12.3", "src/fcp/serde.py", root, "dispatcher", "not found")
            continue
        tests = [n for n in walk_local(f.node) if isinstance(n, ast.Call) and dotted(n.func) == "isinstance" and len(n.args) == 2]
        handled = set()
        for t in tests:
            cs_ = t.args[1].elts if isinstance(t.args[1], ast.Tuple) else [t.args[1]]
            for c in cs_:
                handled.add((dotted(c) or "").split(".")[-1])
        miss = sorted(need - handled)
        rep.check(not miss, "R12.3", f.file, f.qual, "dispatch covers reflection.fcp constructors", "handles %s" % sorted(need),
                  "reflection.fcp uses %s which the codec dispatcher does not handle" % miss)

    # ---- R12.5 ---------------------------------------------------------------------
    enc = prog.functions.get("fcp.__main__.encode")
    if enc is not None:
        for cs in cg.sites_in(enc):
            if "fcp.serde.encode" in cs.callees and len(cs.node.args) >= 3:
                a1, a2 = cs.node.args[1], cs.node.args[2]
                okn = isinstance(a1, ast.Constant) and a1.value == CLASS_TO_STRUCT["fcp.specs.v2.FcpV2"] and a1.value in recs
                rep.check(okn, "R12.5", enc.file, enc.qual, norm(cs.node, 90), "encodes struct 'Fcp'", "CLI does not encode the struct that describes FcpV2.reflection()")
                rep.check(isinstance(a2, ast.Call) and isinstance(a2.func, ast.Attribute) and a2.func.attr == "reflection", "R12.5", enc.file, enc.qual, norm(a2, 60), "value is the schema's reflection record", "CLI does not encode <schema>.reflection()")
