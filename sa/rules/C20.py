"""C20 - module imports are transparent.

R20.1 merge completeness: FcpV2.merge concatenates every declaration list of FcpV2
R20.2 path: module file = all dotted components joined as a path + '.fcp', relative to the importing
      file's directory; the nested transformer is rooted at the imported file
R20.3 every failure branch of the import callback names the module / file
R20.4 the merge happens inside the callback on every success path, with the nested result
"""

from __future__ import annotations

import ast
from typing import List, Set, Dict

from ..front_py import AnalysisError, FuncInfo, walk_local, norm, dotted
from ..dataflow import Defs, Provenance, stores_in
from ..types_lite import members
from ..front_lark import Grammar
from ..callbacks import callbacks, transformer_class


def path_atoms_of(pv, path_arg):
    return {a for a in (pv.of(path_arg) if path_arg is not None else set()) if not a.startswith(("call:", "const:"))}


def mentions(eng, f, expr: ast.AST, names: Set[str], depth: int = 0) -> bool:
    """Does the *value* of expr (a message / node) depend on one of `names` on every path?  Arguments of
    repo functions count only if every return of the callee depends on the corresponding parameter."""
    cg, prog = eng.cg, eng.prog
    if isinstance(expr, ast.Name):
        return expr.id in names
    if isinstance(expr, ast.Attribute):
        return mentions(eng, f, expr.value, names, depth)
    if isinstance(expr, ast.Call):
        cs = cg.site_of.get(id(expr))
        callees = [prog.functions[c] for c in (cs.callees if cs else []) if c in prog.functions]
        if callees and depth < 3 and not any(c.name in ("__init__", "__post_init__") for c in callees):
            # interprocedural: parameter must influence every return of every callee
            for i, a in enumerate(expr.args):
                if mentions(eng, f, a, names, depth):
                    ok_all = True
                    for g in callees:
                        gps = [p.arg for p in g.params]
                        off = 1 if (g.cls is not None and gps and gps[0] == "self") else 0
                        if i + off >= len(gps):
                            ok_all = False
                            break
                        pn = gps[i + off]
                        rets = [n.value for n in walk_local(g.node) if isinstance(n, ast.Return) and n.value is not None]
                        if not rets or not all(mentions(eng, g, r, {pn}, depth + 1) for r in rets):
                            ok_all = False
                    if ok_all:
                        return True
            if isinstance(expr.func, ast.Attribute) and mentions(eng, f, expr.func.value, names, depth) and not callees:
                return True
            return False
        return any(mentions(eng, f, a, names, depth) for a in list(expr.args) + [k.value for k in expr.keywords]) or (isinstance(expr.func, ast.Attribute) and mentions(eng, f, expr.func.value, names, depth))
    if isinstance(expr, ast.JoinedStr):
        return any(isinstance(v, ast.FormattedValue) and mentions(eng, f, v.value, names, depth) for v in expr.values)
    if isinstance(expr, ast.BinOp):
        return mentions(eng, f, expr.left, names, depth) or mentions(eng, f, expr.right, names, depth)
    if isinstance(expr, ast.IfExp):
        return mentions(eng, f, expr.body, names, depth) and mentions(eng, f, expr.orelse, names, depth)
    if isinstance(expr, (ast.Tuple, ast.List)):
        return any(mentions(eng, f, x, names, depth) for x in expr.elts)
    if isinstance(expr, ast.Subscript):
        return mentions(eng, f, expr.value, names, depth)
    return False


def run(eng, rep) -> None:
    prog, cg, T = eng.prog, eng.cg, eng.T
    rep.explanation = (
        "Structural rules on FcpV2.merge and on the transformer callback of the grammar rule for `mod`: merge must "
        "concatenate every List[...] declaration field of FcpV2 (read from the class body) unconditionally; the module path "
        "must derive from all identifier children and the importing file's directory; the nested transformer must be rooted "
        "at the imported file; every error branch must mention the module file; the merge must lie on every success path."
    )
    rep.rule("R20.1", "merge concatenates every declaration list of FcpV2, unconditionally, in order (self first)")
    rep.rule("R20.2", "module path = importing directory / all components joined + '.fcp'; nested transformer rooted at it")
    rep.rule("R20.3", "each failure branch of the import callback mentions the module file")
    rep.rule("R20.5", "the imported module's text is read in the same mode (newline translation) as the top-level file")
    rep.rule("R20.4", "merge of the nested result lies on every success path of the callback")
    rep.rule("R20.7", "a copy of a context record made for an imported module does not keep fields that were derived from the importer's file")
    from .lints import stale_derived_field
    stale_derived_field(eng, rep, "R20.7", ("fcp.parser",), "the imported module's own `mod` statements are resolved against the importer's directory")
    rep.rule("R20.6", "a dotted module name is turned into one path component per identifier, never used as a single component")
    from .lints import dotted_text_as_path_component
    dotted_text_as_path_component(eng, rep, "R20.6", ("fcp.parser",), "`mod a.b.c;` is looked up in a directory literally called \"a.b\" instead of a/b/c.fcp, so a module in a sub-package is not found")
    rep.assume("handler coverage of the nested parse/transform sites is decided by C11 (R11.1/R11.2)")
    v2 = prog.cls("fcp.specs.v2.FcpV2")
    merge = v2.methods.get("merge")
    if merge is None:
        raise AnalysisError("anchor vanished: FcpV2.merge")
    lists = []
    for name in v2.field_order:
        t = T.ann(v2.module, None, v2.ann_fields[name])
        if t and t[0] == "list":
            lists.append(name)
    rep.floor("R20.1", "List[...] declaration fields of FcpV2", len(lists), 5)
    other = merge.params[1].arg if len(merge.params) > 1 else "fcp"
    cfg = eng.cfg(merge)
    for name in lists:
        hits = []
        for n in walk_local(merge.node):
            ok = False
            if isinstance(n, ast.AugAssign) and isinstance(n.op, ast.Add) and norm(n.target) == "self.%s" % name and norm(n.value) in ("%s.%s" % (other, name), "list(%s.%s)" % (other, name)):
                ok = True
            if isinstance(n, ast.Expr) and isinstance(n.value, ast.Call) and norm(n.value.func) == "self.%s.extend" % name and n.value.args and norm(n.value.args[0]) == "%s.%s" % (other, name):
                ok = True
            if isinstance(n, ast.Assign) and norm(n.targets[0]) == "self.%s" % name and norm(n.value) in ("self.%s + %s.%s" % (name, other, name),):
                ok = True
            if ok:
                hits.append(n)
        if not hits:
            near = [norm(n, 60) for n in walk_local(merge.node) if isinstance(n, (ast.AugAssign, ast.Assign, ast.Expr)) and ("self.%s" % name) in norm(n)]
            if near:
                rep.violation("R20.1", merge.file, merge.qual, "self.%s" % name, "declarations of an imported module are not appended in order: %s" % near[0])
            else:
                rep.violation("R20.1", merge.file, merge.qual, "self.%s += %s.%s" % (name, other, name), "merge does not carry over the imported module's %s: they silently disappear from the importing schema" % name)
            continue
        nid = cfg.node_for(hits[0])
        uncond = nid is not None and cfg.exit not in cfg.reachable_avoiding(cfg.entry, {nid})
        rep.check(uncond, "R20.1", merge.file, merge.qual, norm(hits[0]), "appended on every path", "the imported module's %s are merged only on some paths" % name)

    # ---- the import callback ---------------------------------------------------------
    g = Grammar(prog)
    cbs = callbacks(eng, g)
    cb = cbs.get("mod_expr")
    if cb is None:
        raise AnalysisError("anchor vanished: callback for grammar rule mod_expr")
    f = cb.f
    defs = Defs(f.node)
    pv = Provenance(f.node)
    tcls = transformer_class(eng)
    # the nested transformer construction
    ctor = None
    for cs in cg.sites_in(f):
        if cs.how == "ctor" and any(c.startswith(tcls.qual + ".") for c in cs.callees):
            ctor = cs
    def is_read(cs):
        return "builtins.open" in cs.externals or any(c.endswith("FileSystemProxy.read") or c.endswith("IFileSystemProxy.read") for c in cs.callees) \
            or (isinstance(cs.node.func, ast.Attribute) and cs.node.func.attr in ("read_text", "read_bytes") and (not cs.callees or cs.how == "by-name"))

    def path_of(cs):
        if isinstance(cs.node.func, ast.Attribute) and cs.node.func.attr in ("read_text", "read_bytes") and (not cs.callees or cs.how == "by-name"):
            return cs.node.func.value
        return cs.node.args[0] if cs.node.args else None

    def read_mode(fn_node):
        """how a function turns a file into text: 'text' (universal newlines), 'binary' (bytes decoded by hand: no newline
        translation), 'raw-newlines' (text mode with newline= given) or None"""
        modes = []
        for n in walk_local(fn_node):
            if not isinstance(n, ast.Call):
                continue
            if isinstance(n.func, ast.Name) and n.func.id == "open" or (isinstance(n.func, ast.Attribute) and n.func.attr == "open" and norm(n.func.value) in ("io", "codecs")):
                md = n.args[1] if len(n.args) > 1 else next((k.value for k in n.keywords if k.arg == "mode"), None)
                if md is not None and not isinstance(md, ast.Constant):
                    modes.append(None)
                elif md is not None and "b" in str(md.value):
                    modes.append("binary")
                elif any(k.arg == "newline" for k in n.keywords) or (isinstance(n.func, ast.Attribute) and norm(n.func.value) == "codecs"):
                    modes.append("raw-newlines")
                else:
                    modes.append("text")
            elif isinstance(n.func, ast.Attribute) and n.func.attr == "read_text":
                modes.append("raw-newlines" if any(k.arg == "newline" for k in n.keywords) else "text")
            elif isinstance(n.func, ast.Attribute) and n.func.attr == "read_bytes":
                modes.append("binary")
            elif isinstance(n.func, ast.Attribute) and n.func.attr == "open" and not n.args or (isinstance(n.func, ast.Attribute) and n.func.attr == "open" and n.args and isinstance(n.args[0], ast.Constant) and isinstance(n.args[0].value, str) and len(n.args[0].value) <= 3):
                md = n.args[0].value if n.args else "r"
                modes.append("binary" if "b" in md else ("raw-newlines" if any(k.arg == "newline" for k in n.keywords) else "text"))
        return modes
    opens = [cs for cs in cg.sites_in(f) if is_read(cs)]
    read_helper = None
    if not opens:
        # the read may sit in a one-level helper that receives the path
        for cs in cg.sites_in(f):
            if read_helper is None and len(cs.callees) == 1 and cs.how in ("direct", "method") and cs.callees[0] in prog.functions:
                gfn = prog.functions[cs.callees[0]]
                if gfn.module is f.module and any(is_read(c2) for c2 in cg.sites_in(gfn)) and cs.node.args:
                    opens.append(cs)
                    read_helper = gfn
    if read_helper is not None:
        memo = [norm(d, 60) for d in read_helper.node.decorator_list if any(t in norm(d, 60) for t in ("lru_cache", "cache", "memoize", "memoise"))]
        for d in memo:
            rep.violation("R20.2", read_helper.file, read_helper.qual, "@" + d, "the module text is memoised per path for the whole process: a second load after the module file changed (or of another project at the same relative path) combines the fresh top-level file with the stale module text")["construct_level"] = True
        from ..dataflow import stores_in as _stores
        for kind, tgt, st in _stores(read_helper.node):
            root = tgt
            while isinstance(root, (ast.Attribute, ast.Subscript)):
                root = root.value
            if isinstance(root, ast.Name) and root.id in read_helper.module.assigns and root.id not in read_helper.local_names():
                rep.violation("R20.2", read_helper.file, read_helper.qual, norm(st, 60), "module text is kept in module-level object '%s' between loads: a later load sees the text of an earlier one" % root.id)["construct_level"] = True
    if ctor is None or not opens:
        raise AnalysisError("anchor vanished: nested transformer construction / module read in the import callback")
    # R20.2 - the path expression is the argument of the read
    path_arg = path_of(opens[0])
    atoms = pv.of(path_arg) if path_arg is not None else set()
    children_all = any(a.startswith(cb.children_src) and not a[len(cb.children_src):].startswith("[") for a in atoms)
    partial = sorted(a for a in atoms if a.startswith(cb.children_src + "["))
    rep.check(children_all and not partial, "R20.2", f.file, f.qual, "module path <- %s" % ",".join(sorted(a for a in atoms if not a.startswith("call:"))[:8]),
              "all dotted components are used", "module path uses only some of the dotted components (%s): nested module paths resolve to the wrong file" % (partial or "none of tree.children"))
    rep.check("const:'.fcp'" in atoms, "R20.2", f.file, f.qual, "suffix '.fcp'", "module files are <path>.fcp", "module path lacks the '.fcp' suffix")
    rel = any(a.startswith("self.path") for a in atoms)
    rep.check(rel, "R20.2", f.file, f.qual, "relative to self.path", "resolved against the importing file's directory", "module path is not resolved relative to the importing file's directory")
    # join is with '/', components joined by '.' then replaced, or '/'.join
    txt = norm(path_arg, 300) if path_arg is not None else ""
    full = " ".join(norm(v, 300) for k, v, st in defs.values(path_arg.id) if v is not None) if isinstance(path_arg, ast.Name) else txt
    okjoin = ("'/'.join(" in full) or ("'.'.join(" in full and ".replace('.', '/')" in full) or ("os.path.join(*" in full) or ("joinpath(*" in full)
    rep.check(okjoin, "R20.2", f.file, f.qual, "components joined as a path", "a.b.c -> a/b/c", "dotted module components are not joined with '/' into a path")
    # self.path is the importing file's directory
    init = tcls.methods.get("__init__")
    okp = False
    if init is not None:
        for n in walk_local(init.node):
            if isinstance(n, ast.Assign) and norm(n.targets[0]) == "self.path" and norm(n.value) in ("self.filename.parent", "pathlib.Path(filename).parent", "self.filename.resolve().parent"):
                okp = True
    rep.check(okp, "R20.2", tcls.file, tcls.qual + ".__init__", "self.path = self.filename.parent", "directory of the file being transformed", "self.path is not the directory of the file being transformed")
    # the transformer's own location is fixed at construction
    for mname, m in tcls.methods.items():
        if mname == "__init__":
            continue
        for kind, tgt, st in stores_in(m.node):
            if norm(tgt).split("[")[0] in ("self.path", "self.filename"):
                rep.violation("R20.2", m.file, m.qual, norm(st, 60), "the importing file's location is changed while transforming: later imports in the same file resolve against a different directory")
    # the text parsed is, on every path, what was read from the resolved module path
    psites0 = [cs for cs in cg.sites_in(f) if any(x.endswith("Lark.parse") for x in cs.externals)]
    if psites0 and psites0[0].node.args and isinstance(psites0[0].node.args[0], ast.Name):
        sname = psites0[0].node.args[0].id
        for k, v, st in defs.values(sname):
            if v is None:
                continue
            a_v = pv.of(v)
            reads_file = ("call:.read" in a_v or "call:.read_text" in a_v or "call:.read_bytes" in a_v or (read_helper is not None and "call:" + read_helper.name in a_v)) and bool(path_atoms_of(pv, path_arg) & a_v)
            rep.check(reads_file, "R20.2", f.file, f.qual, "%s = %s" % (sname, norm(v, 50)), "module text is read from the resolved path",
                      "on some path the text parsed for the module is not read from the resolved module path (%s): a different file's declarations are imported" % ",".join(sorted(x for x in a_v if not x.startswith("const:"))[:4]))
    # R20.5 - the module file becomes text the same way the top-level file does
    top_modes = []
    for q, fn_ in prog.functions.items():
        if fn_.name == "read" and fn_.cls is not None and fn_.cls.name == "FileSystemProxy":
            top_modes = read_mode(fn_.node)
    mod_modes = read_mode(read_helper.node if read_helper is not None else f.node)
    if top_modes and mod_modes and None not in top_modes + mod_modes:
        same = set(top_modes) == set(mod_modes)
        rep.check(same, "R20.5", f.file, (read_helper or f).qual, "module file read: %s; top-level file read: %s" % ("/".join(sorted(set(mod_modes))), "/".join(sorted(set(top_modes)))),
                  "both reads translate newlines the same way", "the imported module is read as %s while the top-level file is read as %s: line endings (CRLF) are translated in one and not in the other, so a declaration that parses in the single file fails (or differs) once moved to a module" % ("/".join(sorted(set(mod_modes))), "/".join(sorted(set(top_modes)))))
    else:
        rep.undecided("R20.5", f.file, f.qual, "read modes", "form of a file read not recognised (top-level %s, module %s)" % (top_modes, mod_modes))
    # nested transformer rooted at the imported file
    a0 = ctor.node.args[0] if ctor.node.args else None
    a0_atoms = pv.of(a0) if a0 is not None else set()
    path_atoms = {a for a in atoms if not a.startswith(("call:", "const:"))}
    rooted = bool(path_atoms) and path_atoms <= a0_atoms
    rep.check(rooted and not any(a.startswith("self.filename") for a in a0_atoms), "R20.2", f.file, f.qual, "nested transformer(%s, ...)" % (norm(a0, 50) if a0 is not None else ""),
              "rooted at the imported file (nested imports resolve relative to it)", "nested transformer is not rooted at the imported module file: imports inside the module resolve against the wrong directory")
    # the text parsed is the text read from that file, and the tree transformed is that parse
    # (covered by R11.4 for add_source; here: transform(<parse result>))
    tsites = [cs for cs in cg.sites_in(f) if any(x.endswith("Transformer.transform") for x in cs.externals)]
    psites = [cs for cs in cg.sites_in(f) if any(x.endswith("Lark.parse") for x in cs.externals)]
    if tsites and psites and tsites[0].node.args:
        ta = tsites[0].node.args[0]
        def reaches_parse(e, seen, depth=0) -> bool:
            """e evaluates to the parse result, possibly wrapped/unwrapped on the way (Ok(..), .attempt(), .unwrap()) and bound to locals"""
            if depth > 6:
                return False
            if any(x is psites[0].node for x in ast.walk(e)):
                return True
            for nm_ in [x.id for x in ast.walk(e) if isinstance(x, ast.Name) and isinstance(x.ctx, ast.Load)]:
                if nm_ in seen:
                    continue
                seen.add(nm_)
                for k_, v_, st_ in defs.values(nm_):
                    if v_ is not None and reaches_parse(v_, seen, depth + 1):
                        return True
            return False
        okt = isinstance(ta, ast.Name) and reaches_parse(ta, set())
        rep.check(okt, "R20.2", f.file, f.qual, "transform(%s)" % norm(ta, 30), "the imported module's parse tree is what is transformed", "the tree transformed is not the parse of the imported module")
    # ---- R20.4 ----------------------------------------------------------------------
    msites = [cs for cs in cg.sites_in(f) if merge.qual in cs.callees]
    cfgf = eng.cfg(f)
    if not msites:
        rep.violation("R20.4", f.file, f.qual, "self.fcp.merge(...)", "the import callback never merges the imported declarations")
    else:
        ms = msites[0]
        recv_ok = norm(ms.node.func.value) == "self.fcp" if isinstance(ms.node.func, ast.Attribute) else False
        rep.check(recv_ok, "R20.4", f.file, f.qual, norm(ms.node.func, 40), "merged into the tree being accumulated", "merge target is not the tree the transformer accumulates (self.fcp)")
        marg = pv.of(ms.node.args[0]) if ms.node.args else set()
        okarg = "call:.transform" in marg
        attempted = "call:.attempt" in marg or "call:.unwrap" in marg
        rep.check(bool(okarg) and attempted, "R20.4", f.file, f.qual, "merge(<nested result>.attempt())", "the nested transformer's schema (attempted) is merged", "what is merged is not the attempted result of transforming the imported module")
        mnode = cfgf.stmt_node_containing(ms.node)
        # every `return Ok(...)` is reached only through the merge
        for n in walk_local(f.node):
            if isinstance(n, ast.Return) and isinstance(n.value, ast.Call) and dotted(n.value.func) == "Ok":
                rn = cfgf.node_for(n)
                rep.check(mnode is not None and rn is not None and cfgf.every_path_passes(rn, {mnode}), "R20.4", f.file, f.qual, "return Ok(()) after merge",
                          "every success path merges", "a success path of the import callback returns without merging the module")
    rep.check(f.has_decorator("catch"), "R20.4", f.file, f.qual, "@catch", "nested failure is returned as an error value", "import callback lacks @catch: a failing module raises instead of returning an error")
    # ---- R20.3 ----------------------------------------------------------------------
    fname_roots = {"filename"} | {n for n, bs in defs.binds.items() if path_arg is not None and isinstance(path_arg, ast.Name) and n == path_arg.id}
    # locals derived from the module path (module_name = filename.name, import_site = Token(...)) carry it too
    grew = True
    while grew:
        grew = False
        for n_, bs in defs.binds.items():
            if n_ in fname_roots:
                continue
            vals_ = [v for k, v, st in bs if k == "assign" and v is not None]
            if len(vals_) == 1 and mentions(eng, f, vals_[0], fname_roots):
                fname_roots.add(n_)
                grew = True
    n_err = 0
    for n in ast.walk(f.node):
        if isinstance(n, ast.Call):
            cs = cg.site_of.get(id(n))
            is_err = cs is not None and ("fcp.error.error" in cs.callees or "fcp.error.FcpError.results_in" in cs.callees)
            if not is_err:
                continue
            n_err += 1
            exc_names = {h.name for h in ast.walk(f.node) if isinstance(h, ast.ExceptHandler) and h.name and h.type is not None and "FileNotFound" in norm(h.type)}
            okm = any(mentions(eng, f, x, fname_roots | exc_names) for x in list(n.args) + [k.value for k in n.keywords])
            if not okm:
                # arguments that are locals set differently on the arms of a preceding if: each arm must name the module
                arg_names = [x.id for x in list(n.args) + [k.value for k in n.keywords] if isinstance(x, ast.Name)]
                for blk in [b_ for b_ in ast.walk(f.node) if isinstance(getattr(b_, "body", None), list)]:
                    for fld in ("body", "orelse", "handlers"):
                        seq = getattr(blk, fld, None)
                        if not isinstance(seq, list):
                            continue
                        stmts_ = [x_ for x_ in seq if isinstance(x_, ast.stmt)]
                        idx = next((i_ for i_, st_ in enumerate(stmts_) if any(y is n for y in ast.walk(st_))), None)
                        if idx is None:
                            continue
                        prev_ifs = [st_ for st_ in stmts_[:idx] if isinstance(st_, ast.If) and st_.orelse]
                        if not prev_ifs:
                            continue
                        the_if = prev_ifs[-1]

                        def arm_names(arm):
                            """True when on EVERY path through `arm` one of the arguments is (re)bound to something that names the module"""
                            for a_ in arm:
                                if isinstance(a_, (ast.Assign, ast.AugAssign)):
                                    tg = a_.targets[0] if isinstance(a_, ast.Assign) else a_.target
                                    if isinstance(tg, ast.Name) and tg.id in arg_names and mentions(eng, f, a_.value, fname_roots | exc_names):
                                        return True
                                elif isinstance(a_, ast.If):
                                    if a_.orelse and arm_names(a_.body) and arm_names(a_.orelse):
                                        return True
                            return False
                        if arm_names(the_if.body) and arm_names(the_if.orelse):
                            okm = True
            rep.check(okm, "R20.3", f.file, f.qual, norm(n, 90), "error mentions the module file",
                      "failure while importing a module is reported without naming the module/file (on some path neither the message nor the cited node carries the module's file name)")
    rep.floor("R20.3", "error constructions in the import callback", n_err, 1)
