"""Shared analysis of the Python codec (fcp.serde): cursor class facts, primitive normal forms,
effect grammars per type constructor.  Used by C01, C02, C16 (and C12/C13 for cross checks)."""

from __future__ import annotations

import ast
from typing import Dict, List, Optional, Set, Tuple

from ..front_py import AnalysisError, FuncInfo, ClassInfo, walk_local, norm, dotted
from ..dataflow import Defs, Provenance, parent_map
from ..effects import Interp, Unsupported, TypeV, FcpV, BufV, DataV, WordV, IntV, StrV, Unknown

ENC, DEC = "fcp.serde.encode", "fcp.serde.decode"
TYPE_BASE = "fcp.specs.type.Type"


# ---------------------------------------------------------------- linear forms
def lin(e: ast.AST, names: Dict[str, str]) -> Optional[Dict[str, int]]:
    """Linear form {var: coeff, '': const} of an integer expression; None if not linear."""
    if isinstance(e, ast.Constant) and isinstance(e.value, int) and not isinstance(e.value, bool):
        return {"": e.value}
    t = norm(e)
    if t in names:
        return {names[t]: 1}
    if isinstance(e, ast.Name):
        return {e.id: 1}
    if isinstance(e, ast.BinOp):
        a, b = lin(e.left, names), lin(e.right, names)
        if a is None or b is None:
            return None
        if isinstance(e.op, (ast.Add, ast.Sub)):
            s = 1 if isinstance(e.op, ast.Add) else -1
            out = dict(a)
            for k, v in b.items():
                out[k] = out.get(k, 0) + s * v
            return {k: v for k, v in out.items() if v != 0 or k == ""}
        if isinstance(e.op, ast.Mult):
            if set(a) <= {""}:
                c = a.get("", 0)
                return {k: v * c for k, v in b.items()}
            if set(b) <= {""}:
                c = b.get("", 0)
                return {k: v * c for k, v in a.items()}
        return None
    if isinstance(e, ast.UnaryOp) and isinstance(e.op, ast.USub):
        a = lin(e.operand, names)
        return None if a is None else {k: -v for k, v in a.items()}
    return None


def lin_eq(a: Optional[Dict[str, int]], b: Dict[str, int]) -> Optional[bool]:
    if a is None:
        return None
    na = {k: v for k, v in a.items() if v != 0}
    nb = {k: v for k, v in b.items() if v != 0}
    return na == nb


def fmt_lin(a: Optional[Dict[str, int]]) -> str:
    if a is None:
        return "<non-linear>"
    parts = []
    for k, v in sorted(a.items()):
        if v == 0:
            continue
        parts.append(("%d" % v) if k == "" else (k if v == 1 else "%d*%s" % (v, k)))
    return " + ".join(parts) or "0"


def byte_index_of(e: ast.AST) -> Optional[ast.AST]:
    """x >> 3 | x // 8  -> x"""
    if isinstance(e, ast.BinOp) and isinstance(e.right, ast.Constant):
        if isinstance(e.op, ast.RShift) and e.right.value == 3:
            return e.left
        if isinstance(e.op, ast.FloorDiv) and e.right.value == 8:
            return e.left
    return None


def bit_index_of(e: ast.AST) -> Optional[ast.AST]:
    """x & 7 | x % 8 -> x"""
    if isinstance(e, ast.BinOp) and isinstance(e.right, ast.Constant):
        if isinstance(e.op, ast.BitAnd) and e.right.value == 7:
            return e.left
        if isinstance(e.op, ast.Mod) and e.right.value == 8:
            return e.left
    if isinstance(e, ast.BinOp) and isinstance(e.left, ast.Constant) and isinstance(e.op, ast.BitAnd) and e.left.value == 7:
        return e.right
    return None


def _lin_off(e: ast.AST, C: str) -> Optional[Dict[str, int]]:
    """linear form where the cursor is 'cursor' and (cursor & 7 | cursor % 8) is the symbol 'off'"""
    if bit_index_of(e) is not None and norm(bit_index_of(e)) == C:
        return {"off": 1}
    if isinstance(e, ast.BinOp) and isinstance(e.op, (ast.Add, ast.Sub)):
        a, b = _lin_off(e.left, C), _lin_off(e.right, C)
        if a is None or b is None:
            return None
        sgn = 1 if isinstance(e.op, ast.Add) else -1
        out = dict(a)
        for k, v in b.items():
            out[k] = out.get(k, 0) + sgn * v
        return out
    return lin(e, {C: "cursor"})


def _byte_terms(e: ast.AST, C: str):
    """e = sum of (lin >> 3) terms + constant  ->  (list of inner linear forms, constant) ; None if not of that shape"""
    terms, k = [], 0
    work = [(e, 1)]
    while work:
        x, sg = work.pop()
        if isinstance(x, ast.BinOp) and isinstance(x.op, (ast.Add, ast.Sub)):
            work.append((x.left, sg))
            work.append((x.right, sg if isinstance(x.op, ast.Add) else -sg))
            continue
        if isinstance(x, ast.Constant) and isinstance(x.value, int):
            k += sg * x.value
            continue
        inner = byte_index_of(x)
        if inner is None or sg != 1:
            return None
        l = _lin_off(inner, C)
        if l is None:
            return None
        terms.append(l)
    return terms, k


def window_verdict(lower: ast.AST, upper: ast.AST, C: str, bitsp: Optional[str]):
    """Slice store[lower:upper] read by a word primitive for `bits` bits at the bit cursor C.
    -> True (the upper bound always reaches the byte after the word's last bit), a str (it can fall short: violation
    text), None (not decided).  Arithmetic on (x >> 3) forms with off = cursor & 7 in [0, 7]."""
    if bitsp is None:
        return None
    U = _byte_terms(upper, C)
    L = _byte_terms(lower, C)
    if U is None or L is None or len(L[0]) != 1 or L[1] != 0 or {k: v for k, v in L[0][0].items() if v} != {"cursor": 1}:
        return None
    terms, k = U
    # needed: upper >= (cursor >> 3) + ((off + bits + 7) >> 3)
    rest = [t for t in terms if {kk: v for kk, v in t.items() if v} != {"cursor": 1}]
    base = len(terms) - len(rest)
    if base == 1 and len(rest) == 1:
        t = {kk: v for kk, v in rest[0].items() if v}
        c = t.get("", 0) + 8 * k
        if t.get(bitsp) == 1 and set(t) <= {bitsp, "off", ""}:
            if t.get("off", 0) == 1:
                return True if c >= 7 else "the slice ends at byte (off + %s + %d >> 3) past the first: %s short of ceil((off + %s) / 8) - the word's top bits are not read" % (bitsp, c, "up to one byte", bitsp)
            if t.get("off", 0) == 0:
                if c >= 14:
                    return True
                return "the slice spans (%s + %d >> 3) bytes from the cursor's byte and ignores the bit offset inside that byte: a field that does not start on a byte boundary can need one byte more (e.g. 8 bits at offset 4), its top bits are read as 0" % (bitsp, c)
        return None
    if base == 0 and len(rest) == 1:
        t = {kk: v for kk, v in rest[0].items() if v}
        c = t.get("", 0) + 8 * k
        if t.get("cursor") == 1 and t.get(bitsp) == 1 and set(t) <= {"cursor", bitsp, ""}:
            return True if c >= 7 else "the slice ends at (cursor + %s + %d >> 3): the byte holding the word's last bits is cut off when the word does not end on a byte boundary" % (bitsp, c)
    return None


class CursorClass:
    def __init__(self, eng, ci: ClassInfo, reader: Optional[ClassInfo] = None):
        """`reader`: the decode side's class when the buffer is split into a writer (ci) and a reader class; the two are
        read as one class (methods united; both must keep their bytes and their bit cursor under the same attribute names)."""
        self.eng = eng
        self.quals = {ci.qual} | ({reader.qual} if reader is not None else set())
        self.names = {ci.name} | ({reader.name} if reader is not None else set())
        if reader is not None:
            import dataclasses
            merged = dict(reader.methods)
            merged.update(ci.methods)
            ci = dataclasses.replace(ci, methods=merged)
        self.ci = ci
        self.store: Optional[str] = None
        self.cursor: Optional[str] = None
        init = ci.methods.get("__init__")
        if init is None:
            raise AnalysisError("cursor class %s has no __init__" % ci.qual)
        for n in walk_local(init.node):
            tgt = val = None
            if isinstance(n, ast.AnnAssign):
                tgt, val = n.target, n.value
            elif isinstance(n, ast.Assign):
                tgt, val = n.targets[0], n.value
            if isinstance(tgt, ast.Attribute) and isinstance(tgt.value, ast.Name) and tgt.value.id == "self":
                if isinstance(val, (ast.List,)) or (isinstance(val, ast.Call) and dotted(val.func) in ("list", "bytearray")):
                    self.store = tgt.attr
                elif isinstance(val, ast.Constant) and val.value == 0:
                    self.cursor = tgt.attr
        if self.store is None or self.cursor is None:
            raise AnalysisError("cannot identify store/cursor fields of %s" % ci.qual)
        if reader is not None:
            rinit = reader.methods.get("__init__")
            rattrs = {t.attr for n in walk_local(rinit.node) if isinstance(n, (ast.Assign, ast.AnnAssign)) for t in (n.targets if isinstance(n, ast.Assign) else [n.target])
                      if isinstance(t, ast.Attribute) and isinstance(t.value, ast.Name) and t.value.id == "self"} if rinit is not None else set()
            if not {self.store, self.cursor} <= rattrs:
                raise AnalysisError("writer class %s and reader class %s do not keep bytes and cursor under the same attribute names" % (ci.qual, reader.qual))
        self.S = "self.%s" % self.store
        self.C = "self.%s" % self.cursor

    # facts per method -------------------------------------------------------------
    def store_reads(self, m: FuncInfo):
        out = []
        for n in ast.walk(m.node):
            if isinstance(n, ast.Subscript) and isinstance(n.ctx, ast.Load) and norm(n.value) == self.S:
                out.append(n)
        return out

    def store_writes(self, m: FuncInfo):
        out = []  # (kind, node)
        for n in walk_local(m.node):
            if isinstance(n, (ast.Assign, ast.AugAssign)):
                tgts = n.targets if isinstance(n, ast.Assign) else [n.target]
                for t in tgts:
                    if isinstance(t, ast.Subscript) and norm(t.value) == self.S:
                        out.append(("elem", n))
                    elif norm(t) == self.S:
                        out.append(("whole", n))
            elif isinstance(n, ast.Call) and isinstance(n.func, ast.Attribute) and norm(n.func.value) == self.S and n.func.attr in ("append", "extend", "insert", "pop", "clear", "__setitem__"):
                out.append((n.func.attr, n))
        return out

    def cursor_writes(self, m: FuncInfo):
        return [n for n in walk_local(m.node) if isinstance(n, (ast.Assign, ast.AugAssign)) and any(norm(t) == self.C for t in (n.targets if isinstance(n, ast.Assign) else [n.target]))]

    def uses_cursor(self, m: FuncInfo) -> bool:
        return any(isinstance(n, ast.Attribute) and norm(n) == self.C for n in ast.walk(m.node))

    def self_calls(self, m: FuncInfo):
        return [n for n in ast.walk(m.node) if isinstance(n, ast.Call) and isinstance(n.func, ast.Attribute) and isinstance(n.func.value, ast.Name) and n.func.value.id == "self" and n.func.attr in self.ci.methods]


def find_cursor_class(eng) -> CursorClass:
    prog, cg = eng.prog, eng.cg

    def buffer_like(ci: ClassInfo) -> bool:
        init = ci.methods.get("__init__")
        if init is None:
            return False
        zero = any(isinstance(n, (ast.Assign, ast.AnnAssign)) and isinstance(n.value, ast.Constant) and n.value.value == 0 for n in walk_local(init.node))
        return zero and ci.module.name.startswith("fcp.")
    found = {}
    for root in (ENC, DEC):
        f = prog.func(root)
        for cs in cg.sites_in(f):
            if cs.how == "ctor":
                for c in cs.callees:
                    cq = c.rsplit(".", 1)[0]
                    if cq in prog.classes and buffer_like(prog.classes[cq]) and not prog.is_subclass(cq, "fcp.specs.type.Type"):
                        found.setdefault(cq, set()).add(root)
        # or a module-level instance used by the entry point
        for n in ast.walk(f.node):
            if isinstance(n, ast.Name) and n.id in f.module.assigns and isinstance(f.module.assigns[n.id], ast.Call):
                r = prog.resolve_expr_symbol(f.module, None, f.module.assigns[n.id].func)
                if r and r[0] == "class" and buffer_like(prog.classes[r[1]]):
                    found.setdefault(r[1], set()).add(root)
    both = [q for q, rs in found.items() if rs == {ENC, DEC}]
    if both:
        return CursorClass(eng, prog.classes[sorted(both)[0]])
    w = sorted(q for q, rs in found.items() if rs == {ENC})
    r = sorted(q for q, rs in found.items() if rs == {DEC})
    if len(w) == 1 and len(r) == 1:
        return CursorClass(eng, prog.classes[w[0]], prog.classes[r[0]])
    if found:
        return CursorClass(eng, prog.classes[sorted(found)[0]])
    raise AnalysisError("anchor vanished: no cursor class used by fcp.serde.encode/decode")


# ---------------------------------------------------------------- primitive recognition
class Prims:
    """Recognises bit/word primitives of the cursor class and their normal forms."""

    def __init__(self, eng, cc: CursorClass):
        self.eng, self.cc = eng, cc
        self.bit_set: Optional[FuncInfo] = None
        self.bit_get: Optional[FuncInfo] = None
        self.word_push: Dict[str, FuncInfo] = {}
        self.word_read: Dict[str, FuncInfo] = {}
        self.findings: List[Tuple[str, str, FuncInfo, str, str]] = []  # (verdict, rule-tag, method, construct, detail)
        self.word_prims: Dict[str, Tuple[str, int]] = {}
        self.sigs: Dict[str, tuple] = {}
        self._classify()

    def note(self, verdict, tag, m, construct, detail):
        self.findings.append((verdict, tag, m, construct, detail))

    def _classify(self):
        cc = self.cc
        for name, m in cc.ci.methods.items():
            if name.startswith("__"):
                continue
            ps = [p.arg for p in m.params][1:]
            writes = cc.store_writes(m)
            reads = cc.store_reads(m)
            if not cc.uses_cursor(m) and not cc.self_calls(m):
                if writes and any(k == "elem" for k, _ in writes) and len(ps) == 2:
                    self.bit_set = m
                elif reads and not writes and len(ps) == 1:
                    self.bit_get = m
        names = {cc.C: "cursor"}
        self.byte_prims: Dict[str, Tuple[str, int]] = {}
        for name, m in cc.ci.methods.items():
            if name.startswith("__") or m in (self.bit_set, self.bit_get):
                continue
            ps = [p.arg for p in m.params][1:]
            calls = cc.self_calls(m)
            cnames = {c.func.attr for c in calls}
            direct_w = bool(cc.store_writes(m))
            direct_r = bool(cc.store_reads(m))
            via_set = bool(self.bit_set) and self.bit_set.name in cnames
            via_get = bool(self.bit_get) and self.bit_get.name in cnames
            if not cc.uses_cursor(m) or not (direct_w or direct_r or via_set or via_get):
                continue
            kind = "push" if (direct_w or via_set) else "read"
            # which parameter measures the transfer?  read it off the cursor advance
            unit = None
            for n in cc.cursor_writes(m):
                la = None
                if isinstance(n, ast.AugAssign) and isinstance(n.op, ast.Add):
                    la = lin(n.value, names)
                elif isinstance(n, ast.Assign):
                    la = lin(n.value, names)
                    if la is not None and la.get("cursor") == 1:
                        la = {k: v for k, v in la.items() if k != "cursor"}
                    else:
                        la = None
                if la:
                    for i, p_ in enumerate(ps):
                        if la.get(p_) == 1 and unit is None:
                            unit = ("bits", i)
                        elif la.get(p_) == 8 and unit is None:
                            unit = ("bytes", i)
            if unit is None:
                # no recognisable advance: assume the conventional (word, bits) / (bits) shape
                if kind == "push" and len(ps) == 2:
                    unit = ("bits", 1)
                elif kind == "read" and len(ps) == 1:
                    unit = ("bits", 0)
                elif kind == "push" and len(ps) == 1:
                    unit = ("bytes-list", 0)
                else:
                    continue
            if unit[0] == "bits":
                (self.word_push if kind == "push" else self.word_read)[name] = m
                self.word_prims[name] = (kind, unit[1])
            else:
                self.byte_prims[name] = (kind, unit[1])

    # -- normal forms ----------------------------------------------------------------
    def check_bit_prims(self):
        """Bit primitives in semantic normal form (locals resolved, divmod/`//`/`%`/`>>`/`&` unified):
             set: store[A div 8] |= bit << (A mod 8)      get: (store[A div 8] >> (A mod 8)) & 1
        A form that is not recognised is UNDECIDED; a recognised form with a wrong component is a violation."""
        from ..dataflow import deep_resolve
        cc = self.cc
        m = self.bit_set
        if m is None:
            self.note("undecided", "bitmap", cc.ci.methods.get("__init__"), "bit-set primitive", "no method of the recognised shape (bit, addr) found")
        else:
            ps = [p.arg for p in m.params][1:]
            for kind, n in cc.store_writes(m):
                if kind != "elem":
                    continue
                t = n.targets[0] if isinstance(n, ast.Assign) else n.target
                idx = deep_resolve(m.node, t.slice)
                base = byte_index_of(idx)
                val = deep_resolve(m.node, n.value)
                ap = ps[1] if len(ps) > 1 else "?"
                shift_b = None
                if isinstance(val, ast.BinOp) and isinstance(val.op, ast.LShift):
                    shift_b = bit_index_of(val.right)
                self.sigs["bit_set"] = ("DIV8(%s)" % norm(base).replace(ap, "A") if base is not None else norm(idx).replace(ap, "A"),
                                        "MOD8(%s)" % norm(shift_b).replace(ap, "A") if shift_b is not None else norm(val, 60).replace(ap, "A"))
                is_or = isinstance(n, ast.AugAssign) and isinstance(n.op, ast.BitOr)
                if base is None:
                    if isinstance(idx, ast.Name) and idx.id in ps:
                        self.note("violation", "bitmap", m, norm(n, 70), "byte index is %s, canonical is address div 8" % norm(idx, 40))
                    else:
                        self.note("undecided", "bitmap", m, norm(n, 70), "byte index %s not in a recognised form" % norm(idx, 40))
                elif not (isinstance(val, ast.BinOp) and isinstance(val.op, ast.LShift)):
                    self.note("undecided", "bitmap", m, norm(n, 70), "bit placement not in the `bit << (address mod 8)` form")
                elif shift_b is None:
                    self.note("violation", "bitmap", m, norm(n, 70), "bit is placed by %s, canonical is `<< (address mod 8)` (LSB-first within the byte)" % norm(val, 50))
                elif not is_or:
                    self.note("violation", "bitmap", m, norm(n, 70), "byte is overwritten, not OR-merged: earlier bits of the same byte are lost")
                elif norm(shift_b) == norm(base):
                    self.note("ok", "bitmap", m, norm(n, 70), "byte = addr div 8, bit = addr mod 8, placed by <<, OR-merged")
                else:
                    self.note("violation", "bitmap", m, norm(n, 70), "byte index and bit index derive from different addresses")
            grows = [n for k, n in cc.store_writes(m) if k == "append"]
            for g in grows:
                okz = isinstance(g, ast.Call) and g.args and isinstance(g.args[0], ast.Constant) and g.args[0].value == 0
                if not okz:
                    self.note("violation", "bitmap", m, norm(g, 50), "store grows with a non-zero byte: padding bits are not zero")
            if not grows:
                self.note("undecided", "bitmap", m, "growth of the store", "no append(0) found")
        g = self.bit_get
        if g is None:
            self.note("undecided", "bitmap", cc.ci.methods.get("__init__"), "bit-get primitive", "no method of the recognised shape (addr) with a raise found")
        else:
            ps = [p.arg for p in g.params][1:]
            rets = [n.value for n in walk_local(g.node) if isinstance(n, ast.Return) and n.value is not None]
            for rv in rets:
                e = deep_resolve(g.node, rv)
                while isinstance(e, ast.Call) and dotted(e.func) in ("int", "bool") and len(e.args) == 1:
                    e = e.args[0]
                site = norm(rv, 70)
                # (store[idx] >> sh) & 1
                if not (isinstance(e, ast.BinOp) and isinstance(e.op, ast.BitAnd)):
                    self.note("undecided", "bitmap", g, site, "returned bit not in the `(byte >> (address mod 8)) & 1` form")
                    continue
                inner, mask = (e.left, e.right) if isinstance(e.right, ast.Constant) else (e.right, e.left)
                if not (isinstance(mask, ast.Constant) and mask.value == 1):
                    self.note("violation" if isinstance(mask, ast.Constant) else "undecided", "bitmap", g, site, "extracted value is not masked with & 1")
                    continue
                if not (isinstance(inner, ast.BinOp) and isinstance(inner.op, ast.RShift) and isinstance(inner.left, ast.Subscript) and norm(inner.left.value) == cc.S):
                    self.note("undecided", "bitmap", g, site, "bit is not selected by `store[...] >> (address mod 8)`")
                    continue
                idx, sh = inner.left.slice, inner.right
                base, b = byte_index_of(idx), bit_index_of(sh)
                self.sigs["bit_get"] = ("DIV8(%s)" % norm(base).replace(ps[0], "A") if base is not None else norm(idx).replace(ps[0], "A"),
                                        "MOD8(%s)" % norm(b).replace(ps[0], "A") if b is not None else norm(sh, 60).replace(ps[0], "A"))
                if base is None:
                    self.note("violation" if isinstance(idx, ast.Name) and idx.id in ps else "undecided", "bitmap", g, site, "byte index is %s, canonical is address div 8" % norm(idx, 40))
                elif b is None:
                    self.note("violation", "bitmap", g, site, "bit is selected by %s, canonical is `>> (address mod 8)`" % norm(sh, 40))
                elif norm(b) != norm(base):
                    self.note("violation", "bitmap", g, site, "byte index and bit index derive from different addresses")
                else:
                    self.note("ok", "bitmap", g, site, "bit = (byte >> addr mod 8) & 1")
            if not rets:
                self.note("undecided", "bitmap", g, "bit-get primitive", "no returned value")

    def check_word_prims(self):
        cc = self.cc
        names = {cc.C: "cursor"}
        for name, m in list(self.word_push.items()) + list(self.word_read.items()):
            kind = "push" if name in self.word_push else "read"
            ps = [p.arg for p in m.params][1:]
            bits = ps[1] if kind == "push" else ps[0]
            word = ps[0] if kind == "push" else None
            prim = self.bit_set if kind == "push" else self.bit_get
            loops = [n for n in walk_local(m.node) if isinstance(n, ast.For)]
            ok_loop = False
            for lp in loops:
                calls = [c for c in ast.walk(lp) if isinstance(c, ast.Call) and isinstance(c.func, ast.Attribute) and c.func.attr == prim.name and isinstance(c.func.value, ast.Name) and c.func.value.id == "self"]
                if not calls:
                    continue
                it = lp.iter
                if not (isinstance(it, ast.Call) and dotted(it.func) == "range" and len(it.args) == 1 and isinstance(lp.target, ast.Name)):
                    self.note("undecided", "bitmap", m, norm(it, 50), "transfer loop is not `for i in range(bits)`")
                    continue
                i = lp.target.id
                cnt = lin(it.args[0], names)
                self.sigs.setdefault(kind, {})["count"] = fmt_lin(cnt).replace(bits, "BITS")
                if lin_eq(cnt, {bits: 1}) is not True:
                    self.note("violation", "bitmap", m, "for %s in %s" % (i, norm(it, 40)), "transfer loop runs %s times, canonical is `bits`" % fmt_lin(cnt))
                for c in calls:
                    addr = c.args[1] if kind == "push" else c.args[0]
                    la = lin(addr, names)
                    self.sigs.setdefault(kind, {})["addr"] = fmt_lin(la).replace(bits, "BITS").replace(i, "I")
                    e = lin_eq(la, {"cursor": 1, i: 1})
                    if e is True:
                        self.note("ok", "bitmap", m, norm(addr, 40), "destination/source address = cursor + i")
                    elif e is False:
                        self.note("violation", "bitmap", m, norm(c, 70), "bit address is %s, canonical is cursor + i" % fmt_lin(la))
                    else:
                        self.note("undecided", "bitmap", m, norm(c, 70), "bit address not linear")
                    if kind == "push":
                        v = c.args[0]
                        # (word >> i) & 1   |  word >> i & 1
                        sh = None
                        if isinstance(v, ast.BinOp) and isinstance(v.op, ast.BitAnd) and isinstance(v.right, ast.Constant) and v.right.value == 1 and isinstance(v.left, ast.BinOp) and isinstance(v.left.op, ast.RShift) and norm(v.left.left) == word:
                            sh = lin(v.left.right, names)
                            self.sigs.setdefault(kind, {})["shift"] = fmt_lin(sh).replace(bits, "BITS").replace(i, "I")
                            e2 = lin_eq(sh, {i: 1})
                            if e2 is True:
                                self.note("ok", "bitmap", m, norm(v, 40), "bit i of the word (LSB = 0), masked to one bit")
                            else:
                                self.note("violation", "bitmap", m, norm(v, 50), "source bit index is %s, canonical is i (LSB first)" % fmt_lin(sh))
                        else:
                            self.note("violation" if (isinstance(v, ast.BinOp) and isinstance(v.op, ast.RShift)) else "undecided", "bitmap", m, norm(v, 50), "bit handed to the bit primitive is not `(word >> i) & 1`" + (" (not masked to one bit)" if isinstance(v, ast.BinOp) and isinstance(v.op, ast.RShift) else ""))
                    else:
                        pm = parent_map(m.node)
                        par = pm.get(id(c))
                        while par is not None and not isinstance(par, (ast.BinOp, ast.stmt)):
                            par = pm.get(id(par))
                        if isinstance(par, ast.BinOp) and isinstance(par.op, ast.LShift):
                            sh = lin(par.right, names)
                            self.sigs.setdefault(kind, {})["shift"] = fmt_lin(sh).replace(bits, "BITS").replace(i, "I")
                            e2 = lin_eq(sh, {i: 1})
                            st = pm.get(id(par))
                            while st is not None and not isinstance(st, ast.stmt):
                                st = pm.get(id(st))
                            merged = isinstance(st, ast.AugAssign) and isinstance(st.op, (ast.BitOr, ast.Add))
                            if e2 is True and merged:
                                self.note("ok", "bitmap", m, norm(st, 60), "bit read from cursor + i is placed at bit i of the word")
                            elif e2 is False:
                                self.note("violation", "bitmap", m, norm(st, 60), "bit is placed at word bit %s, canonical is i (LSB first)" % fmt_lin(sh))
                            else:
                                self.note("undecided", "bitmap", m, norm(st, 60), "word assembly not in the recognised form")
                        else:
                            self.note("undecided", "bitmap", m, norm(c, 60), "word assembly not in the recognised form")
                ok_loop = True
            if not ok_loop:
                self.note("undecided", "bitmap", m, "transfer loop", "no loop over the bit primitive found")
            # cursor advance
            self.check_advance(m, bits)

    def check_advance(self, m: FuncInfo, amount_param: str, per_iter: bool = False):
        cc = self.cc
        names = {cc.C: "cursor"}
        cw = cc.cursor_writes(m)
        if not cw:
            self.note("violation", "cursor", m, "%s += %s" % (cc.C, amount_param), "cursor-relative transfer does not advance the cursor")
            return
        cfg = self.eng.cfg(m)
        good = []
        for n in cw:
            if isinstance(n, ast.AugAssign) and isinstance(n.op, ast.Add):
                la = lin(n.value, names)
                in_loop = any(isinstance(p, ast.For) and any(x is n for x in ast.walk(p)) for p in walk_local(m.node))
                if in_loop and lin_eq(la, {"": 1}) is True:
                    good.append(n)
                    self.note("ok", "cursor", m, norm(n, 40), "cursor advanced by one per transferred bit")
                elif lin_eq(la, {amount_param: 1}) is True and not in_loop:
                    good.append(n)
                    self.note("ok", "cursor", m, norm(n, 40), "cursor advanced by the transferred width")
                elif la is not None:
                    self.note("violation", "cursor", m, norm(n, 50), "cursor advances by %s, but %s bits are transferred" % (fmt_lin(la), amount_param))
                else:
                    self.note("undecided", "cursor", m, norm(n, 50), "advance not linear")
            elif isinstance(n, ast.Assign):
                la = lin(n.value, names)
                if lin_eq(la, {"cursor": 1, amount_param: 1}) is True:
                    good.append(n)
                    self.note("ok", "cursor", m, norm(n, 40), "cursor advanced by the transferred width")
                else:
                    self.note("undecided", "cursor", m, norm(n, 50), "cursor assigned an expression not of the form cursor + width")
        for n in good:
            nid = cfg.node_for(n)
            if nid is not None and cfg.exit in cfg.reachable_avoiding(cfg.entry, {cfg.node_for(x) for x in good}):
                self.note("violation", "cursor", m, norm(n, 40), "a normal path through the method skips the cursor advance")
                break


    def check_composites(self):
        """Methods other than the bit primitives that touch the store directly.

        * not a word primitive (no width parameter measured by the cursor advance): byte-granular access;
          a violation unless it is a whole-store reset (store rebound and cursor set to 0)
        * a word primitive rewritten arithmetically: accepted as UNDECIDED if it uses the sub-byte part
          of the cursor; definite violations: sub-byte part unused, constant read window too small."""
        cc = self.cc
        for name, m in cc.ci.methods.items():
            if name == "__init__" or m in (self.bit_set, self.bit_get):
                continue
            writes = cc.store_writes(m)
            reads = cc.store_reads(m)
            if not writes and not reads:
                continue
            cw = cc.cursor_writes(m)
            is_word = name in self.word_prims
            from ..dataflow import deep_resolve
            sub_used = any(bit_index_of(x) is not None and cc.C in norm(deep_resolve(m.node, x), 400) for x in ast.walk(m.node) if isinstance(x, ast.BinOp))
            sub_used = sub_used or any(isinstance(x, ast.Call) and dotted(x.func) == "divmod" and len(x.args) == 2 and isinstance(x.args[1], ast.Constant) and x.args[1].value == 8 and cc.C in norm(deep_resolve(m.node, x.args[0]), 400) for x in ast.walk(m.node))
            resets0 = any(isinstance(n, ast.Assign) and isinstance(n.value, ast.Constant) and n.value.value == 0 for n in cw)
            def zero_growth(kind, n) -> bool:
                """the store only grows by zero bytes: append(0) / extend([0] * k) / extend(bytes(k)) / += [0] * k"""
                v = None
                if kind in ("append", "extend") and isinstance(n, ast.Call) and len(n.args) == 1:
                    v = n.args[0]
                elif kind == "whole" and isinstance(n, ast.AugAssign) and isinstance(n.op, ast.Add):
                    v = n.value
                if v is None:
                    return False
                if kind == "append":
                    return isinstance(v, ast.Constant) and v.value == 0
                if isinstance(v, ast.BinOp) and isinstance(v.op, ast.Mult):
                    for a in (v.left, v.right):
                        if isinstance(a, ast.List) and len(a.elts) == 1 and isinstance(a.elts[0], ast.Constant) and a.elts[0].value == 0:
                            return True
                        if isinstance(a, ast.Constant) and a.value in (b"\x00", "\x00"):
                            return True
                if isinstance(v, ast.Call) and dotted(v.func) in ("bytes", "bytearray") and len(v.args) == 1 and isinstance(v.args[0], ast.Constant) and isinstance(v.args[0].value, int):
                    return True
                if isinstance(v, ast.List) and v.elts and all(isinstance(x, ast.Constant) and x.value == 0 for x in v.elts):
                    return True
                return False
            for kind, n in writes:
                if zero_growth(kind, n):
                    self.note("ok", "cursor", m, norm(n, 60), "the store grows by zero bytes only (no data written)")
                    continue
                if kind == "whole" and isinstance(n, ast.Assign) and resets0:
                    self.note("ok", "cursor", m, norm(n, 60), "whole-store reset together with cursor = 0")
                elif is_word and sub_used:
                    if kind == "append" and isinstance(n, ast.Call) and n.args and isinstance(n.args[0], ast.Constant) and n.args[0].value == 0:
                        continue
                    self.note("undecided", "cursor", m, norm(n, 60), "word primitive writes the store arithmetically (not through the per-bit primitive); placement not decided")
                elif not cw:
                    self.note("violation", "cursor", m, norm(n, 60), "store is written without advancing the bit cursor: a following field overwrites/precedes this data")
                else:
                    self.note("violation", "cursor", m, norm(n, 60), "byte-granular store write ignores the sub-byte part of the bit cursor (data lands on a byte boundary, not at the cursor)")
            for r in reads:
                if not sub_used:
                    self.note("violation", "cursor", m, norm(r, 60), "byte-granular store read drops the sub-byte part of the bit cursor (cursor div 8 used, cursor mod 8 not)")
                    continue
                if isinstance(r.slice, ast.Slice) and r.slice.lower is not None and r.slice.upper is not None and is_word:
                    names = {cc.C: "cursor"}
                    defs = Defs(m.node)

                    def res(e):
                        if isinstance(e, ast.Name) and len(defs.values(e.id)) == 1 and defs.values(e.id)[0][1] is not None:
                            return defs.values(e.id)[0][1]
                        return e
                    # does the slice reach the last bit of the word?  the byte after the last needed one is
                    #   ceil((cursor + bits) / 8) = ((cursor & 7) + bits + 7 >> 3) + (cursor >> 3)
                    from ..dataflow import deep_resolve as _deep
                    ps_ = [p.arg for p in m.params][1:]
                    bitsp = ps_[0] if ps_ else None
                    verdict = window_verdict(_deep(m.node, r.slice.lower), _deep(m.node, r.slice.upper), cc.C, bitsp)
                    if verdict is True:
                        self.note("undecided", "cursor", m, norm(r, 60), "slice covers the word's last bit; value extraction not decided")
                        continue
                    if isinstance(verdict, str):
                        self.note("violation", "cursor", m, norm(r, 60), verdict)
                        continue
                    lo, hi = lin(r.slice.lower, {}), lin(r.slice.upper, {})
                    if lo is not None and hi is not None:
                        d = dict(hi)
                        for k, v in lo.items():
                            d[k] = d.get(k, 0) - v
                        d = {k: v for k, v in d.items() if v != 0}
                        if set(d) <= {""}:
                            c = d.get("", 0)
                            if c * 8 < 64 + 7:
                                self.note("violation", "cursor", m, norm(r, 60), "fixed %d-byte read window cannot hold a word of up to 64 bits at a non-zero bit offset (needs up to 9 bytes): the top bits are lost" % c)
                                continue
                self.note("undecided", "cursor", m, norm(r, 60), "direct store read outside the bit primitive (word extracted arithmetically)")


# ---------------------------------------------------------------- effect grammars
def parser_type_classes(eng) -> List[str]:
    """P: Type subclasses constructed by transformer callbacks."""
    prog, cg = eng.prog, eng.cg
    out = set()
    for cq, cbs in cg.transformer_callbacks.items():
        for f in cbs:
            for cs in cg.sites_in(f):
                if cs.how == "ctor":
                    for c in cs.callees:
                        q = c.rsplit(".", 1)[0]
                        if prog.is_subclass(q, TYPE_BASE) and q != TYPE_BASE:
                            out.add(q)
    # plus every concrete (leaf) class of the Type hierarchy: a callback may construct its type
    # through a table (constructor not syntactically visible)
    for c in prog.subclasses(TYPE_BASE, strict=True):
        if not prog.subclasses(c.qual, strict=True):
            out.add(c.qual)
    return sorted(out)


def find_dispatcher(eng, root: str) -> Optional[FuncInfo]:
    prog, cg = eng.prog, eng.cg
    best = None
    for q in cg.reachable([root]):
        f = prog.functions[q]
        if f.module.name != "fcp.serde":
            continue
        tests = [n for n in walk_local(f.node) if isinstance(n, ast.Call) and dotted(n.func) == "isinstance"]
        if len(tests) >= 4 and (best is None or len(tests) > best[0]):
            best = (len(tests), f)
    return best[1] if best else None


def grammar_of(eng, prims: Prims, disp: FuncInfo, cls: str, side: str):
    """Effect list of dispatching type class `cls` through `disp`."""
    it = Interp(eng, "fcp.serde", prims.cc.ci.qual, prims.word_prims)
    it.buf_classes = set(prims.cc.quals)
    it.dispatchers = {disp.qual}
    it.byte_prims = prims.byte_prims
    effects: List = []
    args = []
    for p in disp.params:
        ann = norm(p.annotation) if p.annotation is not None else ""
        if p.arg in ("buffer",) or any(nm in ann for nm in prims.cc.names):
            args.append(BufV(prims.cc.ci.qual))
        elif "FcpV2" in ann or p.arg == "fcp":
            args.append(FcpV())
        elif ann and eng.prog.resolve_name(disp.module, disp, ann.strip("'\"")) and eng.prog.resolve_name(disp.module, disp, ann.strip("'\""))[0] == "class" \
                and eng.prog.resolve_name(disp.module, disp, ann.strip("'\""))[1] in eng.prog.classes and eng.prog.classes[eng.prog.resolve_name(disp.module, disp, ann.strip("'\""))[1]].module is disp.module \
                and not eng.prog.is_subclass(eng.prog.resolve_name(disp.module, disp, ann.strip("'\""))[1], "fcp.specs.type.Type"):
            # a wrapper object of the codec module (e.g. a per-call view of the schema): constructed from the schema
            q_ = eng.prog.resolve_name(disp.module, disp, ann.strip("'\""))[1]
            init_ = eng.prog.classes[q_].methods.get("__init__")
            iargs = []
            for ip in (init_.params[1:] if init_ is not None else []):
                ia = norm(ip.annotation) if ip.annotation is not None else ""
                iargs.append(FcpV() if "FcpV2" in ia or ip.arg == "fcp" else DataV(ip.arg))
            args.append(it.new_object(q_, iargs, {}, effects, 0))
        elif ann.endswith("Type") or p.arg == "type":
            args.append(TypeV(cls, None, "type"))
        else:
            args.append(DataV("data"))
    it.ret = it.call_function(disp, args, {}, effects, 0)
    return effects, it


def _isinst_in(c):
    """isinstance descriptors inside a condition -> [(negated, src, quals)] ; other conjuncts are ignored
    (they only narrow the admitted set further by value, not by class)."""
    out = []

    def go(c, neg):
        if not isinstance(c, tuple) or not c:
            return
        if c[0] == "not":
            go(c[1], not neg)
        elif c[0] == "isinstance":
            out.append((neg, c[1], c[2]))
        elif c[0] == "and" and not neg:
            for x in c[1]:
                go(x, neg)
        elif c[0] == "or" and neg:
            for x in c[1]:
                go(x, neg)
        elif c[0] in ("and", "or"):
            for x in c[1]:
                for (n2, s2, q2) in _isinst_in(x):
                    out.append(("mixed", s2, q2))
    go(c, False)
    return out


def _other_conjuncts(c):
    """non-class conjuncts of a positive conjunction -> list of descriptors"""
    if isinstance(c, tuple) and c and c[0] == "and":
        out = []
        for x in c[1]:
            out += _other_conjuncts(x)
        return out
    if isinstance(c, tuple) and c and c[0] == "isinstance":
        return []
    if isinstance(c, tuple) and c and c[0] == "not" and isinstance(c[1], tuple) and c[1] and c[1][0] == "isinstance":
        return []
    return [c]


def fixed_width(eng, K: str) -> Optional[int]:
    """width of a type class whose constructor fixes its name (FloatType -> 'f32')"""
    ci = eng.prog.classes.get(K)
    init = eng.prog.find_method(ci, "__init__") if ci else None
    if init is None:
        return None
    for n in walk_local(init.node):
        if isinstance(n, ast.Assign) and norm(n.targets[0]) == "self.name" and isinstance(n.value, ast.Constant) and isinstance(n.value.value, str):
            try:
                return int(n.value.value[1:])
            except ValueError:
                return None
    return None


def dispatcher_bypasses(effs):
    """`if` effects guarded by an isinstance test on a *non-constant* (element/field) type whose body
    transfers data without recursing through the dispatcher: [(cond, body)]."""
    from ..effects import has_transfer
    out = []

    def has_rec(es):
        return any(e[0] == "rec" or (e[0] in ("loop", "if") and has_rec(e[2])) for e in es)

    def go(es):
        for e in es:
            if e[0] == "if":
                if _isinst_in(e[1]) and has_transfer(e[2]) and not has_rec(e[2]):
                    out.append((e[1], e[2]))
                go(e[2])
            elif e[0] == "loop":
                go(e[2])
    go(effs)
    return out


def check_bypasses(eng, rep, rule: str, prims: Prims, disp: FuncInfo, P: List[str], kn: str, effs) -> bool:
    """Decoder side. A container handler may skip the dispatcher for its elements only for element classes
    whose own handler returns the raw word unchanged; any admitted class with a converting handler (sign
    reconstruction, float unpack, enum/str/struct construction) decodes to the wrong value through the bypass.
    -> True if the grammar contains a bypass (equality with the canonical grammar is then not asserted)."""
    from ..effects import WordV
    bys = dispatcher_bypasses(effs)
    for c, body in bys:
        tests = _isinst_in(c)
        if any(n == "mixed" for n, _, _ in tests):
            rep.undecided(rule, disp.file, disp.qual, "Eff_dec(%s): bypass under %s" % (kn, str(c)[:80]), "condition mixes class tests in a form not decided")
            continue
        admitted = set(P)
        for neg, src, quals in tests:
            inside = {K for K in P if any(eng.prog.is_subclass(K, q) for q in quals)}
            admitted &= (set(P) - inside) if neg else inside
        import re as _re
        undecidable = False
        for oc in _other_conjuncts(c):
            m = _re.match(r"^[\w\.]+\.get_length\(\) == (\d+)$", oc[1]) if isinstance(oc, tuple) and len(oc) > 1 and oc[0] == "expr" and isinstance(oc[1], str) else None
            if m:
                admitted = {K for K in admitted if fixed_width(eng, K) in (None, int(m.group(1)))}
            else:
                undecidable = True
        if undecidable:
            rep.undecided(rule, disp.file, disp.qual, "Eff_dec(%s): bypass under %s" % (kn, str(c)[:80]), "condition has a conjunct that is neither a class test nor a width test")
            continue
        conv = []
        for K in sorted(admitted):
            try:
                _, it = grammar_of(eng, prims, disp, K, "dec")
            except Unsupported:
                conv.append(K.split(".")[-1] + "?")
                continue
            if not isinstance(it.ret, WordV):
                conv.append(K.split(".")[-1])
        # classes that the bypass body itself singles out afterwards (`if isinstance(elem_type, SignedType): <convert the words>`):
        # the conversion is then done in place, on values; whether it equals the handler's is a value question, not decided here
        later = set()

        def nested(es):
            for e_ in es:
                if e_[0] == "if":
                    for neg_, src_, quals_ in _isinst_in(e_[1]):
                        if neg_ is False:
                            later.update(K for K in admitted if any(eng.prog.is_subclass(K, q) for q in quals_))
                    nested(e_[2])
                elif e_[0] == "loop":
                    nested(e_[2])
        nested(body)
        post = [k for k in conv if any(K.split(".")[-1] == k.rstrip("?") for K in later)]
        conv = [k for k in conv if k not in post]
        txt = canon_effects(body, "dec")
        if not conv and post:
            rep.undecided(rule, disp.file, disp.qual, "Eff_dec(%s): [%s] instead of Rec, for element classes {%s}" % (kn, txt, ", ".join(sorted(k.split(".")[-1] for k in admitted))),
                          "the container decoder reads raw words and then treats %s separately; that this in-place conversion equals the handler's is not decided" % ", ".join(post))
            continue
        if conv and not any(x.endswith("?") for x in conv):
            rep.violation(rule, disp.file, disp.qual, "Eff_dec(%s): [%s] instead of Rec, for element classes {%s}" % (kn, txt, ", ".join(sorted(k.split(".")[-1] for k in admitted))),
                          "the container decoder reads its elements directly instead of through the type dispatcher, for a condition that admits %s whose handler converts the word it reads (sign reconstruction / unpack / lookup): those elements decode to the raw unsigned bytes" % ", ".join(conv))
        else:
            rep.undecided(rule, disp.file, disp.qual, "Eff_dec(%s): [%s] instead of Rec, for element classes {%s}" % (kn, txt, ", ".join(sorted(k.split(".")[-1] for k in admitted))),
                          "dispatcher bypass restricted to classes whose handler returns the raw word; width agreement under the condition not decided")
    return bool(bys)


def validation_guards(effs: List) -> List[str]:
    """conditions of the raise-only guards that canon_effects leaves out of the grammar (reported as undecided by the callers)"""
    out = []

    def only_raise(es) -> bool:
        return bool(es) and all(x[0] == "raise" or (x[0] == "if" and only_raise(x[2])) for x in es)

    def go(es):
        for e in es:
            if e[0] == "if" and only_raise(e[2]):
                out.append(str(e[1])[:90])
            elif e[0] in ("if", "loop"):
                go(e[2])
    go(effs)
    return out


def canon_effects(effs: List, side: str) -> str:
    """Canonical text of an effect list; prefix/flag relations are made explicit."""
    out = []
    prefix_of: Dict[str, int] = {}  # data src -> index (encode)
    words: Dict[int, str] = {}

    def width_txt(w):
        if isinstance(w, int):
            return str(w)
        if isinstance(w, tuple):
            if w[0] == "width":
                return "width(%s)" % w[1]
            if w[0] == "packed":
                return "packed(%s)" % w[1]
            if w[0] == "var":
                return "<decoded value>"
            return "%s" % (w,)
        return str(w)

    def only_raise(es) -> bool:
        """a guard whose only effect is to raise transfers nothing: it is input validation, judged by R02.7 / C16, not a part of the wire grammar"""
        return bool(es) and all(x[0] == "raise" or (x[0] == "if" and only_raise(x[2])) for x in es)

    def go(effs, acc):
        lens = {}  # enc: data src whose len was just written; dec: WordV objects
        for e in effs:
            k = e[0]
            if k == "if" and only_raise(e[2]):
                continue
            if k == "W":
                w = width_txt(e[1])
                role = e[2]
                if isinstance(role, tuple) and role[0] == "len":
                    lens[("len", role[1])] = True
                    acc.append("W(%s)=count" % w)
                elif isinstance(role, tuple) and role[0] == "flag":
                    lens[("flag", str(role[1]))] = (role[2], role[3])
                    acc.append("W(%s)=flag{%s,%s}" % (w, role[2], role[3]))
                elif isinstance(role, WordV):
                    lens[("word", id(role))] = role
                    acc.append("W(%s)" % w)
                else:
                    acc.append("W(%s)" % w)
            elif k == "loop":
                c = e[1]
                body: List[str] = []
                go(e[2], body)
                if isinstance(c, int):
                    ct = str(c)
                elif c[0] == "len":
                    ct = "count" if ("len", c[1]) in lens else "len(%s) [no prefix written]" % c[1]
                elif c[0] == "var":
                    ct = "count" if ("word", id(c[1])) in lens else "<decoded value, not the preceding word>"
                elif c[0] == "bytes-of":
                    ct = "count" if ("len", c) in lens else str(c)
                elif c[0] == "size":
                    ct = "size(%s)" % c[1]
                elif c[0] == "fields":
                    ct = "fields(%s)[%s]" % (c[1], c[2])
                elif c[0] == "mul" and isinstance(c[1], WordV):
                    ct = "%s*count" % c[2]
                else:
                    ct = str(c)
                acc.append("Loop(%s){%s}" % (ct, " ".join(body)))
            elif k == "if":
                c = e[1]
                body = []
                go(e[2], body)
                neg = False
                while isinstance(c, tuple) and c[0] == "not":
                    neg = not neg
                    c = c[1]
                if isinstance(c, tuple) and c[0] == "some":
                    ct = "present"
                elif isinstance(c, tuple) and c[0] == "flagword":
                    ct = "present" if ("word", id(c[1])) in lens else "<flag not the preceding word>"
                elif isinstance(c, tuple) and c[0] == "flagword-eq1":
                    ct = "flag==1"
                else:
                    ct = str(c)
                acc.append("If(%s%s){%s}" % ("not " if neg else "", ct, " ".join(body)))
            elif k == "B":
                # a byte-granular transfer of n bytes is n 8-bit words (the byte primitive itself is judged by the
                # cursor rules R01.3 / R16.1)
                n = e[1]
                if isinstance(n, int):
                    nt = str(n)
                elif isinstance(n, tuple) and n and n[0] == "var":
                    nt = "count" if ("word", id(n[1])) in lens else "<decoded value, not the preceding word>"
                elif isinstance(n, tuple) and n and n[0] == "len":
                    nt = "count" if ("len", n[1]) in lens else "len(%s) [no prefix written]" % (n[1],)
                elif isinstance(n, tuple) and n and n[0] == "bytes-of":
                    nt = "count" if ("len", n) in lens else str(n)
                else:
                    nt = str(n)
                acc.append("Loop(%s){W(8)}" % nt)
            elif k == "rec":
                acc.append("Rec(%s)" % e[1])
            elif k == "raise":
                acc.append("Raise")
            elif k in ("new-buffer", "cursor-store"):
                pass
            else:
                acc.append(str(e))

    go(effs, out)
    return " ".join(out)


CANON = {
    "UnsignedType": "W(width(type))",
    "SignedType": "W(width(type))",
    "FloatType": "Loop(4){W(8)}",
    "DoubleType": "Loop(8){W(8)}",
    "EnumType": "W(packed(type.name))",
    "StringType": "W(32)=count Loop(count){W(8)}",
    "ArrayType": "Loop(size(type)){Rec(type.underlying_type)}",
    "DynamicArrayType": "W(32)=count Loop(count){Rec(type.underlying_type)}",
    "OptionalType": "W(8)=flag{1,0} If(present){Rec(type.underlying_type)}",
    "StructType": "Loop(fields(type.name)[sorted(field_id)]){Rec(field.type)}",
}
CANON_DEC = dict(CANON)
CANON_DEC["StringType"] = "W(32) Loop(count){W(8)}"
CANON_DEC["DynamicArrayType"] = "W(32) Loop(count){Rec(type.underlying_type)}"
CANON_DEC["OptionalType"] = "W(8) If(present){Rec(type.underlying_type)}"
