"""C06 - generated C CAN code packs and unpacks frames per the packed layout (narrow).

R06.1 provenance of the C writer's CanSignal/CanMessage arguments from the layout; one signal per leaf
R06.2 handler inventory: every scalar type that can reach the template has decode/encode handlers in the C
      run time, defined and declared, with the arity the template's calls use
R06.3 constant-key soundness of literal lookup tables; a short integer's C member type is a C type
R06.4 every free name of the two device templates is bound at its render site
R06.5 (clang, typed AST) frame-word width preservation: no narrowing of a value positioned by `<< start`
R06.6 (clang) sibling agreement of signed decoders: sign extension by the length parameter, guarded where
      the shift amount can reach the type width
"""

from __future__ import annotations

import ast
import os
import re
from typing import Dict, List, Optional, Set

from jinja2 import nodes as J

from ..front_py import AnalysisError, FuncInfo, walk_local, norm, dotted
from ..dataflow import Defs
from ..front_jinja import JinjaBinding
from ..front_clang import c_ast, functions, body_of, params_of, walk as cwalk, parent_map as cparents, int_width
from .common import const_str_values
from .C05 import iteration_local, resolved, atoms_of, get_arg, dlc_form, body_unconditional_assigns

WRITER = "fcp_can_c.can_c_writer"


def run(eng, rep) -> None:
    prog, cg = eng.prog, eng.cg
    rep.explanation = (
        "Provenance of the C writer's signal/message attributes from the packed layout; inventory of the C run-time handlers (clang AST of "
        "can_signal_parser.c/.h) against the scalar types the Python side can emit and the arity the template passes; soundness of constant "
        "lookup keys; binding of the device templates' free names; and two typed rules on the C run time: a value positioned in the 64-bit "
        "frame word by `<< start` is never implicitly narrowed before it is returned, and every signed decoder sign-extends by its length "
        "parameter (guarded where the shift could reach the type width). The arithmetic of the run time beyond these is not decided."
    )
    rep.rule("R06.1", "signal/message attributes <- layout leaf / binding (name, start, length, type, signedness, id, dlc, period); one signal per leaf")
    rep.rule("R06.2", "each emit-able scalar type has can_decode_signal_as_<T> / can_encode_signal_from_<T>, defined and declared, 6 parameters")
    rep.rule("R06.3", "subscripts of all-constant literal dicts use keys that exist; short integers get a C member type")
    rep.rule("R06.8", "grouping containers are not built from one shared mutable default (dict.fromkeys(keys, []), [[]] * n) that is then changed through a slot")
    rep.rule("R06.9", "a per-type signal codec that names an integer-type tag (U8..I64) names the tag of its own type")
    rep.rule("R06.4", "free names of the device templates are bound at the render sites")
    rep.rule("R06.7", "run-time handlers place the field with their own (start, length) through the bit-field primitive; no symmetric clamp on the encode value path")
    rep.rule("R06.5", "no implicit narrowing below 64 bits between `<< start` and the handler's return")
    rep.rule("R06.6", "signed decoders sign-extend by `length`; the sign-extension shift is guarded where length can equal the width")
    rep.assume("mask table, byte swaps, linear scaling and bitfield_sign_conv's own arithmetic; that the rendered C compiles for every schema")
    m = prog.modules.get(WRITER)
    if m is None:
        raise AnalysisError("anchor vanished: %s" % WRITER)
    cs_cls = m.classes.get("CanSignal")
    cm_cls = m.classes.get("CanMessage")
    builder = m.functions.get("create_can_signals")
    init = m.functions.get("initialize_can_data")
    if not (cs_cls and cm_cls and builder and init):
        raise AnalysisError("anchor vanished: CanSignal/CanMessage/create_can_signals/initialize_can_data")
    # ---- R06.1 ---------------------------------------------------------------------
    sig_ctor = None
    for n in ast.walk(builder.node):
        if isinstance(n, ast.Call):
            r = prog.resolve_expr_symbol(m, builder, n.func)
            if r and r[0] == "class" and r[1] == cs_cls.qual:
                sig_ctor = n
    loop = None
    for n in walk_local(builder.node):
        if isinstance(n, ast.For) and sig_ctor is not None and any(x is sig_ctor for x in ast.walk(n)):
            loop = n
    if sig_ctor is None or loop is None or not isinstance(loop.target, ast.Name):
        rep.undecided("R06.1", builder.file, builder.qual, "CanSignal(...) in a loop over the layout", "not found")
    else:
        P = loop.target.id
        encp = builder.params[0].arg
        rep.check(isinstance(loop.iter, ast.Name) and loop.iter.id == encp, "R06.1", builder.file, builder.qual, "for %s in %s" % (P, norm(loop.iter, 30)), "iterates the whole layout", "signals are not built from the whole layout list")
        direct = [st for st in loop.body if any(x is sig_ctor for x in ast.walk(st))]
        uncond = len(direct) == 1 and isinstance(direct[0], ast.Expr) and not any(isinstance(x, (ast.Continue, ast.Break, ast.Return)) for st in loop.body for x in ast.walk(st))
        rep.check(uncond, "R06.1", builder.file, builder.qual, "signals.append(CanSignal(...))", "one signal per leaf, unconditionally", "a leaf can be skipped: not every layout leaf gets a C signal")
        env = iteration_local(rep, "R06.1", builder, loop, sig_ctor)
        def A(name):
            a = get_arg(sig_ctor, None, name)
            return resolved(a, env) if a is not None else None
        def exact(name, wants, bad):
            a = A(name)
            t = norm(a, 200) if a is not None else None
            rep.check(t in wants, "R06.1", builder.file, builder.qual, "%s <- %s" % (name, (t or "-")[:60]), "from the leaf", bad + " (is: %s)" % (t or "not passed")[:70])
        exact("start_bit", {"%s.bitstart" % P}, "start bit is not the leaf's bit position")
        exact("bit_length", {"%s.bitlength" % P}, "bit length is not the leaf's width")
        exact("scalar_type", {"%s.type.name" % P}, "scalar type is not the leaf's type name")
        a = A("name")
        rep.check(a is not None and "%s.name" % P in atoms_of(a), "R06.1", builder.file, builder.qual, "name <- %s" % (norm(a, 40) if a is not None else "-"), "leaf name", "signal name does not derive from the leaf's name")
        a = A("data_type")
        rep.check(a is not None and ("%s.type.name" % P in atoms_of(a)), "R06.1", builder.file, builder.qual, "data_type <- %s" % (norm(a, 60) if a is not None else "-"), "leaf type name (or its composite type)", "data type does not derive from the leaf's type")
        a = A("signed")
        okS = False
        if a is not None:
            t = norm(a, 100)
            if t in ("%s.type.is_signed()" % P,):
                okS = True
            elif isinstance(a, ast.Call) and a.args and norm(a.args[0]) == P:
                cs = cg.site_of.get(id(get_arg(sig_ctor, None, "signed")))
                for c in (cs.callees if cs else []):
                    body = norm(prog.functions[c].node, 400)
                    if ".type.is_signed()" in body or re.search(r"isinstance\(\w+\.type, (\w+\.)*SignedType\)", body):
                        okS = True
                    elif ".type.name.startswith('i')" in body or ".type.name[0] == 'i'" in body:
                        okS = None
        if a is not None and (".type.name.startswith('i')" in norm(a, 100) or ".type.name[0] == 'i'" in norm(a, 100)):
            okS = None
        if okS is None:
            rep.violation("R06.1", builder.file, builder.qual, "signed <- %s" % norm(a, 40), "signedness is derived from the first letter of the leaf type's *name*: for an enum leaf that name is the enum's own name, so an enum called e.g. `ignition` is generated as a signed signal (its values with the top bit set decode as negative numbers)")
        else:
            rep.check(okS, "R06.1", builder.file, builder.qual, "signed <- %s" % (norm(a, 40) if a is not None else "-"), "signedness of the leaf's own type", "signedness does not derive from the leaf's type")
        for nm, key in (("multiplexer_signal", "mux_signal"),):
            a = A(nm)
            rep.check(a is not None and "%s.extended_data['%s']" % (P, key) in atoms_of(a), "R06.1", builder.file, builder.qual, "%s <- %s" % (nm, norm(a, 50) if a is not None else "-"), "the leaf's own option", "%s is not the leaf's own %s option" % (nm, key))
        # dlc
        for n in walk_local(builder.node):
            if isinstance(n, ast.Assign) and isinstance(n.targets[0], ast.Name) and "dlc" in n.targets[0].id and not isinstance(n.value, ast.Constant):
                f = dlc_form(resolved(n.value, env), P, encp)
                site = norm(n, 80)
                if f is True:
                    rep.ok("R06.1", builder.file, builder.qual, site, "dlc = ceil((start + length) / 8) over the leaves")
                elif f is False:
                    rep.violation("R06.1", builder.file, builder.qual, site, "dlc is not ceil((start + length) / 8): rounding the terms separately under-counts a leaf that straddles a byte boundary")
                else:
                    rep.undecided("R06.1", builder.file, builder.qual, site, "dlc formula not recognised")
    # message
    msg_ctor = None
    for n in ast.walk(init.node):
        if isinstance(n, ast.Call):
            r = prog.resolve_expr_symbol(m, init, n.func)
            if r and r[0] == "class" and r[1] == cm_cls.qual:
                msg_ctor = n
    mloop = None
    for n in walk_local(init.node):
        if isinstance(n, ast.For) and msg_ctor is not None and any(x is msg_ctor for x in ast.walk(n)):
            mloop = n
    if msg_ctor is None or mloop is None or not isinstance(mloop.target, ast.Name):
        rep.undecided("R06.1", init.file, init.qual, "CanMessage(...) per CAN binding", "not found")
    else:
        E = mloop.target.id
        rep.check(norm(mloop.iter) in ("fcp.get_matching_impls('can')",), "R06.1", init.file, init.qual, "for %s in %s" % (E, norm(mloop.iter, 40)), "exactly the CAN bindings", "the C writer does not iterate exactly the CAN bindings")
        env = iteration_local(rep, "R06.1", init, mloop, msg_ctor)
        unc = body_unconditional_assigns(mloop)
        def M(name):
            a = get_arg(msg_ctor, None, name)
            return resolved(a, env) if a is not None else None
        a = M("frame_id")
        rep.check(a is not None and norm(a) in ("%s.fields.get('id')" % E, "%s.fields['id']" % E), "R06.1", init.file, init.qual, "frame_id <- %s" % (norm(a, 40) if a is not None else "-"), "the binding's id", "frame id is not the binding's own id")
        a = M("name_pascal")
        rep.check(a is not None and norm(a) == "%s.name" % E, "R06.1", init.file, init.qual, "name <- %s" % (norm(a, 40) if a is not None else "-"), "the binding's name", "message name is not the binding's name")
        a = M("period")
        rep.check(a is not None and norm(a) in ("%s.fields.get('period', -1)" % E,), "R06.1", init.file, init.qual, "period <- %s" % (norm(a, 50) if a is not None else "-"), "the binding's period, default -1 (never sent)", "period is not the binding's 'period' field with default -1")
        # signals, dlc from create_can_signals(encoder.generate(extension)) of this iteration
        okl = False
        for st in mloop.body:
            if isinstance(st, ast.Assign) and isinstance(st.value, ast.Call) and cg.site_of.get(id(st.value)) and builder.qual in cg.site_of[id(st.value)].callees and isinstance(st.targets[0], ast.Tuple):
                names = [norm(x) for x in st.targets[0].elts]
                arg = st.value.args[0] if st.value.args else None
                src = unc.get(arg.id, []) if isinstance(arg, ast.Name) else [arg]
                lay = len(src) == 1 and isinstance(src[0], ast.Call) and isinstance(src[0].func, ast.Attribute) and src[0].func.attr == "generate" and src[0].args and norm(src[0].args[0]) == E
                sg, dl = get_arg(msg_ctor, None, "signals"), get_arg(msg_ctor, None, "dlc")
                okl = lay and sg is not None and dl is not None and norm(sg) == names[0] and norm(dl) == names[1]
        rep.check(okl, "R06.1", init.file, init.qual, "signals, dlc <- create_can_signals(encoder.generate(%s))" % E, "this binding's own layout, in this iteration", "the message's signals/dlc do not come from this binding's own layout computed in this iteration")
    # the writer object is created per generation (no state kept in the Generator)
    gen = prog.functions.get("fcp_can_c.generator.Generator.generate")
    if gen is not None:
        from ..dataflow import stores_in
        for kind, tgt, st in stores_in(gen.node):
            if norm(tgt).startswith("self."):
                rep.violation("R06.1", gen.file, gen.qual, norm(st, 60), "the generator keeps state in self between generations: a later call can describe an earlier schema")
    # ---- R06.3 ---------------------------------------------------------------------
    type_map = None
    for f in prog.functions.values():
        if not f.module.name.startswith("fcp_can_c"):
            continue
        for n in walk_local(f.node):
            # a table of C scalar types (wherever it is bound: a local, a module constant, inline)
            cand = None
            if isinstance(n, ast.Dict):
                cand = n
            if cand is not None and len(cand.keys) >= 4 and all(isinstance(k, ast.Constant) and isinstance(k.value, str) and re.fullmatch(r"[uif]\d+", k.value) for k in cand.keys) and all(isinstance(v, ast.Constant) and isinstance(v.value, str) for v in cand.values):
                type_map = type_map or cand
            if isinstance(n, ast.Subscript) and isinstance(n.ctx, ast.Load) and isinstance(n.value, (ast.Name, ast.Dict)):
                vals = [n.value] if isinstance(n.value, ast.Dict) else [v for k, v, st in Defs(f.node).values(n.value.id) if isinstance(v, ast.Dict)]
                if len(vals) == 1 and vals[0].keys and all(isinstance(k, ast.Constant) for k in vals[0].keys):
                    keys = {k.value for k in vals[0].keys}
                    poss = possible_keys(n.slice)
                    if poss is None:
                        rep.undecided("R06.3", f.file, f.qual, norm(n, 90), "key expression not enumerable")
                        continue
                    bad = sorted(str(p) for p in poss if p not in keys and not is_pattern_ok(p, keys))
                    rep.check(not bad, "R06.3", f.file, f.qual, norm(n, 90), "every possible key exists", "lookup key can be %s, which is not a key of the table (KeyError)" % bad)
    post = cs_cls.methods.get("__post_init__")
    if post is not None:
        t = norm(post.node, 3000)
        rep.check("self.data_type = self.scalar_type" in t, "R06.3", post.file, post.qual, "short integer -> self.data_type = self.scalar_type", "a u5/i12/u40 member is declared with its C carrier type", "a short integer keeps its FCP type name as the C member type: the generated header does not compile")
    # ---- R06.2 ---------------------------------------------------------------------
    tdir = eng.path("plugins", "fcp_can_c", "templates")
    cfile, hfile = os.path.join(tdir, "can_signal_parser.c"), os.path.join(tdir, "can_signal_parser.h")
    if not (os.path.exists(cfile) and os.path.exists(hfile)):
        raise AnalysisError("anchor vanished: can_signal_parser.c/.h")
    tu = c_ast(cfile, [tdir])
    fns = functions(tu)
    scalars = sorted({v.value for v in type_map.values if isinstance(v, ast.Constant)}) if type_map is not None else []
    rep.floor("R06.2", "scalar C types the Python side can emit", len(scalars), 8)
    jb = JinjaBinding(eng)
    ctmpl = jb.template("plugins/fcp_can_c/templates/can_device_c.jinja")
    arity = {}
    for kind in ("decode_signal_as", "encode_signal_from"):
        mm = re.search(r"can_%s_\{\{\s*signal\.scalar_type\s*\}\}\((.*?)\);" % kind, ctmpl.source)
        if mm:
            # arguments written in the template; an attribute that is a property rendering several comma-separated values counts for as many
            txt = mm.group(1)
            n_args = re.sub(r"\{\{.*?\}\}", "X", txt).count(",") + 1
            unknown = False
            sig_cls = next((c for c in prog.classes.values() if c.name == "CanSignal" and c.module.name.startswith("fcp_can_c")), None)
            for am in re.finditer(r"\{\{\s*signal\.(\w+)\s*\}\}", txt):
                pm = sig_cls.methods.get(am.group(1)) if sig_cls is not None else None
                if pm is None:
                    continue
                rets = [r_.value for r_ in walk_local(pm.node) if isinstance(r_, ast.Return) and r_.value is not None]
                parts = None
                if len(rets) == 1:
                    rv = rets[0]
                    if isinstance(rv, ast.Call) and isinstance(rv.func, ast.Attribute) and rv.func.attr == "join" and isinstance(rv.func.value, ast.Constant) and "," in str(rv.func.value.value) and len(rv.args) == 1:
                        a0 = rv.args[0]
                        src = a0.generators[0].iter if isinstance(a0, (ast.GeneratorExp, ast.ListComp)) and len(a0.generators) == 1 and not a0.generators[0].ifs else a0
                        if isinstance(src, (ast.Tuple, ast.List)):
                            parts = len(src.elts)
                    elif isinstance(rv, ast.JoinedStr):
                        parts = sum(str(v_.value).count(",") for v_ in rv.values if isinstance(v_, ast.Constant)) + 1
                if parts is None:
                    unknown = True
                else:
                    n_args += parts - 1
            if not unknown:
                arity[kind] = n_args
    for T_ in scalars:
        for kind in ("decode_signal_as", "encode_signal_from"):
            name = "can_%s_%s" % (kind, T_)
            decls = fns.get(name, [])
            defined = [d for d in decls if body_of(d) is not None]
            declared_h = [d for d in decls if body_of(d) is None]
            rep.check(bool(defined) and bool(declared_h), "R06.2", "plugins/fcp_can_c/templates/can_signal_parser.c", name, "handler for %s" % T_, "defined and declared",
                      "the template can emit a call to %s but the C run time %s" % (name, "does not define it" if not defined else "does not declare it in the header"))
            if defined:
                np_ = len(params_of(defined[0]))
                want = arity.get(kind)
                rep.check(want is None or np_ == want, "R06.2", "plugins/fcp_can_c/templates/can_signal_parser.c", name, "%d parameters" % np_, "matches the %s arguments the template passes" % want, "handler takes %d parameters but the template passes %s" % (np_, want))
    # ---- R06.4 ---------------------------------------------------------------------
    for rs in jb.sites:
        if rs.path and rs.path.startswith("plugins/fcp_can_c/templates/") and rs.path.endswith(".jinja"):
            t = jb.template(rs.path)
            free = t.free_names()
            unb = sorted(n for n in free if n not in rs.bound)
            if rs.bound_open:
                continue
            for n in unb:
                # only used in `{% if not x %}`-style tests: undefined is falsy in jinja (documented reliance)
                rep.info("R06.4", rs.path, rs.func.qual, "free name %s" % n, "not bound at this render site (jinja undefined -> falsy)")
            rep.ok("R06.4", rs.path, rs.func.qual, "bound names: %s" % ",".join(sorted(rs.bound)), "%d free names, %d unbound" % (len(free), len(unb)))
    # ---- R06.8: grouping containers (device -> messages, ...) hold one fresh list per key -------------
    from ..dataflow import shared_default_aliasing
    n_g = 0
    for f_ in prog.functions.values():
        if not f_.module.name.startswith("fcp_can_c"):
            continue
        n_g += 1
        from ..dataflow import groupby_unsorted, keyed_pairs_use
        for gcall in groupby_unsorted(f_.node):
            use, how = keyed_pairs_use(eng, f_, gcall)
            if use == "overwrite":
                rep.violation("R06.8", f_.file, f_.qual, norm(gcall, 60), "itertools.groupby groups only ADJACENT equal keys and its input is not sorted by that key: when the bindings of a device are interleaved with another device's, the device gets several groups, and they are stored by key (%s) so only the last one is kept - messages disappear from its generated C" % how)
            elif use == "merge":
                rep.ok("R06.8", f_.file, f_.qual, norm(gcall, 60), "groupby over an unsorted sequence, but the runs of one key are merged (%s)" % how)
            else:
                rep.undecided("R06.8", f_.file, f_.qual, norm(gcall, 60), "groupby over an unsorted sequence; %s" % how)
        for nm_, made_, st_ in shared_default_aliasing(f_.node):
            rep.violation("R06.8", f_.file, f_.qual, "%s = %s ... %s" % (nm_, norm(made_, 50), norm(st_, 50)), "every slot of '%s' holds the same object, and it is changed through one slot: each key (device) ends up with the union of all entries, so a device's C files describe messages it does not send" % nm_)
    rep.ok("R06.8", "-", "-", "grouping containers of the C writer", "%d functions scanned" % n_g)
    # ---- R06.5 / R06.6 (typed AST) -------------------------------------------------------
    r065(eng, rep, tu, fns)
    r066(eng, rep, fns)
    r069(eng, rep, fns)
    r067(eng, rep, fns)
    # shifts computed in a narrower type than the one their value is used in (variable count)
    from ..front_clang import narrow_shifts
    for name, ds in sorted(fns.items()):
        for d in ds:
            if body_of(d) is None:
                continue
            seen_ns = set()
            for x, w, tq in narrow_shifts(d):
                if (w, tq) in seen_ns:
                    continue
                seen_ns.add((w, tq))
                rep.violation("R06.5", "plugins/fcp_can_c/templates/can_signal_parser.c", name, "`<<` by a variable count computed in %d-bit int, then widened to %s" % (w, tq),
                              "the shift is evaluated in a %d-bit integer and only afterwards converted to %s: for counts of %d and more the mask/bit is wrong (signals wider than %d bits)" % (w, tq, w - 1, w))["construct_level"] = True


def possible_keys(e: ast.AST):
    """constant values a key expression can take; string concatenation with str(<int expr>) -> pattern"""
    v = const_str_values(e)
    if v is not None:
        return v
    if isinstance(e, ast.IfExp):
        a, b = possible_keys(e.body), possible_keys(e.orelse)
        return None if a is None or b is None else a | b
    if isinstance(e, ast.BinOp) and isinstance(e.op, ast.Add):
        a, b = possible_keys(e.left), possible_keys(e.right)
        if a is None or b is None:
            return None
        return {x + y for x in a for y in b}
    if isinstance(e, ast.Call) and dotted(e.func) == "str":
        return {"<N>"}
    if isinstance(e, ast.Constant):
        return {e.value}
    return None


def is_pattern_ok(p, keys) -> bool:
    if isinstance(p, str) and "<N>" in p:
        pre = p.split("<N>")[0]
        return any(isinstance(k, str) and k.startswith(pre) and k[len(pre):].isdigit() for k in keys) and pre != ""
    return False


def r065(eng, rep, tu, fns) -> None:
    n = 0
    # only code reachable from the handlers the template calls
    roots = [k for k in fns if re.fullmatch(r"can_(encode_signal_from|decode_signal_as)_\w+", k)]
    reach = set()
    work = list(roots)
    while work:
        k = work.pop()
        if k in reach:
            continue
        reach.add(k)
        for d in fns.get(k, []):
            b = body_of(d)
            if b is None:
                continue
            for x in cwalk(b):
                if x.kind == "DeclRefExpr" and x.get("referencedDecl", {}).get("kind") == "FunctionDecl":
                    work.append(x["referencedDecl"]["name"])
    for name, decls in sorted(fns.items()):
        if name not in reach:
            continue
        for d in decls:
            b = body_of(d)
            if b is None:
                continue
            ps = {p.get("name"): p for p in params_of(d)}
            if "start" not in ps:
                continue
            pm = cparents(d)
            for x in cwalk(b):
                if x.kind == "BinaryOperator" and x.get("opcode") == "<<":
                    rhs = x.inner[1] if len(x.inner) > 1 else None
                    if rhs is None or not any(y.kind == "DeclRefExpr" and y.get("referencedDecl", {}).get("name") == "start" for y in cwalk(rhs)):
                        continue
                    n += 1
                    w = int_width(x.qtype) or int_width(x.desugared)
                    bad = None
                    if w is not None and w < 64:
                        bad = "the shift itself is computed at %d bits" % w
                    cur = x
                    while bad is None and id(cur) in pm:
                        par = pm[id(cur)]
                        if par.kind in ("ImplicitCastExpr", "CStyleCastExpr") and par.get("castKind") == "IntegralCast":
                            pw = int_width(par.qtype) or int_width(par.desugared)
                            if pw is not None and pw < 64:
                                bad = "the positioned value is %s narrowed to %s (%d bits)" % ("implicitly" if par.kind == "ImplicitCastExpr" else "explicitly", par.qtype, pw)
                        if par.kind in ("ReturnStmt", "CompoundStmt", "DeclStmt"):
                            if par.kind == "DeclStmt":
                                # variable initialised with the positioned value: its declared width
                                for vd in par.inner:
                                    vw = int_width(vd.qtype) or int_width(vd.desugared)
                                    if vd.kind == "VarDecl" and vw is not None and vw < 64:
                                        bad = "stored in %s %s (%d bits)" % (vd.qtype, vd.get("name"), vw)
                            break
                        if par.kind == "BinaryOperator" and par.get("opcode") == "=":
                            lw = int_width(par.inner[0].qtype) or int_width(par.inner[0].desugared)
                            if lw is not None and lw < 64:
                                bad = "assigned to a %d-bit object (%s)" % (lw, par.inner[0].qtype)
                            break
                        cur = par
                    rep.check(bad is None, "R06.5", "plugins/fcp_can_c/templates/can_signal_parser.c", name, "<< start (%s)" % x.qtype, "kept at 64 bits up to the return",
                              "a field positioned in the 64-bit frame word by `<< start` loses its high bits: %s" % bad)
    rep.floor("R06.5", "`<< start` placements in the C run time", n, 2)


def _strip(x):
    while x is not None and x.kind in ("ImplicitCastExpr", "ParenExpr", "CStyleCastExpr") and x.inner:
        x = x.inner[-1]
    return x


def _ref(x, name) -> bool:
    x = _strip(x)
    return x is not None and x.kind == "DeclRefExpr" and x.get("referencedDecl", {}).get("name") == name


def r067(eng, rep, fns) -> None:
    """Sibling agreement of the run-time handlers: placement parameters reach the bit-field primitive unmodified;
    range-limiting helpers on the encode value path keep the whole two's complement range."""
    F = "plugins/fcp_can_c/templates/can_signal_parser.c"
    CF = "can_signal_parser.c"
    for name in sorted(fns):
        m = re.fullmatch(r"can_(encode_signal_from|decode_signal_as)_(\w+)", name)
        if not m:
            continue
        ds = [x for x in fns[name] if body_of(x) is not None]
        if not ds:
            continue
        d = ds[0]
        b = body_of(d)
        side, ty = m.group(1), m.group(2)
        # the primitives are macros: get_bitfield(d, s, l) = ((d) >> (s)) & bitmask(l) ; set_bitfield(d, s, l) = ((uint64_t)d & bitmask(l)) << s
        op = ">>" if side.startswith("decode") else "<<"
        shifts = [x for x in cwalk(b) if x.kind == "BinaryOperator" and x.get("opcode") == op and len(x.inner) == 2]
        by_start = [x for x in shifts if _ref(x.inner[1], "start")]
        masks = [x for x in cwalk(b) if x.kind == "CallExpr" and _ref(x.inner[0], "bitmask")]
        mask_len = [x for x in masks if len(x.inner) > 1 and _ref(x.inner[1], "length")]
        fcalls = [x for x in cwalk(b) if x.kind == "CallExpr" and any(_ref(x.inner[0], pn) for pn in ("set_bitfield_float", "set_bitfield_double"))]
        uses_start = [x for x in cwalk(b) if x.kind == "DeclRefExpr" and x.get("referencedDecl", {}).get("name") == "start"]
        if fcalls:
            args = fcalls[0].inner[1:]
            okp = len(args) >= 3 and _ref(args[1], "start") and _ref(args[2], "length")
            rep.check(okp, "R06.7", F, name, "set_bitfield_*(_, start, length)", "field placed by the handler's own start/length, unmodified",
                      "the bit-field primitive is not called with the handler's (start, length) unmodified")
            continue
        if shifts and masks and any(any(y.kind == "DeclRefExpr" and y.get("referencedDecl", {}).get("name") == "start" for y in cwalk(x.inner[1])) for x in shifts):
            okp = bool(by_start) and bool(mask_len) and len(mask_len) == len(masks)
            rep.check(okp, "R06.7", F, name, "(word %s start) & bitmask(length)" % op, "field placed by the handler's own start/length, unmodified",
                      "the bit-field primitive is not applied to the handler's (start, length) unmodified: the signal is read/written at a different position or width than the layout says")
            continue
        # no primitive call
        byte_gran = [x for x in cwalk(b) if x.kind == "BinaryOperator" and x.get("opcode") in (">>", "/") and any(_ref(y, "start") for y in x.inner[:1]) and len(x.inner) > 1 and _strip(x.inner[1]).kind == "IntegerLiteral" and _strip(x.inner[1]).get("value") in ("3", "8")]
        sub = [x for x in cwalk(b) if x.kind == "BinaryOperator" and x.get("opcode") in ("&", "%") and any(_ref(y, "start") for y in x.inner[:1])]
        if byte_gran and not sub:
            rep.violation("R06.7", F, name, "payload addressed at byte start/8, start%8 unused", "this handler addresses the payload at byte granularity (start >> 3) and drops the bit remainder of the offset, while its siblings use the bit-field primitive: a signal that does not begin on a byte boundary is read from the wrong bits")
        elif not uses_start and ty == "double":
            rep.ok("R06.7", F, name, "whole-frame copy (start unused)", "an f64 fills the 8-byte frame: its start is always 0 (advertised subset: <= 64 bits per message)")
        elif not uses_start:
            rep.violation("R06.7", F, name, "start unused", "the handler ignores the signal's start bit although the signal need not be at bit 0")
        else:
            rep.undecided("R06.7", F, name, "placement", "handler does not use the bit-field primitive; placement not decided")
    # symmetric clamps on the encode value path
    roots = [k for k in fns if re.fullmatch(r"can_encode_signal_from_\w+", k)]
    reach, work = set(), list(roots)
    while work:
        k = work.pop()
        if k in reach:
            continue
        reach.add(k)
        for d in fns.get(k, []):
            b = body_of(d)
            if b is not None:
                for x in cwalk(b):
                    if x.kind == "DeclRefExpr" and x.get("referencedDecl", {}).get("kind") == "FunctionDecl":
                        work.append(x["referencedDecl"]["name"])
    for k in sorted(reach):
        for d in fns.get(k, []):
            b = body_of(d)
            if b is None:
                continue
            for st in cwalk(b):
                if st.kind != "IfStmt" or len(st.inner) < 2:
                    continue
                cond = _strip(st.inner[0])
                if cond is None or cond.kind != "BinaryOperator" or cond.get("opcode") not in ("<", "<="):
                    continue
                rhs = _strip(cond.inner[1])
                if rhs is None or rhs.kind != "UnaryOperator" or rhs.get("opcode") != "-":
                    continue
                bound = _strip(rhs.inner[0])
                if bound is None or bound.kind != "DeclRefExpr":
                    continue
                bname = bound.get("referencedDecl", {}).get("name")
                rets = [r for r in cwalk(st.inner[1]) if r.kind == "ReturnStmt" and r.inner and _strip(r.inner[0]).kind == "UnaryOperator" and _strip(r.inner[0]).get("opcode") == "-" and _ref(_strip(r.inner[0]).inner[0], bname)]
                if not rets:
                    continue
                # the same bound is the upper limit too (value > bound -> bound): symmetric range
                upper = [s2 for s2 in cwalk(b) if s2.kind == "IfStmt" and _strip(s2.inner[0]).kind == "BinaryOperator" and _strip(s2.inner[0]).get("opcode") in (">", ">=") and _ref(_strip(s2.inner[0]).inner[1], bname)]
                if upper:
                    rep.violation("R06.7", F, k, "if (v < -%s) return -%s;  with  if (v > %s) return %s;" % (bname, bname, bname, bname),
                                  "the value is limited to the symmetric range [-%s, %s] on the encode path: a two's complement field also holds -%s - 1, so the most negative in-range value is encoded as min + 1" % (bname, bname, bname))



def r069(eng, rep, fns) -> None:
    """type tags: a per-type signal codec that names an integer-type tag (U8 .. I64) names its own"""
    n = 0
    for name in sorted(fns):
        m_ = re.fullmatch(r"can_(?:decode_signal_as|encode_signal_from)_(u?)int(\d+)_t", name)
        if not m_:
            continue
        want = ("U" if m_.group(1) else "I") + m_.group(2)
        for d in fns[name]:
            b = body_of(d)
            if b is None:
                continue
            for x in cwalk(b):
                if x.kind == "DeclRefExpr" and x.get("referencedDecl", {}).get("kind") == "EnumConstantDecl":
                    tag = x["referencedDecl"].get("name", "")
                    if not re.fullmatch(r"[UI](8|16|32|64)", tag):
                        continue
                    n += 1
                    rep.check(tag == want, "R06.9", "plugins/fcp_can_c/templates/can_signal_parser.c", name, "type tag %s" % tag, "the codec of %s names its own tag" % want,
                              "the codec for %s hands the tag %s to the shared conversion code: byte order / sign handling is done for another type than the one this function returns" % (want, tag))
    rep.floor("R06.9", "integer-type tags named by per-type codecs", n, 8)


def r066(eng, rep, fns) -> None:
    sibs = sorted(n for n in fns if re.fullmatch(r"can_decode_signal_as_int\d+_t", n))
    rep.floor("R06.6", "signed decoders", len(sibs), 2)
    for name in sibs:
        d = [x for x in fns[name] if body_of(x) is not None]
        if not d:
            continue
        d = d[0]
        width = int(re.search(r"int(\d+)_t", name).group(1))
        calls = [x for x in cwalk(body_of(d)) if x.kind == "CallExpr" and any(y.kind == "DeclRefExpr" and y.get("referencedDecl", {}).get("name") == "bitfield_sign_conv" for y in cwalk(x.inner[0]))]
        if not calls:
            # delegated to a helper of this translation unit?
            seen_, work_, via = set(), [name], None
            while work_ and via is None:
                k_ = work_.pop()
                if k_ in seen_:
                    continue
                seen_.add(k_)
                for dd in fns.get(k_, []):
                    bb = body_of(dd)
                    if bb is None:
                        continue
                    for y in cwalk(bb):
                        if y.kind == "DeclRefExpr" and y.get("referencedDecl", {}).get("kind") == "FunctionDecl":
                            cn = y["referencedDecl"]["name"]
                            if cn == "bitfield_sign_conv" and k_ != name:
                                via = k_
                            elif cn in fns and len(seen_) < 6:
                                work_.append(cn)
            if via is not None:
                rep.undecided("R06.6", "plugins/fcp_can_c/templates/can_signal_parser.c", name, "bitfield_sign_conv(..., length)", "sign extension is delegated to %s; whether it applies to this decoder's arguments is not decided here (the type tag it passes is checked by R06.9)" % via)
                continue
            rep.violation("R06.6", "plugins/fcp_can_c/templates/can_signal_parser.c", name, "bitfield_sign_conv(..., length)", "this signed decoder does not sign-extend the extracted field although its siblings do: negative values narrower than the carrier decode as large positive numbers")
            continue
        c = calls[0]
        a2 = c.inner[2] if len(c.inner) > 2 else None
        uses_len = a2 is not None and any(y.kind == "DeclRefExpr" and y.get("referencedDecl", {}).get("name") == "length" for y in cwalk(a2))
        rep.check(uses_len, "R06.6", "plugins/fcp_can_c/templates/can_signal_parser.c", name, "bitfield_sign_conv(field, length)", "sign bit taken at the field's own length", "sign extension does not use the field's length parameter")
        if width == 64:
            pm = cparents(d)
            cur, guarded = c, False
            while id(cur) in pm:
                par = pm[id(cur)]
                if par.kind in ("IfStmt", "ConditionalOperator"):
                    cond = par.inner[0]
                    txt = [y.get("opcode") for y in cwalk(cond) if y.kind == "BinaryOperator"]
                    lits = [y.get("value") for y in cwalk(cond) if y.kind == "IntegerLiteral"]
                    refs = [y.get("referencedDecl", {}).get("name") for y in cwalk(cond) if y.kind == "DeclRefExpr"]
                    if "length" in refs and "64" in lits and any(o in ("<", "!=", "<=") for o in txt):
                        guarded = True
                cur = par
            rep.check(guarded, "R06.6", "plugins/fcp_can_c/templates/can_signal_parser.c", name, "sign extension under `length < 64`", "the shift by `length` cannot reach the type width",
                      "bitfield_sign_conv shifts an all-ones word left by `length`; for a full 64-bit field that is a shift by the type width (undefined; every negative value decodes as -1): the call must be guarded by length < 64")
