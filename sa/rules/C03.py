"""C03 - generated C++ static codec (narrow: generator <-> header agreement; static headers' wire grammar).

R03.1 compile-necessary agreement: TypeVisitor.visit dispatches every parser type class; ToCpp overrides every
      hook; every wrapper name/arity ToCpp can emit exists in decoders.h; template free names are bound
R03.2 positional consistency in fcp.h.j2: loops that define positional correspondence (constructor parameters,
      FromJson arguments, Decode's constructor arguments) iterate in the same order; wire loops are id-sorted
R03.3 enum width source: Encode, Decode and GetSize use enum.get_packed_size()
R03.5 wrapper-interface parametricity (compile-fail witness through clang++ -fsyntax-only)
R03.4 wire grammar and bit mapping of decoders.h / buffer.h through clang
"""

from __future__ import annotations

import ast
import os
import re
from typing import Dict, List, Optional, Set

from jinja2 import nodes as J

from ..front_py import AnalysisError, FuncInfo, walk_local, norm, dotted
from ..front_jinja import JinjaBinding, JTemplate
from .codec_py import parser_type_classes
from .C15 import name_is_struct

TV = "fcp.type_visitor.TypeVisitor"


def run(eng, rep) -> None:
    prog, cg, T = eng.prog, eng.cg, eng.T
    rep.explanation = (
        "Agreement between the Python side that emits C++ type names / template text and the static headers that must accept them: visitor "
        "exhaustiveness over the parser's type classes, hook overrides, wrapper names and template arities read from the f-strings of ToCpp "
        "against the class templates declared in decoders.h, order consistency of the template's positional loops, enum width source, and a "
        "compile-fail witness that instantiates every container wrapper over an element type offering only the wrapper interface. The thorough "
        "tier reads the wire grammar and bit mapping of decoders.h/buffer.h from clang's AST of requested instantiations."
    )
    rep.rule("R03.1", "visitor exhaustive; every hook overridden; emitted wrapper names/arities exist in decoders.h; free template names bound")
    rep.rule("R03.2", "constructor parameters, FromJson arguments and Decode's constructor arguments iterate in one order; wire loops are id-sorted")
    rep.rule("R03.3", "enum Encode/Decode/GetSize width = enum.get_packed_size()")
    rep.rule("R03.13", "the text bound to `namespace` at every render site of the struct template is usable as a C++ identifier (protocol names are not C++ keywords, or are escaped)")
    rep.rule("R03.12", "the header generated for a model struct (fields declared fb@1, fa@0, fc@2, three different wrapper types) type-checks under clang against buffer.h/decoders.h")
    rep.rule("R03.11", "synthesised rpc type names (<name>MethodId, <name>Input, <name>Output): definitions and references derive the name identically")
    rep.rule("R03.10", "a generated Encode() starts from an empty buffer, or one pre-sized with no more than the struct's smallest encoding")
    rep.rule("R03.9", "sizes the generator reads from schema nodes are computed from the node's current content (no value cached at construction from a list that other code changes)")
    rep.rule("R03.6", "carrier selection contains no down-rounding of the bit width (floor division without +7 compensation, floor())")
    rep.rule("R03.5", "container wrappers compile for an element type with only the wrapper interface (clang++ -fsyntax-only witness)")
    rep.rule("R03.4", "C++ wrapper grammars == canonical; Buffer per-bit mapping canonical; cursor advance by width; no lossy sub-byte shift")
    rep.assume("that the rendered fcp.h compiles for every schema; carrier selection _to_highest_power_of_two (numeric identity over 1..64); JSON conversions; sign extension arithmetic in GetWord")
    tv = prog.cls(TV)
    visit = tv.methods.get("visit")
    if visit is None:
        raise AnalysisError("anchor vanished: TypeVisitor.visit")
    P = parser_type_classes(eng)
    # ---- R03.9 ---------------------------------------------------------------------
    from .stale import stale_derived_attrs
    stale = stale_derived_attrs(eng)
    for ci_, cattr, stmt, sattr, mf, mst in stale:
        rep.violation("R03.9", ci_.file, ci_.qual + ".__init__", norm(stmt, 70), "'%s' is computed once, at construction, from '%s', but %s changes that list afterwards (%s): sizes derived from the cached value (enum packed size -> C++ carrier and bit width) describe the node as it was, not as it is generated" % (cattr, sattr, mf.qual, norm(mst, 60)))
    rep.ok("R03.9", "-", "-", "values cached on schema nodes at construction", "%d stale candidates" % len(stale))
    # shared mutable defaults in the C++ plug-in (e.g. one method list under every service)
    from ..dataflow import shared_default_aliasing
    for f_ in prog.functions.values():
        if f_.module.name.startswith("fcp_cpp"):
            for nm_, made_, st_ in shared_default_aliasing(f_.node):
                rep.violation("R03.9", f_.file, f_.qual, "%s = %s ... %s" % (nm_, norm(made_, 50), norm(st_, 50)), "every slot of '%s' holds the same object, and it is changed through one slot: every key ends up with the union of all entries (each service's MethodId enum lists the methods of all services: duplicate enumerators / case labels, the header does not compile)" % nm_)
    # ---- R03.1 ---------------------------------------------------------------------
    tests = {}
    for n in walk_local(visit.node):
        if isinstance(n, ast.If) and isinstance(n.test, ast.Call) and dotted(n.test.func) == "isinstance":
            c = n.test.args[1]
            for x in (c.elts if isinstance(c, ast.Tuple) else [c]):
                r = prog.resolve_expr_symbol(visit.module, visit, x)
                hook = None
                for r_ in ast.walk(ast.Module(body=n.body, type_ignores=[])):
                    if isinstance(r_, ast.Return) and isinstance(r_.value, ast.Call) and isinstance(r_.value.func, ast.Attribute) and norm(r_.value.func.value) == "self":
                        hook = r_.value.func.attr
                if r and r[0] == "class":
                    tests[r[1]] = hook
    for K in P:
        handled = [c for c in tests if prog.is_subclass(K, c)]
        rep.check(bool(handled), "R03.1", visit.file, visit.qual, "visit dispatches %s" % K.split(".")[-1], "-> self.%s" % (tests.get(handled[0]) if handled else "?"),
                  "TypeVisitor.visit has no branch for %s: the C++ generator raises for schemas using it" % K.split(".")[-1])
    hooks = sorted({h for h in tests.values() if h})
    tocpp = None
    for c in prog.subclasses(TV, strict=True):
        if c.module.name.startswith("fcp_cpp"):
            tocpp = c
    if tocpp is None:
        raise AnalysisError("anchor vanished: TypeVisitor subclass in fcp_cpp")
    rep.floor("R03.1", "visitor hooks", len(hooks), 6)
    emitted: Dict[str, int] = {}  # wrapper name -> template arity emitted
    for h in hooks:
        m = tocpp.methods.get(h)
        if m is None:
            rep.violation("R03.1", tocpp.file, tocpp.qual, "def %s" % h, "hook is not overridden: the base returns None, which is rendered as the text 'None' in the generated header")
            continue
        rets = [n.value for n in walk_local(m.node) if isinstance(n, ast.Return) and n.value is not None]
        for r in rets:
            txt = template_text(r)
            if txt is None:
                continue
            mm = re.match(r"^\s*([A-Za-z_]\w*)\s*(<(.*)>)?\s*$", txt, flags=re.S)
            if mm and mm.group(1) not in ("HOLE",):
                name = mm.group(1)
                ar = split_targs(mm.group(3)) if mm.group(2) else 0
                emitted[name] = ar
            rep.ok("R03.1", m.file, m.qual, "return %s" % norm(r, 60), "hook overridden; emits '%s'" % txt[:50])
    dh = eng.read("plugins", "fcp_cpp", "fcp_cpp", "decoders.h")
    declared = header_classes(dh)
    for name, ar in sorted(emitted.items()):
        if name not in declared:
            rep.violation("R03.1", "plugins/fcp_cpp/fcp_cpp/decoders.h", "-", "class %s" % name, "the generator emits the wrapper name '%s' but decoders.h declares no such class: every generated header using it fails to compile" % name)
        else:
            rep.check(declared[name] == ar, "R03.1", "plugins/fcp_cpp/fcp_cpp/decoders.h", "-", "%s<%d args>" % (name, ar), "template arity matches the header (%d)" % declared[name],
                      "the generator emits %s with %d template argument(s), decoders.h declares it with %d" % (name, ar, declared[name]))
    rep.floor("R03.1", "wrapper names emitted by ToCpp", len(emitted), 6)
    # free names of fcp.h.j2 at its render sites
    jb = JinjaBinding(eng)
    presize_rule(eng, rep, jb)
    namespace_rule(eng, rep)
    from .struct_codec import run_struct_rules
    run_struct_rules(eng, rep, None, "R03.2", "R03.12")
    synth_name_rule(eng, rep, jb)
    sites = [s for s in jb.sites if s.template == "fcp.h.j2"]
    rep.floor("R03.1", "render sites of fcp.h.j2", len(sites), 1)
    tpath = sites[0].path if sites else None
    if tpath is None:
        raise AnalysisError("anchor vanished: fcp.h.j2 render site")
    t = jb.template(tpath)
    free = t.free_names()
    for s in sites:
        unb = sorted(n for n in free if n not in s.bound and n not in jb.globals)
        rep.check(not unb, "R03.1", tpath, s.func.qual, "render of %s" % (s.output_name or "fcp.h.j2"), "all %d free names bound (%s)" % (len(free), ",".join(sorted(free))), "template names %s are not bound at this render site (rendered as empty text)" % unb)
    for gname in sorted({n.node.name for n in t.walk() if isinstance(n, J.Call) and isinstance(n.node, J.Name)}):
        if gname in free and gname not in jb.globals and not any(gname in s.bound for s in sites):
            rep.violation("R03.1", tpath, "-", "%s(...)" % gname, "template calls a function that is not installed in env.globals")
    r032(eng, rep, jb, t)
    r033(eng, rep, t)
    # ---- R03.6: carrier selection never rounds the bit width down ---------------------
    from .codec_py import lin
    for h in ("unsigned", "signed"):
        m = tocpp.methods.get(h)
        if m is None:
            continue
        for cs in cg.sites_in(m):
            for q in cs.callees:
                g = prog.functions.get(q)
                if g is None or not g.module.name.startswith("fcp_cpp"):
                    continue
                pnames = {p.arg: p.arg for p in g.params}
                floors = []
                for n in ast.walk(g.node):
                    if isinstance(n, ast.BinOp) and isinstance(n.op, ast.FloorDiv) and isinstance(n.right, ast.Constant) and n.right.value in (8, 16, 32):
                        l = lin(n.left, {})
                        comp = l is not None and l.get("", 0) >= n.right.value - 1
                        neg = isinstance(n.left, ast.UnaryOp) and isinstance(n.left.op, ast.USub)
                        if not comp and not neg:
                            floors.append(norm(n, 40))
                    if isinstance(n, ast.Call) and (dotted(n.func) or "").split(".")[-1] == "floor":
                        floors.append(norm(n, 40))
                rep.check(not floors, "R03.6", g.file, g.qual, "carrier width of %s" % h, "no down-rounding of the bit width", "the carrier width is computed with a down-rounding step (%s): some widths get a carrier narrower than the field (e.g. 12 bits in an 8-bit integer)" % floors[0] if floors else "")
    from .cpp_codec import run_witness, run_cpp_wire
    run_witness(eng, rep, "R03.5")
    run_cpp_wire(eng, rep, "R03.4")


def template_text(e: ast.AST) -> Optional[str]:
    """constant text of a str / f-string with holes replaced by HOLE; str(x) -> HOLE"""
    if isinstance(e, ast.Constant) and isinstance(e.value, str):
        return e.value
    if isinstance(e, ast.JoinedStr):
        out = ""
        for v in e.values:
            out += v.value if isinstance(v, ast.Constant) else "HOLE"
        return out
    if isinstance(e, ast.Call) and dotted(e.func) == "str":
        return "HOLE"
    if isinstance(e, ast.Call) and isinstance(e.func, ast.Attribute) and e.func.attr == "format" and isinstance(e.func.value, ast.Constant):
        return re.sub(r"\{[^}]*\}", "HOLE", e.func.value.value)
    return None


def split_targs(s: str) -> int:
    depth, n = 0, 1
    for ch in s:
        if ch == "<":
            depth += 1
        elif ch == ">":
            depth -= 1
        elif ch == "," and depth == 0:
            n += 1
    return n


def header_classes(src: str) -> Dict[str, int]:
    """class name -> number of template parameters (0 = not a template), from the header text."""
    out = {}
    for m in re.finditer(r"(template\s*<([^>]*)>\s*)?class\s+(\w+)\s*\{", src):
        out[m.group(3)] = len([p for p in m.group(2).split(",") if p.strip()]) if m.group(1) else 0
    # alias templates / aliases: `template<...> using Name = ...;`
    for m in re.finditer(r"(template\s*<([^>]*)>\s*)?using\s+(\w+)\s*=", src):
        out.setdefault(m.group(3), len([p for p in m.group(2).split(",") if p.strip()]) if m.group(1) else 0)
    return out


def r032(eng, rep, jb: JinjaBinding, t: JTemplate) -> None:
    assigns = t.assigns()
    groups: Dict[str, List] = {}
    for lp in t.loops():
        b = lp.base
        if not (isinstance(b, J.Getattr) and b.attr == "fields" and isinstance(b.node, J.Name) and name_is_struct(eng, jb, t, assigns, b.node.name)):
            continue
        txt = lp.body_text
        pre = preceding_text(t, lp)
        kind = None
        if re.search(r"(Decode)\s*\(\s*buffer", txt):
            kind = "decode-positional" if re.search(r"(return\s+[^;{]*[{(]|[{(])\s*$", pre.strip()[-60:] if pre else "") and not re.search(r"auto\s+$|=\s*$", txt.split("Decode")[0][-20:]) and "auto" not in txt else "decode-local"
        elif re.search(r"\.Encode\s*\(\s*buffer", txt):
            kind = "encode"
        elif "::FromJson(" in txt:
            kind = "fromjson-arg"
        elif re.search(r"Type\s*$", txt.strip().rstrip(",")) is None and re.fullmatch(r"\s*,?\s*", txt) is not None and re.search(r"return\s+\w*\s*[({]\s*$", pre[-80:] if pre else ""):
            kind = "ctor-arg"
        elif re.search(r"Type\s+,?\s*$", txt) or re.fullmatch(r"\s*Type\s*,?\s*", txt or "") or (txt.strip().startswith("Type") and "(" not in txt and "=" not in txt and ";" not in txt and "_" not in txt):
            kind = "ctor-param"
        if kind:
            order = "sorted(field_id)" if (lp.sort_attr == "field_id" and not lp.sort_reverse) else ("declared" if lp.sort_attr is None and not lp.sort_reverse else "other(%s)" % lp.sort_attr)
            groups.setdefault(kind, []).append((lp, order))
    def orders(k):
        return sorted({o for _, o in groups.get(k, [])})
    rep.extra["template_loop_kinds"] = {k: orders(k) for k in groups}
    params = orders("ctor-param")
    if not params:
        rep.undecided("R03.2", t.relpath, "struct block", "constructor parameter loop", "not recognised")
        return
    rep.floor("R03.2", "positional loops recognised in the struct block", sum(len(v) for k, v in groups.items() if k in ("ctor-param", "ctor-arg", "fromjson-arg", "decode-positional")), 1)
    for k, what in (("ctor-arg", "arguments of the constructor call in Decode"), ("fromjson-arg", "arguments built by FromJson"), ("decode-positional", "elements decoded directly into the constructor/braced initialiser")):
        for lp, o in groups.get(k, []):
            rep.check([o] == params, "R03.2", t.relpath, "struct block", "for %s in %s  [%s]" % (lp.target, lp.iter_src, k), "same order as the constructor parameters (%s)" % params[0],
                      "%s iterate fields in order '%s' but the constructor parameters are in order '%s': for a struct whose declaration order differs from its id order values land in the wrong members (or the header does not compile)" % (what, o, params[0]))
    for k in ("decode-local", "encode", "decode-positional"):
        for lp, o in groups.get(k, []):
            rep.check(o == "sorted(field_id)", "R03.2", t.relpath, "struct block", "for %s in %s  [%s]" % (lp.target, lp.iter_src, k), "wire order = ascending field id", "wire loop iterates fields in order '%s', not ascending field id" % o)


def preceding_text(t: JTemplate, lp) -> str:
    """template text emitted immediately before the loop (within the same Output sequence)"""
    out = ""
    par = t.parent.get(id(lp.node))
    body = getattr(par, "body", None) or []
    for st in body:
        if st is lp.node:
            break
        if isinstance(st, J.Output):
            for c in st.nodes:
                out += c.data if isinstance(c, J.TemplateData) else "X"
    return out[-200:]


def r033(eng, rep, t: JTemplate) -> None:
    src = t.source
    # within the enum block: every width expression handed to PushWord / GetWord / GetSize
    m = re.search(r"\{%\s*for enum in fcp\.enums\s*%\}(.*?)\{%\s*endfor\s*-?%\}\s*\{%-?\s*for impl", src, flags=re.S)
    block = m.group(1) if m else src
    widths = re.findall(r"PushWord<\s*UnderlyingType\s*,\s*\{\{(.*?)\}\}\s*>", block) + re.findall(r"return\s+\{\{(.*?)\}\}\s*;", block)
    uses_getsize = "GetWord(GetSize()" in block.replace(" ", "").replace("GetWord(GetSize()", "GetWord(GetSize()")
    rep.floor("R03.3", "enum width expressions in the template", len(widths), 1)
    for w in widths:
        rep.check(w.strip() == "enum.get_packed_size()", "R03.3", t.relpath, "enum block", "{{%s}}" % w.strip(), "canonical enum width", "enum width in the generated C++ is '%s', not enum.get_packed_size(): encoder, decoder or GetSize disagree with the canonical width" % w.strip())
    ut = re.search(r"using\s+UnderlyingType\s*=\s*([^;]*);", block)
    if ut:
        e = ut.group(1)
        rep.check("get_packed_size()" in e, "R03.3", t.relpath, "enum block", "using UnderlyingType = %s" % e.strip(), "carrier derives from the packed size",
                  "the enum's carrier type is the constant %s while its width (get_packed_size) is unbounded: enumerator values that do not fit the carrier are truncated" % e.strip())
    rep.check("GetWord(GetSize()" in block.replace(" ", ""), "R03.3", t.relpath, "enum block", "Decode reads GetSize() bits", "decoder width is the same expression as GetSize", "enum Decode does not read GetSize() bits")


# ---------------------------------------------------------------- R03.10: pre-sized encode buffers
MIN_BITS = {"OptionalType": 8, "StringType": 32, "DynamicArrayType": 32}  # smallest canonical encoding of the variable-size constructors


def presize_rule(eng, rep, jb) -> None:
    """`Buffer buffer{N}` in a generated Encode(): the buffer starts with ceil(N / 8) zero bytes and only grows, so N must not exceed
    the smallest encoding of the struct.  N = 0 (today) is trivially right; a computed N is followed into the Python function that
    computes it and each type-constructor branch is compared with the constructor's smallest encoding."""
    prog = eng.prog
    path = None
    for rs in jb.sites:
        if rs.path and rs.path.endswith("fcp.h.j2"):
            path = rs.path
    if path is None:
        rep.undecided("R03.10", "-", "-", "fcp.h.j2", "render site not found")
        return
    t = jb.template(path)
    seq = t.output_sequence(t.ast.body)
    n_sites = 0
    for i, (kind, v) in enumerate(seq):
        if kind != "data" or not re.search(r"\bBuffer\s+\w+\s*[{(]\s*$", v):
            continue
        n_sites += 1
        nxt = seq[i + 1] if i + 1 < len(seq) else None
        if nxt is None or nxt[0] == "data":
            continue
        e = nxt[1]
        site = "Buffer buffer{ {{%s}} }" % JTemplate.src(e)[:50]
        if not (isinstance(e, J.Call) and isinstance(e.node, J.Name)):
            rep.undecided("R03.10", t.relpath, "Encode()", site, "initial size is not a call of a template global")
            continue
        g = jb.global_func(e.node.name)
        if g is None:
            rep.undecided("R03.10", t.relpath, "Encode()", site, "template global not resolved")
            continue
        per_type = None
        for n in walk_local(g.node):
            if isinstance(n, ast.Call) and isinstance(n.func, ast.Name):
                r = prog.resolve_name(g.module, g, n.func.id)
                if r and r[0] == "func" and r[1] != g.qual and any(isinstance(x, ast.Call) and dotted(x.func) == "isinstance" for x in ast.walk(prog.functions[r[1]].node)):
                    per_type = prog.functions[r[1]]
        if per_type is None and any(isinstance(x, ast.Call) and dotted(x.func) == "isinstance" for x in ast.walk(g.node)):
            per_type = g
        if per_type is None:
            rep.undecided("R03.10", g.file, g.qual, site, "no per-type size function found")
            continue
        tparam = per_type.params[-1].arg
        decided = set()
        for n in walk_local(per_type.node):
            if not (isinstance(n, ast.If) and isinstance(n.test, ast.Call) and dotted(n.test.func) == "isinstance" and norm(n.test.args[0]) == tparam):
                continue
            cl = n.test.args[1]
            names = [(dotted(c) or "").split(".")[-1] for c in (cl.elts if isinstance(cl, ast.Tuple) else [cl])]
            rets = [s_ for s_ in n.body if isinstance(s_, ast.Return) and s_.value is not None]
            for k in names:
                if k not in MIN_BITS or not rets:
                    continue
                decided.add(k)
                v = rets[0].value
                rec = [c for c in ast.walk(v) if isinstance(c, ast.Call) and any(isinstance(a, ast.Attribute) and a.attr == "underlying_type" for a in ast.walk(c))]
                consts = [c.value for c in ast.walk(v) if isinstance(c, ast.Constant) and isinstance(c.value, int)]
                s2 = "%s: reserve %s" % (k, norm(v, 50))
                if rec:
                    rep.violation("R03.10", per_type.file, per_type.qual, s2, "the encode buffer is created with room for the %s's element (%s), but the smallest encoding of %s is %d bits (%s): Buffer(n) starts with ceil(n/8) zero bytes and never shrinks, so the surplus bytes are emitted after the canonical encoding" % (k[:-4], norm(rec[0], 40), k[:-4], MIN_BITS[k], "absent value: flag only" if k == "OptionalType" else "empty: count only"))
                elif isinstance(v, ast.Constant) and isinstance(v.value, int):
                    rep.check(v.value <= MIN_BITS[k], "R03.10", per_type.file, per_type.qual, s2, "<= smallest encoding (%d bits)" % MIN_BITS[k], "reserves %d bits, more than the smallest encoding of %s (%d bits): surplus zero bytes are emitted" % (v.value, k[:-4], MIN_BITS[k]))
                else:
                    rep.undecided("R03.10", per_type.file, per_type.qual, s2, "size expression not recognised")
        for k in sorted(set(MIN_BITS) - decided):
            rep.undecided("R03.10", per_type.file, per_type.qual, "%s: reserve ?" % k, "no branch for this constructor recognised (falls through to a generic size)")
    rep.ok("R03.10", t.relpath, "Encode()", "Buffer construction sites in the struct template", "%d found" % n_sites)


# ---------------------------------------------------------------- R03.11: synthesised type names
def synth_name_rule(eng, rep, jb) -> None:
    """The rpc layer synthesises types named <schema name> + constant suffix (ServiceMethodId, PayloadInput, ...) and refers to them
    from Python (EnumType/StructType/Impl.type) and from the templates.  Definition and references must derive the name the same
    way: `to_pascal_case` is not the identity (it lower-cases everything after a word's first letter and drops underscores), so a
    definition named `name + S` and a reference to `to_pascal_case(name) + S` differ for LevelControl / temp_req, and the generated
    headers do not compile."""
    prog = eng.prog
    sites = {}  # suffix -> [(transform, where, text, role)]
    mods = [m for m in prog.modules.values() if m.name.startswith("fcp_cpp")]

    def derivation(f, e, depth=0):
        """-> (transform, suffix) for  [T(]X[)] + "Suffix" ; follows single-assignment locals"""
        from ..dataflow import deep_resolve
        e = deep_resolve(f.node, e)
        def transform(l):
            if isinstance(l, ast.Call) and isinstance(l.func, (ast.Name, ast.Attribute)) and len(l.args) == 1 and not l.keywords:
                return (dotted(l.func) or "?").split(".")[-1]
            if isinstance(l, ast.Call) and isinstance(l.func, ast.Attribute) and not l.args and isinstance(l.func.value, (ast.Name, ast.Attribute)):
                return l.func.attr
            if isinstance(l, (ast.Name, ast.Attribute)):
                return "plain"
            return "expr " + norm(l, 30)
        if isinstance(e, ast.BinOp) and isinstance(e.op, ast.Add) and isinstance(e.right, ast.Constant) and isinstance(e.right.value, str) and re.match(r"^[A-Z]\w*$", e.right.value):
            return transform(e.left), e.right.value
        if isinstance(e, ast.JoinedStr) and len(e.values) == 2 and isinstance(e.values[0], ast.FormattedValue) and isinstance(e.values[1], ast.Constant) and re.match(r"^[A-Z]\w*$", str(e.values[1].value)) and e.values[0].format_spec is None:
            return transform(e.values[0].value), e.values[1].value
        return None

    ROLE = {"Enum": "definition", "Struct": "definition", "Impl": "definition", "EnumType": "reference", "StructType": "reference"}
    for m in mods:
        for f in [x for x in prog.functions.values() if x.module is m]:
            for n in walk_local(f.node):
                if not (isinstance(n, ast.Call) and (dotted(n.func) or "").split(".")[-1] in ROLE):
                    continue
                cname = (dotted(n.func) or "").split(".")[-1]
                cands = list(n.args[:1]) + [k.value for k in n.keywords if k.arg in ("name", "type")]
                for a in cands:
                    d = derivation(f, a)
                    if d:
                        sites.setdefault(d[1], []).append((d[0], "%s::%s" % (f.file, f.qual), norm(n, 60), ROLE[cname]))
    suffixes = set(sites)
    seen_t = set()
    for rs in jb.sites:
        if rs.path is None or rs.path in seen_t or not rs.path.endswith((".j2",)):
            continue
        seen_t.add(rs.path)
        t = jb.template(rs.path)
        seq = t.output_sequence(t.ast.body)
        for i, (kind, v) in enumerate(seq):
            if kind != "expr" or i + 1 >= len(seq) or seq[i + 1][0] != "data":
                continue
            mm = re.match(r"^([A-Z][A-Za-z0-9_]*)", seq[i + 1][1])
            if not mm or mm.group(1) not in suffixes:
                continue
            tr = "plain"
            e = v
            if isinstance(e, J.Filter):
                tr = e.name
            elif isinstance(e, J.Call) and isinstance(e.node, J.Name):
                tr = e.node.name
            sites[mm.group(1)].append((tr, t.relpath, "{{%s}}%s" % (JTemplate.src(v), mm.group(1)), "reference"))
    n = 0
    for suf, lst in sorted(sites.items()):
        if len(lst) < 2:
            continue
        n += 1
        trs = sorted({x[0] for x in lst})
        desc = "; ".join("%s in %s [%s]" % (x[0], x[1].split("::")[-1], x[3]) for x in lst[:6])
        if len(trs) == 1:
            rep.ok("R03.11", lst[0][1].split("::")[0], "-", "<name>%s x%d" % (suf, len(lst)), "every definition and reference derives the name the same way (%s)" % trs[0])
        else:
            defs = [x for x in lst if x[3] == "definition"]
            dtr = {x[0] for x in defs}
            for x in lst:
                if x[3] == "reference" and dtr and x[0] not in dtr:
                    fl, _, fq = x[1].partition("::")
                    rep.violation("R03.11", fl, fq or "-", x[2], "the synthesised type is defined as <%s name>%s but referred to here as <%s name>%s: the two differ for every name on which %s is not the identity (CamelCase like LevelControl -> Levelcontrol, snake_case), so the generated header names a type that does not exist and does not compile" % ("/".join(sorted(dtr)), suf, x[0], suf, "to_pascal_case" if "to_pascal_case" in (x[0], *dtr) else x[0]))
            if not dtr:
                rep.undecided("R03.11", lst[0][1].split("::")[0], "-", "<name>%s" % suf, "derivations differ (%s) but no definition site was recognised" % desc)
    rep.ok("R03.11", "-", "-", "synthesised type-name families (by suffix)", "%d compared" % n)


# ---------------------------------------------------------------- R03.13: namespaces of the per-protocol headers
CPP_KEYWORDS = frozenset("""alignas alignof and and_eq asm auto bitand bitor bool break case catch char char8_t char16_t char32_t class compl concept const
consteval constexpr constinit const_cast continue co_await co_return co_yield decltype default delete do double dynamic_cast else enum explicit export
extern false float for friend goto if inline int long mutable namespace new noexcept not not_eq nullptr operator or or_eq private protected public
register reinterpret_cast requires return short signed sizeof static static_assert static_cast struct switch template this thread_local throw true try
typedef typeid typename union unsigned using virtual void volatile wchar_t while xor xor_eq""".split())


def namespace_rule(eng, rep) -> None:
    """`namespace {{namespace}} {` in fcp.h.j2: the text bound to `namespace` at each render site must be usable as a C++ identifier.
    Protocol names are bound there; the parser itself gives every struct a binding of protocol "default" - a C++ keyword."""
    prog = eng.prog
    gens = [f for f in prog.functions.values() if f.module.name.startswith("fcp_cpp") and f.name == "generate" and f.cls is not None]
    if not gens:
        rep.undecided("R03.13", "-", "-", "fcp_cpp Generator.generate", "not found")
        return
    g = gens[0]
    # protocol names the repository itself creates bindings with
    own = {}
    for f in prog.functions.values():
        for n in walk_local(f.node):
            if isinstance(n, ast.Call) and (dotted(n.func) or "").split(".")[-1] == "Impl":
                for k in n.keywords:
                    if k.arg == "protocol" and isinstance(k.value, ast.Constant) and isinstance(k.value.value, str):
                        own.setdefault(k.value.value, "%s (%s)" % (f.qual, f.file))
    n_sites = 0
    for n in walk_local(g.node):
        if not (isinstance(n, ast.Call) and isinstance(n.func, ast.Attribute) and n.func.attr == "with_file" and len(n.args) >= 3 and isinstance(n.args[2], ast.Dict)):
            continue
        d = n.args[2]
        for k, v in zip(d.keys, d.values):
            if not (isinstance(k, ast.Constant) and k.value == "namespace"):
                continue
            n_sites += 1
            site = "with_file(%s, ..., namespace=%s)" % (norm(n.args[0], 30), norm(v, 40))
            if isinstance(v, ast.Constant):
                if v.value is None:
                    rep.ok("R03.13", g.file, g.qual, site, "no inner namespace")
                else:
                    rep.check(str(v.value) not in CPP_KEYWORDS, "R03.13", g.file, g.qual, site, "a valid C++ identifier", "the namespace '%s' is a C++ keyword: the header does not compile" % v.value)
                continue
            escaped = None
            if isinstance(v, ast.Call):
                r = prog.resolve_expr_symbol(g.module, g, v.func)
                fn = prog.functions.get(r[1]) if r and r[0] == "func" else (eng.cg.function_value(g, v.func) if hasattr(eng.cg, "function_value") else None)
                if fn is not None:
                    consts = {c.value for c in ast.walk(fn.node) if isinstance(c, ast.Constant) and isinstance(c.value, str)}
                    modconsts = {c.value for a_ in fn.module.assigns.values() for c in ast.walk(a_) if isinstance(c, ast.Constant) and isinstance(c.value, str)}
                    words = {w for c_ in (consts | modconsts) for w in str(c_).split()}
                    escaped = len(words & CPP_KEYWORDS) >= 5
            if escaped is None and isinstance(v, ast.IfExp) and isinstance(v.test, ast.Compare) and isinstance(v.test.ops[0], (ast.In, ast.NotIn)):
                coll = v.test.comparators[0]
                cv = g.module.assigns.get(coll.id) if isinstance(coll, ast.Name) else coll
                words = {w for c_ in ast.walk(cv) if isinstance(c_, ast.Constant) and isinstance(c_.value, str) for w in c_.value.split()} if cv is not None else set()
                escaped = len(words & CPP_KEYWORDS) >= 5
            if escaped:
                rep.ok("R03.13", g.file, g.qual, site, "the name is passed through a function that knows the C++ keywords")
                continue
            bad = sorted(set(own) & CPP_KEYWORDS)
            loops = [l for l in walk_local(g.node) if isinstance(l, ast.For) and any(x is n for x in ast.walk(l))]
            from_protocols = any("get_protocols" in norm(l.iter) for l in loops) and isinstance(v, ast.Name) and any(isinstance(l.target, ast.Name) and l.target.id == v.id for l in loops)
            if from_protocols and bad:
                rep.violation("R03.13", g.file, g.qual, site, "the protocol name is used verbatim as a C++ namespace, and the repository itself creates bindings of protocol '%s' (%s), a C++ keyword: for EVERY schema the generated fcp_%s.h contains `namespace %s {` and does not compile" % (bad[0], own[bad[0]], bad[0], bad[0]))
            elif from_protocols:
                rep.undecided("R03.13", g.file, g.qual, site, "protocol names are used verbatim as C++ namespaces; a user-chosen protocol name that is a C++ keyword is not escaped")
            else:
                rep.undecided("R03.13", g.file, g.qual, site, "origin of the namespace text not recognised")
    rep.ok("R03.13", g.file, g.qual, "render sites that set `namespace`", "%d found" % n_sites)
