"""C08 - accepted schemas have no dangling or mis-kinded type references.

R08.1 composed_type: StructType(n) only under a positive struct lookup of n, EnumType(n) only under a
      positive enum lookup of n, otherwise an error that contains n; the lookups compare names
R08.2 lookups read the tree accumulated by the same transformer; its only writers are the declaring
      callbacks and the import merge (declare-before-use, no self reference)
R08.3 error discipline: Result children are attempt()ed under @catch or tested before unwrap; none is
      stored unexamined or dropped; the struct callback's chained message names the struct
R08.4 container callbacks pass the inner type through unchanged
"""

from __future__ import annotations

import ast
from typing import Dict, List, Optional, Set

from ..front_py import AnalysisError, FuncInfo, walk_local, norm, dotted
from ..dataflow import Defs, Provenance, stores_in
from ..predicates import Extractor, Undecided, canon
from ..front_lark import Grammar
from ..callbacks import callbacks, transformer_class, callback_returns_result
from .C11 import unwrap_guarded

TYPE_RULES = {"array_type": "fcp.specs.type.ArrayType", "dynamic_array_type": "fcp.specs.type.DynamicArrayType", "optional_type": "fcp.specs.type.OptionalType"}


def run(eng, rep) -> None:
    prog, cg, T = eng.prog, eng.cg, eng.T
    rep.explanation = (
        "Control-dependence and error-discipline rules on the transformer callbacks. The composed-type callback is "
        "reduced to its return paths (path conditions normalised): a struct/enum tag may only be returned under a positive "
        "lookup of the same name in the tree being accumulated; the remaining path returns an error mentioning the name. "
        "Writers of the accumulated declaration lists are inventoried (declare-before-use follows with lark's bottom-up, "
        "left-to-right traversal). Every Result-valued child (by grammar child kinds and callback return annotations) must be "
        "attempt()ed under @catch or is_err()-tested; none may be stored unexamined."
    )
    rep.rule("R08.1", "tags are control-dependent on the matching lookup of the same name; the else path errors and names the type")
    rep.rule("R08.2", "accumulated declaration lists are written only by their declaring callbacks and the import merge; the tree is fresh per transformer")
    rep.rule("R08.3", "Result children are attempted under @catch or tested; none stored raw or dropped; chained message names the struct")
    rep.rule("R08.4", "container callbacks build their type from the (unwrapped) inner child")
    rep.rule("R08.7", "map_err callbacks extend the incoming error with results_in; none rebuilds it from a part of it")
    rep.rule("R08.6", "the import callback merges the imported module whole, or a subset chosen by a walk that follows container element types")
    rep.rule("R08.5", "an index of declared names consulted by the composed-type callback is written only by declaration/import callbacks (declared so far), never from a scan of the whole parse tree")
    rep.assume("lark Transformer visits children before parents, left to right (declare-before-use); VisitError wrapping is C11's concern")
    g = Grammar(prog)
    cbs = callbacks(eng, g)
    tcls = transformer_class(eng)
    cb = cbs.get("composed_type")
    if cb is None:
        raise AnalysisError("anchor vanished: callback for grammar rule composed_type")
    f = cb.f
    # ---- R08.1 -----------------------------------------------------------------------
    ex = Extractor(f.node, lambda v: False, lambda v: False, {f.params[0].arg: "SELF"})
    try:
        rets = ex.run_returns()
    except Undecided as u:
        rets = None
        rep.undecided("R08.1", f.file, f.qual, "return paths", str(u))
    if rets is not None:
        name_expr = "%s[0]" % cb.children_src
        n_tag = 0
        err_seen = False
        for path, v in rets:
            vs = canon(v) if v is not None else "None"
            lits = path.lits
            pos_some = {a[1] for s, a in lits if not s and a[0] == "nothing"}  # not nothing == is_some
            kind = None
            if isinstance(v, ast.Call) and dotted(v.func) == "Ok" and v.args and isinstance(v.args[0], ast.Call):
                r = prog.resolve_expr_symbol(f.module, f, v.args[0].func)
                if r and r[0] == "class":
                    kind = r[1].split(".")[-1]
                    arg = canon(v.args[0].args[0]) if v.args[0].args else "?"
            if kind in ("StructType", "EnumType"):
                n_tag += 1
                look = "get_struct" if kind == "StructType" else "get_enum"
                want = "SELF.fcp.%s(%s)" % (look, arg)
                other = "SELF.fcp.%s(%s)" % ("get_enum" if kind == "StructType" else "get_struct", arg)
                okc = want in pos_some
                # kind decided by membership in an index the transformer itself maintains (x in self._names)
                own_index = [a for s_, a in lits if a[0] in ("in", "notin") and len(a) > 2 and str(a[2]).startswith("SELF.") and not str(a[2]).startswith("SELF.fcp.") and str(a[1]) == arg and ((a[0] == "in") == bool(s_))]
                if not okc and own_index:
                    rep.undecided("R08.1", f.file, f.qual, "return %s" % vs[:70], "the tag is returned under membership of the name in %s, an index kept by the transformer; that it mirrors the declaration lists is not decided" % own_index[0][2])
                    continue
                rep.check(okc and arg == name_expr, "R08.1", f.file, f.qual, "return %s" % vs[:70], "under a positive %s of the same name" % look,
                          "%s(%s) is returned without a positive %s lookup of that name on the path (path: %s): a reference can be accepted unresolved or mis-kinded" % (kind, arg, look, path.describe()[:150]))
                # struct wins over enum only if struct lookup is positive; an enum tag must not be returned when the struct lookup is positive
                if kind == "EnumType" and ("SELF.fcp.get_struct(%s)" % arg) in pos_some:
                    rep.violation("R08.1", f.file, f.qual, "return %s" % vs[:70], "enum tag returned on a path where the struct lookup succeeded")
            else:
                cs_err = isinstance(v, ast.Call) and (dotted(v.func) in ("error", "Err"))
                if cs_err:
                    err_seen = True
                    msg = canon(v.args[0]) if v.args else ""
                    rep.check(name_expr in msg or "typename" in msg, "R08.1", f.file, f.qual, "return %s" % vs[:80], "error names the unresolved type", "the error for an unresolved reference does not contain the type name")
                    rep.check(len(v.args) > 1 or any(k.arg == "node" for k in v.keywords), "R08.1", f.file, f.qual, "error(..., node)", "error carries the position of the reference", "the error for an unresolved reference has no source position")
                else:
                    rep.undecided("R08.1", f.file, f.qual, "return %s" % vs[:80], "returned value is not syntactically a StructType/EnumType tag or an error (kind chosen dynamically)")
        if n_tag < 2:
            rep.undecided("R08.1", f.file, f.qual, "tag-returning paths", "fewer than two syntactic tag returns (%d): the composed-type callback is not in the recognised if/elif form" % n_tag)
        rep.check(err_seen, "R08.1", f.file, f.qual, "else: return error(...)", "an unresolved name yields an error", "no path returns an error: an undeclared name cannot be rejected")
    # lookups compare names over the right list
    v2 = prog.cls("fcp.specs.v2.FcpV2")
    for mname, lst in (("get_struct", "structs"), ("get_enum", "enums")):
        m = v2.methods.get(mname)
        if m is None:
            raise AnalysisError("anchor vanished: FcpV2.%s" % mname)
        e2 = Extractor(m.node, lambda v: False, lambda v: False, {m.params[0].arg: "SELF", m.params[1].arg: "NAME"})
        try:
            rr = e2.run_returns()
        except Undecided as u:
            rep.undecided("R08.1", m.file, m.qual, "lookup", str(u))
            continue
        # idiom: maybe(next((x for x in self.<list> if x.name == name), None))
        single = [v for p, v in rr]
        if len(single) == 1 and isinstance(single[0], ast.Call) and dotted(single[0].func) == "maybe" and len(single[0].args) == 1:
            nx = single[0].args[0]
            verdict = None
            if isinstance(nx, ast.Call) and dotted(nx.func) == "next" and len(nx.args) == 2 and isinstance(nx.args[1], ast.Constant) and nx.args[1].value is None and isinstance(nx.args[0], ast.GeneratorExp) and len(nx.args[0].generators) == 1:
                ge = nx.args[0]
                g0 = ge.generators[0]
                var = g0.target.id if isinstance(g0.target, ast.Name) else None
                pname = m.params[1].arg
                over = norm(g0.iter) in ("%s.%s" % (m.params[0].arg, lst), "SELF.%s" % lst)
                same_elt = isinstance(ge.elt, ast.Name) and ge.elt.id == var
                test_ok = len(g0.ifs) == 1 and norm(g0.ifs[0]) in ("%s.name == %s" % (var, pname), "%s == %s.name" % (pname, var), "%s.name == NAME" % var, "NAME == %s.name" % var)
                verdict = bool(var) and over and same_elt and test_ok
            if verdict is True:
                rep.ok("R08.1", m.file, m.qual, "maybe(next((x for x in self.%s if x.name == name), None))" % lst, "exact-name lookup over self.%s (first match or Nothing)" % lst)
            elif verdict is False:
                rep.violation("R08.1", m.file, m.qual, "lookup over self.%s" % lst, "lookup is not an exact-name search over self.%s returning Some(match)/Nothing()" % lst)
            else:
                rep.undecided("R08.1", m.file, m.qual, "lookup", "form of the lookup not recognised: %s" % norm(single[0], 80))
            continue
        somes = [(p, v) for p, v in rr if isinstance(v, ast.Call) and dotted(v.func) == "Some"]
        if not somes:
            rep.undecided("R08.1", m.file, m.qual, "lookup", "no `return Some(...)` path: form of the lookup not recognised")
            continue
        okl = len(somes) == 1 and somes[0][0].binds == [("$1", "SELF.%s" % lst)] and [(s, a) for s, a in somes[0][0].lits] in ([(True, ("eq", "$1.name", "NAME"))], [(True, ("eq", "NAME", "$1.name"))]) and canon(somes[0][1].args[0]) == "$1"
        nothing = [v for p, v in rr if isinstance(v, ast.Call) and dotted(v.func) == "Nothing"]
        rep.check(okl and bool(nothing), "R08.1", m.file, m.qual, "for x in self.%s: if x.name == name: return Some(x); return Nothing()" % lst, "exact-name lookup over self.%s" % lst,
                  "lookup is not an exact-name search over self.%s returning Some(match)/Nothing()" % lst)

    # kind must be established by a kind-specific lookup: a lookup over the mixed population
    # (structs + enums) matches by name only and cannot justify a struct-vs-enum tag
    for n in ast.walk(f.node):
        if isinstance(n, ast.Call) and isinstance(n.func, ast.Attribute) and norm(n.func.value) == "self.fcp":
            m = v2.methods.get(n.func.attr)
            if m is None:
                continue
            iters = [canon(x.iter) for x in ast.walk(m.node) if isinstance(x, (ast.For, ast.comprehension))]
            mixed = any("structs" in it and "enums" in it for it in iters) or any("get_types()" in it for it in iters)
            if mixed:
                rep.violation("R08.1", f.file, f.qual, norm(n, 60), "reference kind is decided by %s, which searches structs and enums together by name only: an enum can be tagged as a struct (or vice versa)" % n.func.attr)
    # ---- R08.5: an index of declared names kept by the transformer holds declarations seen so far ----
    TREE_SCANS = {"find_data", "find_pred", "iter_subtrees", "iter_subtrees_topdown", "scan_values", "find_token"}
    own = sorted({n.attr for n in ast.walk(f.node) if isinstance(n, ast.Attribute) and isinstance(n.value, ast.Name) and n.value.id == f.params[0].arg
                  and n.attr != "fcp" and n.attr not in tcls.methods and isinstance(n.ctx, ast.Load)
                  and any(isinstance(w, (ast.Assign, ast.AnnAssign)) and any(isinstance(t, ast.Attribute) and t.attr == n.attr for t in (w.targets if isinstance(w, ast.Assign) else [w.target]))
                          and isinstance(w.value, (ast.Dict, ast.Set, ast.List, ast.Call)) for m_ in tcls.methods.values() for w in walk_local(m_.node))})
    decl_cbs = {c.f.qual for r_, c in cbs.items() if r_ in ("struct", "enum", "mod_expr", "struct_field", "enum_field")}
    for attr in own:
        for m_ in tcls.methods.values():
            for kind, tgt, st in stores_in(m_.node):
                root = tgt.value if kind == "sub-store" else tgt
                if not (isinstance(root, ast.Attribute) and root.attr == attr and isinstance(root.value, ast.Name) and root.value.id == m_.params[0].arg):
                    continue
                site = "self.%s <- %s" % (attr, norm(st, 70))
                if kind == "attr-store" and isinstance(st.value, (ast.Dict, ast.Set, ast.List)) and not (st.value.keys if isinstance(st.value, ast.Dict) else st.value.elts):
                    rep.ok("R08.5", m_.file, m_.qual, site, "starts empty")
                    continue
                scans = [c for c in walk_local(m_.node) if isinstance(c, ast.Call) and isinstance(c.func, ast.Attribute) and c.func.attr in TREE_SCANS]
                if scans and m_.qual not in decl_cbs:
                    rep.violation("R08.5", m_.file, m_.qual, site, "the index of declared names consulted by the composed-type callback is filled by scanning the parse tree (%s) outside the declaration callbacks: it contains declarations that come after the reference (and the enclosing struct itself), so forward and self references are accepted" % norm(scans[0], 50))
                elif m_.qual in decl_cbs:
                    rep.ok("R08.5", m_.file, m_.qual, site, "recorded by a declaration/import callback (children are transformed before parents, left to right)")
                else:
                    rep.undecided("R08.5", m_.file, m_.qual, site, "writer of the index is neither a declaration callback nor a tree scan")
    # ---- R08.7: error mapping extends the incoming error, it does not rebuild it --------------------
    n_me = 0
    for m_ in tcls.methods.values():
        for c in walk_local(m_.node):
            if not (isinstance(c, ast.Call) and isinstance(c.func, ast.Attribute) and c.func.attr == "map_err" and len(c.args) == 1 and isinstance(c.args[0], ast.Lambda)):
                continue
            lam = c.args[0]
            if len(lam.args.args) != 1:
                continue
            n_me += 1
            p_ = lam.args.args[0].arg
            e = lam.body
            while isinstance(e, ast.Call) and isinstance(e.func, ast.Attribute) and e.func.attr == "results_in":
                e = e.func.value
            site = ".map_err(%s)" % norm(lam, 70)
            if isinstance(e, ast.Name) and e.id == p_:
                rep.ok("R08.7", m_.file, m_.qual, site, "the incoming error is extended (results_in): every enclosing context stays in the message")
            elif isinstance(e, ast.Call) and any(isinstance(x, ast.Name) and x.id == p_ for x in ast.walk(e)):
                rep.violation("R08.7", m_.file, m_.qual, site, "a new error is built from parts of the incoming one (%s): the contexts it carried - `Failed to parse field in struct X` among them - are discarded, so the reported error no longer names the enclosing struct" % norm(e, 50))
            else:
                rep.undecided("R08.7", m_.file, m_.qual, site, "form of the error mapping not recognised")
    rep.ok("R08.7", "-", "-", "map_err sites of the transformer", "%d found" % n_me)
    # ---- R08.6: what the import callback merges is the imported module, whole ------------------------
    imp = cbs.get("mod_expr")
    if imp is not None:
        for c in walk_local(imp.f.node):
            if not (isinstance(c, ast.Call) and isinstance(c.func, ast.Attribute) and c.func.attr == "merge" and c.args):
                continue
            e = c.args[0]
            if isinstance(e, ast.Name):
                from ..dataflow import deep_resolve
                e = deep_resolve(imp.f.node, e)
            derived = []
            while isinstance(e, ast.Call) and isinstance(e.func, ast.Attribute):
                if e.func.attr in ("map", "and_then", "bind") and e.args:
                    derived.append(e.args[0])
                e = e.func.value
            for fn in derived:
                body = fn.body if isinstance(fn, ast.Lambda) else fn
                quals = set()
                for cc_ in ast.walk(body):
                    if isinstance(cc_, ast.Call) and isinstance(cc_.func, ast.Attribute):
                        m2 = v2.methods.get(cc_.func.attr)
                        if m2 is not None:
                            quals.add(m2.qual)
                    elif isinstance(cc_, ast.Call) and isinstance(cc_.func, ast.Name):
                        r = prog.resolve_name(imp.f.module, imp.f, cc_.func.id)
                        if r and r[0] == "func":
                            quals.add(r[1])
                reach = (set(eng.cg.reachable(sorted(quals))) | quals) if quals else set()
                nodes = [body] + [prog.functions[q].node for q in reach if q in prog.functions]
                filters = [x for nd in nodes for x in ast.walk(nd) if isinstance(x, ast.comprehension) and x.ifs and any(isinstance(a, ast.Attribute) and a.attr in ("structs", "enums") for a in ast.walk(x.iter))]
                site = "merge(... .%s(%s))" % ("map", norm(fn, 60))
                if not filters:
                    rep.undecided("R08.6", imp.f.file, imp.f.qual, site, "the imported tree is transformed before it is merged; effect on the declarations not recognised")
                    continue
                unwraps = any(isinstance(a, ast.Attribute) and a.attr == "underlying_type" for nd in nodes for a in ast.walk(nd))
                if not unwraps:
                    rep.violation("R08.6", imp.f.file, imp.f.qual, site, "only a subset of the imported module's declarations is merged (%s) and the selection never looks inside array/optional wrappers (no use of underlying_type on the selection path): a declaration referenced only through a wrapper is dropped, leaving an accepted tree with a dangling reference" % norm(filters[0], 60))
                else:
                    rep.undecided("R08.6", imp.f.file, imp.f.qual, site, "a subset of the imported module is merged; closure of the subset under references is not decided")
            if not derived:
                rep.ok("R08.6", imp.f.file, imp.f.qual, norm(c, 60), "the nested parse result is merged as it is (only its error is mapped)")
    # no state shared between transformer instances
    for st in tcls.node.body:
        if isinstance(st, (ast.Assign, ast.AnnAssign)):
            val = st.value
            tname = st.targets[0].id if isinstance(st, ast.Assign) and isinstance(st.targets[0], ast.Name) else (st.target.id if isinstance(st, ast.AnnAssign) and isinstance(st.target, ast.Name) else None)
            if val is not None and (isinstance(val, (ast.Dict, ast.List, ast.Set)) or (isinstance(val, ast.Call) and dotted(val.func) in ("dict", "list", "set", "defaultdict"))):
                rep.violation("R08.2", tcls.file, tcls.qual, norm(st, 60), "class-level mutable attribute '%s' is shared by every transformer: declarations recorded while parsing one file remain visible to later, unrelated parses" % tname)
    # ---- R08.2 -----------------------------------------------------------------------
    init = tcls.methods.get("__init__")
    fresh = init is not None and any(isinstance(n, ast.Assign) and norm(n.targets[0]) == "self.fcp" and isinstance(n.value, ast.Call) and not n.value.args for n in walk_local(init.node))
    rep.check(fresh, "R08.2", tcls.file, tcls.qual + ".__init__", "self.fcp = FcpV2()", "each transformer accumulates into a fresh tree", "the transformer does not start from a fresh, empty tree")
    allowed = {"structs": {"struct"}, "enums": {"enum"}, "impls": {"struct", "impl"}, "services": {"service"}, "devices": {"device"}}
    n_w = 0
    for mname, m in tcls.methods.items():
        for kind, tgt, st in stores_in(m.node):
            t = norm(tgt)
            if t.startswith("self.fcp."):
                lst = t.split(".")[2].split("[")[0]
                n_w += 1
                okw = mname in allowed.get(lst, set()) and kind == "mutcall" and isinstance(st, ast.Call) and st.func.attr == "append"
                rep.check(okw, "R08.2", m.file, m.qual, norm(st, 60), "declaring callback appends its own declaration",
                          "declaration list self.fcp.%s is written from callback '%s' (%s): declarations become visible out of source order" % (lst, mname, kind))
            elif t == "self.fcp" and mname != "__init__":
                rep.violation("R08.2", m.file, m.qual, norm(st, 60), "the accumulated tree is replaced during transformation")
    rep.floor("R08.2", "writers of the accumulated declaration lists", n_w, 2)
    # lookups go to self.fcp (not to a global / other tree)
    for n in ast.walk(f.node):
        if isinstance(n, ast.Call) and isinstance(n.func, ast.Attribute) and n.func.attr in ("get_struct", "get_enum", "get_type"):
            rep.check(norm(n.func.value) == "self.fcp", "R08.2", f.file, f.qual, norm(n, 50), "lookup in the tree accumulated so far", "lookup does not read the tree being accumulated by this transformer")

    # ---- R08.3 / R08.4 -----------------------------------------------------------------
    result_rules = {r for r, c in cbs.items() if callback_returns_result(eng, c)}
    n_rc = 0
    for rule, c in sorted(cbs.items()):
        seqs = g.child_sequences(rule) if rule in g.rules else []
        if not seqs:
            continue
        # which child positions can hold a Result?
        res_idx: Set[int] = set()
        res_rest_from: Optional[int] = None
        for s in seqs:
            for i, k in enumerate(s):
                if k in result_rules:
                    res_idx.add(i)
        if not res_idx:
            continue
        fdef = c.f
        has_attempt = any(isinstance(n, ast.Call) and isinstance(n.func, ast.Attribute) and n.func.attr == "attempt" for n in ast.walk(fdef.node))
        if has_attempt:
            rep.check(fdef.has_decorator("catch"), "R08.3", fdef.file, fdef.qual, "@catch on callback using attempt()", "the child's error is returned (chained) by this callback",
                      "callback attempt()s a child result without @catch: the error (naming the type) is lost in an exception")
        # names bound to result children
        rnames: Dict[str, str] = {}
        for nm, (kind, i) in c.binds.items():
            if kind == "idx" and i in res_idx:
                rnames[nm] = "idx"
            if kind == "rest" and any(j >= i for j in res_idx):
                rnames[nm] = "rest"
        uses = []  # (expr node, how)
        pm = {}
        for n in ast.walk(fdef.node):
            for ch in ast.iter_child_nodes(n):
                pm[id(ch)] = n
        loopvars: Dict[str, str] = {}
        for n in ast.walk(fdef.node):
            if isinstance(n, (ast.For, ast.comprehension)) and isinstance(n.target, ast.Name):
                it = n.iter
                if (isinstance(it, ast.Name) and rnames.get(it.id) == "rest") or norm(it) == c.children_src:
                    loopvars[n.target.id] = "elem"
        shadowed = set()
        for lam in ast.walk(fdef.node):
            if isinstance(lam, ast.Lambda):
                ps_ = {a.arg for a in lam.args.args}
                for y in ast.walk(lam.body):
                    if isinstance(y, ast.Name) and y.id in ps_:
                        shadowed.add(id(y))

        def is_result_ref(x: ast.AST) -> bool:
            if id(x) in shadowed:
                return False
            if isinstance(x, ast.Name) and (rnames.get(x.id) == "idx" or x.id in loopvars) and isinstance(x.ctx, ast.Load):
                return True
            if isinstance(x, ast.Subscript) and norm(x.value) == c.children_src and isinstance(x.slice, ast.Constant) and x.slice.value in res_idx:
                return True
            return False
        refs = [x for x in ast.walk(fdef.node) if is_result_ref(x)]
        if not refs:
            rep.violation("R08.3", fdef.file, fdef.qual, "Result child of rule %s" % rule, "callback never examines its Result-valued child: an error in it is dropped")
            continue
        for x in refs:
            n_rc += 1
            par = pm.get(id(x))
            how = None
            if isinstance(par, ast.Attribute) and par.value is x:
                if par.attr == "map_err":
                    # must end in .attempt()
                    top = pm.get(id(par))
                    chain = norm(pm.get(id(top)), 40) if top is not None else ""
                    a2 = pm.get(id(top))
                    how = "ok" if isinstance(a2, ast.Attribute) and a2.attr == "attempt" else "map_err result not attempted"
                elif par.attr in ("is_err", "is_ok", "err", "attempt"):
                    how = "ok"
                elif par.attr in ("unwrap", "expect", "ok"):
                    call = pm.get(id(par))
                    how = "ok" if isinstance(call, ast.Call) and isinstance(x, ast.Name) and unwrap_guarded(fdef, call) else "unwrap() without an is_err() test"
                else:
                    how = "method .%s on an unexamined Result" % par.attr
            elif isinstance(par, ast.Assign) and par.value is x and isinstance(par.targets[0], ast.Name) and par.targets[0].id in c.binds:
                how = "ok"  # alias; uses of the alias are examined on their own
            elif isinstance(par, ast.Call) and dotted(par.func) == "cast":
                how = "ok"  # pass-through with a typing cast (the `type` rule)
            elif isinstance(par, ast.Return) or (isinstance(par, ast.Call) and isinstance(pm.get(id(par)), ast.Return) and dotted(par.func) == "cast"):
                how = "ok"  # returned as is to the parent rule
            else:
                how = "Result child used raw (%s): an error value is stored in the tree instead of being reported" % norm(par, 60)
            rep.check(how == "ok", "R08.3", fdef.file, fdef.qual, "%s in %s" % (norm(x, 30), norm(par, 60) if par is not None else ""), "examined before use", how)
        # R08.4
        if rule in TYPE_RULES:
            ok4 = False
            for n in ast.walk(fdef.node):
                if isinstance(n, ast.Call):
                    r = prog.resolve_expr_symbol(fdef.module, fdef, n.func)
                    if r and r[0] == "class" and r[1] == TYPE_RULES[rule] and n.args:
                        a0 = n.args[0]
                        ok4 = any(is_result_ref(x) for x in ast.walk(a0)) and (".attempt()" in norm(a0, 300) or ".unwrap()" in norm(a0, 300))
                        rep.check(ok4, "R08.4", fdef.file, fdef.qual, norm(n, 80), "inner type is the unwrapped child", "container type is not built from its (unwrapped) inner child")
                        if rule == "array_type" and len(n.args) > 1:
                            a1 = n.args[1]
                            rep.check(any(isinstance(x, ast.Subscript) and norm(x.value) == c.children_src and isinstance(x.slice, ast.Constant) and x.slice.value == 1 for x in ast.walk(a1)) or any(isinstance(x, ast.Name) and c.binds.get(x.id) == ("idx", 1) for x in ast.walk(a1)),
                                      "R08.4", fdef.file, fdef.qual, "size <- child 1", "array size is the declared number", "array size does not come from the declared size child")
    rep.floor("R08.3", "uses of Result-valued children", n_rc, 2)
    # chained message names the struct
    sc = cbs.get("struct")
    if sc is not None:
        nm = [k for k, v in sc.binds.items() if v == ("idx", 0)]
        msgs = [n for n in ast.walk(sc.f.node) if isinstance(n, ast.Call) and isinstance(n.func, ast.Attribute) and n.func.attr == "results_in" and n.args]
        okm = bool(nm) and any(any(isinstance(x, ast.Name) and x.id == nm[0] for x in ast.walk(m.args[0])) for m in msgs)
        rep.check(okm, "R08.3", sc.f.file, sc.f.qual, "results_in(f'... {%s}')" % (nm[0] if nm else "name"), "chained error names the enclosing struct", "the error chained by the struct callback does not name the struct")
        # struct is appended only after its fields were attempted (same statement or later)
