"""Typed reading of the run-time (reflection-loaded) C++ codec, plugins/fcp_cpp/fcp_cpp/dynamic.h.j2.

The template is almost pure C++ (its Jinja expressions are a stamp comment and one integer).  It is instantiated
abstractly - every {{expr}} becomes the literal 0, the template is never rendered - and handed to clang together
with a stand-in `reflection.h` (the real one is itself generated).  Only `LoadBinarySchema` needs the generated
reflection classes; clang reports errors there and still produces the typed AST of every other member function,
which is what the rules read:

  dispatch(name)      type-tag -> handler table of `_Decode` / `_Encode` (an if/else-if chain on `type.type`)
  grammar(handler)    transfer sequence of a handler (W/Loop/If/Rec/Insert), widths resolved to what they denote
  json_category(h)    value category of the JSON a decode handler returns (from the type of the returned expression)
"""

from __future__ import annotations

import os
import re
from typing import Dict, List, Optional, Tuple

from ..front_py import AnalysisError
from ..front_clang import cxx_ast, walk, int_width, CNode
from .cpp_codec import HDR_INCLUDES

TPL = "plugins/fcp_cpp/fcp_cpp/dynamic.h.j2"
REFLECTION_STUB = '#pragma once\n#include "decoders.h"\n#include "i_schema.h"\n'


class Undecided(Exception):
    pass


def reflection_stub(eng) -> str:
    """A typed stand-in for the generated reflection.h, declared (never defined) from reflection.fcp as the checker's own lark
    grammar reads it: one class per struct with `Get<PascalField>()` returning the static wrapper of the field's type and a
    static Decode.  Field names are converted the way the C++ generator's to_pascal_case does (words split at '_', capitalised)."""
    from ..front_lark import Grammar, mini_schema
    try:
        recs = mini_schema(Grammar(eng.prog), eng.read("src", "fcp", "reflection", "reflection.fcp"))
    except Exception:
        return REFLECTION_STUB
    recs = {k: v for k, v in recs.items() if not k.startswith("#")}

    def pascal(n: str) -> str:
        return "".join(w[:1].upper() + w[1:] for w in n.split("_"))

    def carrier(bits: int, signed: bool) -> str:
        w = 8 if bits <= 8 else 16 if bits <= 16 else 32 if bits <= 32 else 64
        return "std::%sint%d_t" % ("" if signed else "u", w)

    def cpp(ft) -> str:
        k = ft[0]
        if k == "u":
            return "Unsigned<%s, %d>" % (carrier(ft[1], False), ft[1])
        if k == "i":
            return "Signed<%s, %d>" % (carrier(ft[1], True), ft[1])
        if k == "f32":
            return "Float"
        if k == "f64":
            return "Double"
        if k == "str":
            return "String"
        if k == "array":
            return "Array<%s, %d>" % (cpp(ft[1]), ft[2])
        if k == "dyn":
            return "DynamicArray<%s>" % cpp(ft[1])
        if k == "opt":
            return "Optional<%s>" % cpp(ft[1])
        return "fcp::reflection::%s" % ft[1]
    out = [REFLECTION_STUB, "namespace fcp { namespace reflection {\n"]
    for n in recs:
        out.append("class %s;\n" % n)
    for n, fields in recs.items():
        out.append("class %s { public:\n  static %s Decode(Buffer& buffer, Endianess e = Endianess::Little);\n  void Encode(Buffer& buffer, Endianess e = Endianess::Little) const;\n  json DecodeJson() const;\n  bool operator==(const %s&) const;\n" % (n, n, n))
        for fname, fid, ft in fields:
            out.append("  %s Get%s() const;\n" % (cpp(ft), pascal(fname)))
        out.append("};\n")
    out.append("} }\n")
    return "".join(out)


def strip(x: Optional[CNode]) -> Optional[CNode]:
    while x is not None and x.kind in ("ImplicitCastExpr", "ParenExpr", "ExprWithCleanups", "MaterializeTemporaryExpr", "CXXBindTemporaryExpr", "CXXFunctionalCastExpr", "CStyleCastExpr", "CXXStaticCastExpr", "ConstantExpr") and x.inner:
        x = x.inner[-1]
    return x


def ref_name(x: Optional[CNode]) -> Optional[str]:
    x = strip(x)
    if x is not None and x.kind == "DeclRefExpr":
        return x.get("referencedDecl", {}).get("name")
    return None


class DynCodec:
    def __init__(self, eng):
        self.eng = eng
        path = eng.path(*TPL.split("/"))
        if not os.path.exists(path):
            raise AnalysisError("anchor vanished: %s" % TPL)
        src = eng.read(*TPL.split("/"))
        if re.search(r"\{%.*?%\}", src, re.S):
            raise Undecided("the template contains {% %} blocks; the abstract instantiation only handles {{ }} expressions")
        inst = re.sub(r"\{\{.*?\}\}", "0", src, flags=re.S)
        hdir = eng.path("plugins", "fcp_cpp", "fcp_cpp")
        decls = cxx_ast(HDR_INCLUDES + '#include "dynamic.h"\n', [hdir], filt="fcp::dynamic::DynamicSchema", allow_errors=True,
                        extra_files={"dynamic.h": inst, "reflection.h": reflection_stub(eng)})
        self.errors = list(getattr(cxx_ast, "last_errors", []))
        cls = [d for d in decls if d.kind == "CXXRecordDecl" and d.get("name") == "DynamicSchema" and d.inner]
        if not cls:
            raise Undecided("class fcp::dynamic::DynamicSchema not found in the abstract instance (%s)" % (self.errors[:1] or "no clang error"))
        self.cls = cls[0]
        self.methods: Dict[str, CNode] = {}
        for m in self.cls.inner:
            if m.kind == "CXXMethodDecl" and m.get("name") and any(c.kind == "CompoundStmt" for c in m.inner):
                self.methods.setdefault(m["name"], m)
        self.by_id: Dict[str, CNode] = {}
        for n in walk(self.cls):
            if "id" in n:
                self.by_id.setdefault(n["id"], n)
        # errors outside the loader make the typed reading unreliable
        self.foreign_errors = [e for e in self.errors if "reflection" not in e]

    # ------------------------------------------------------------------ helpers
    def body(self, name: str) -> Optional[CNode]:
        m = self.methods.get(name)
        if m is None:
            return None
        return [c for c in m.inner if c.kind == "CompoundStmt"][0]

    def params(self, name: str) -> List[CNode]:
        m = self.methods.get(name)
        return [c for c in m.inner if c.kind == "ParmVarDecl"] if m is not None else []

    def decl_of(self, ref: CNode) -> Optional[CNode]:
        return self.by_id.get(ref.get("referencedDecl", {}).get("id", ""))

    def is_buffer(self, x: Optional[CNode]) -> bool:
        x = strip(x)
        return x is not None and "Buffer" in x.qtype and "vector" not in x.qtype

    def member_call(self, x: CNode) -> Optional[Tuple[str, Optional[CNode], List[CNode]]]:
        """CXXMemberCallExpr -> (member name, object expr, args)"""
        if x.kind != "CXXMemberCallExpr" or not x.inner:
            return None
        callee = x.inner[0]
        while callee.kind in ("ImplicitCastExpr", "ParenExpr") and callee.inner:
            callee = callee.inner[0]
        if callee.kind != "MemberExpr":
            return None
        obj = callee.inner[0] if callee.inner else None
        return callee.get("name"), obj, x.inner[1:]

    # ------------------------------------------------------------------ dispatch chains
    def dispatch(self, name: str):
        """-> (tag -> handler name, has_throw) or None when the function is not an if/else-if chain on `type.type`"""
        b = self.body(name)
        if b is None:
            return None
        out: Dict[str, str] = {}
        ifs = [s for s in b.inner if s.kind == "IfStmt"]
        tbl = self._table_dispatch(name, b)
        if tbl is not None:
            return tbl
        if not ifs:
            return None
        st = ifs[0]
        while st is not None and st.kind == "IfStmt":
            cond, then = st.inner[0], st.inner[1]
            tag = None
            ops = [y for y in walk(cond) if y.kind in ("CXXOperatorCallExpr", "BinaryOperator")]
            lits = [y.get("value", "").strip('"') for y in walk(cond) if y.kind == "StringLiteral"]
            mem = [y for y in walk(cond) if y.kind == "MemberExpr" and y.get("name") == "type"]
            if ops and len(lits) == 1 and mem:
                tag = lits[0]
            calls = [self.member_call(y) for y in walk(then) if y.kind == "CXXMemberCallExpr"]
            calls = [c for c in calls if c and c[0] in self.methods]
            rets = [y for y in walk(then) if y.kind == "ReturnStmt"]
            if tag is None or len(calls) != 1 or not rets:
                return None
            out[tag] = calls[0][0]
            st = st.inner[2] if len(st.inner) > 2 else None
            if st is not None and st.kind == "CompoundStmt" and len(st.inner) == 1:
                st = st.inner[0]
        has_throw = any(y.kind == "CXXThrowExpr" for y in walk(b))
        return out, has_throw

    def _table_dispatch(self, name: str, b: CNode):
        """`table.find(type.type)` over a map from tag strings to lambdas that each call one handler: -> (tag -> handler, has_throw)"""
        finds = [self.member_call(y) for y in walk(b) if y.kind == "CXXMemberCallExpr"]
        finds = [c for c in finds if c and c[0] in ("find", "at")]
        if not finds or not any(any(z.kind == "MemberExpr" and z.get("name") == "type" for z in walk(a)) for c in finds for a in c[2]):
            return None
        # the table: in this method or in a method it calls (a function-local static, a member initialiser, ...)
        scopes = [b]
        for y in walk(b):
            mc = self.member_call(y) if y.kind == "CXXMemberCallExpr" else None
            if mc and mc[0] in self.methods:
                scopes.append(self.body(mc[0]))
            if y.kind == "CallExpr":
                for z in walk(y.inner[0] if y.inner else y):
                    nm = z.get("referencedDecl", {}).get("name") if z.kind == "DeclRefExpr" else None
                    if nm in self.methods:
                        scopes.append(self.body(nm))
        out: Dict[str, str] = {}
        for sc in scopes:
            if sc is None:
                continue
            for y in walk(sc):
                if y.kind not in ("InitListExpr", "CXXConstructExpr", "CXXTemporaryObjectExpr"):
                    continue
                lits = [z for z in y.inner if any(w.kind == "StringLiteral" for w in walk(z))]
                lams = [z for z in y.inner if any(w.kind == "LambdaExpr" for w in walk(z))]
                if len(y.inner) == 2 and len(lits) >= 1 and len(lams) == 1 and not any(w.kind == "LambdaExpr" for w in walk(y.inner[0])):
                    tag = next(w.get("value", "").strip('"') for w in walk(y.inner[0]) if w.kind == "StringLiteral")
                    lam = next(w for w in walk(y.inner[1]) if w.kind == "LambdaExpr")
                    calls = [self.member_call(w) for w in walk(lam) if w.kind == "CXXMemberCallExpr"]
                    names = {c[0] for c in calls if c and c[0] in self.methods}
                    if len(names) == 1:
                        out.setdefault(tag, names.pop())
        if len(out) < 2:
            return None
        return out, any(y.kind == "CXXThrowExpr" for y in walk(b))

    # ------------------------------------------------------------------ widths
    def width_of(self, x: Optional[CNode], env: Dict[str, str], depth: int = 0) -> str:
        x = strip(x)
        if x is None or depth > 4:
            return "?"
        if x.kind == "IntegerLiteral":
            return str(x.get("value"))
        if x.kind == "DeclRefExpr":
            nm = x.get("referencedDecl", {}).get("name")
            if nm in env:
                return env[nm]
            d = self.decl_of(x)
            if d is not None and d.kind == "VarDecl" and d.inner:
                init = d.inner[-1]
                names = {y.get("referencedDecl", {}).get("name") for y in walk(init) if y.kind == "DeclRefExpr"}
                members = {y.get("name") for y in walk(init) if y.kind == "MemberExpr"}
                if "stoi" in names and "substr" in members and "name" in members:
                    return env.get("@width(type)", "width(type)")
                if names & {"log2", "max_element", "floor", "ceil"} or "enumeration" in members:
                    return "enumwidth"
                if d.inner and strip(init) is not None and strip(init).kind == "ConditionalOperator":
                    return "enumwidth"
                return self.width_of(init, env, depth + 1)
            return nm or "?"
        if x.kind == "MemberExpr":
            base = strip(x.inner[0]) if x.inner else None
            if base is not None and "Enum" in base.qtype:
                return "enumwidth"
            if x.get("name") == "size" and base is not None and "Type" in base.qtype:
                return "size(type)"
            return "%s.%s" % (ref_name(base) or "?", x.get("name"))
        if x.kind in ("BinaryOperator", "ConditionalOperator", "CallExpr"):
            names = {y.get("referencedDecl", {}).get("name") for y in walk(x) if y.kind == "DeclRefExpr"}
            if names & {"log2", "max_element", "floor", "ceil"}:
                return "enumwidth"
        return "?"

    # ------------------------------------------------------------------ effects
    def grammar(self, name: str) -> str:
        return self.fmt(self.effects(name, {}, 0))

    def effects(self, name: str, env: Dict[str, str], depth: int) -> List:
        b = self.body(name)
        if b is None:
            raise Undecided("no body for %s" % name)
        if depth > 3:
            raise Undecided("handler nesting too deep at %s" % name)
        st = {"counts": set(), "flags": set()}
        return self._stmts(b.inner, env, depth, st)

    def _stmts(self, stmts, env, depth, st) -> List:
        out = []
        for s in stmts:
            out += self._stmt(s, env, depth, st)
        return out

    def _expr(self, x: Optional[CNode], env, depth, st) -> List:
        """effects of evaluating an expression (calls, in source order); lambdas are opaque"""
        out = []
        if x is None or not x.kind:
            return out
        if x.kind == "LambdaExpr":
            return out
        mc = self.member_call(x)
        if mc is not None:
            name, obj, args = mc
            if self.is_buffer(obj) and name in ("GetWord", "PushWord", "Insert"):
                for a in args:
                    out += self._expr(a, env, depth, st)
                if name == "GetWord":
                    out.append(("W", self.width_of(args[0] if args else None, env)))
                elif name == "PushWord":
                    out.append(("W", self.width_of(args[1] if len(args) > 1 else None, env)))
                else:
                    out.append(("insert",))
                return out
            objs = strip(obj)
            if objs is not None and objs.kind == "CXXThisExpr" and name in self.methods:
                for a in args:
                    out += self._expr(a, env, depth, st)
                if name in ("_Decode", "_Encode"):
                    out.append(("rec",))
                    return out
                # another handler: inline it; a Type{"u" + std::to_string(X), ...} argument fixes its width
                env2 = {}
                for a in args:
                    sa = strip(a)
                    if sa is not None and "Type" in (sa.qtype or "") and sa.kind in ("CXXTemporaryObjectExpr", "CXXConstructExpr", "InitListExpr", "CXXFunctionalCastExpr"):
                        tostr = [y for y in walk(sa) if y.kind == "CallExpr" and any(z.kind == "DeclRefExpr" and z.get("referencedDecl", {}).get("name") == "to_string" for z in walk(y.inner[0]))]
                        if tostr and len(tostr[0].inner) > 1:
                            env2["@width(type)"] = self.width_of(tostr[0].inner[1], env)
                # forwarded boolean / width parameters
                ps = self.params(name)
                for p, a in zip(ps, args):
                    sa = strip(a)
                    if sa is not None and sa.kind == "CXXBoolLiteralExpr":
                        env2["=" + p.get("name", "")] = "true" if sa.get("value") else "false"
                out += self.effects(name, env2, depth + 1)
                return out
        for c in x.inner:
            out += self._expr(c, env, depth, st)
        return out

    def _is_count_var(self, x: Optional[CNode], st) -> bool:
        nm = ref_name(x)
        return nm is not None and nm in st["counts"]

    def _stmt(self, s: CNode, env, depth, st) -> List:
        k = s.kind
        if not k:
            return []
        if k == "CompoundStmt":
            return self._stmts(s.inner, env, depth, st)
        if k == "DeclStmt":
            out = []
            for vd in s.inner:
                if vd.kind == "VarDecl" and vd.inner:
                    init = vd.inner[-1]
                    effs = self._expr(init, env, depth, st)
                    out += effs
                    si = strip(init)
                    mc = self.member_call(si) if si is not None else None
                    if mc and mc[0] == "GetWord" and self.is_buffer(mc[1]):
                        st["counts"].add(vd.get("name"))
                        st["flags"].add(vd.get("name"))
            return out
        if k == "ForStmt":
            parts = s.inner
            cond = parts[2] if len(parts) > 2 else None
            body = parts[-1]
            cnt = "?"
            c = strip(cond)
            if c is not None and c.kind == "BinaryOperator" and c.get("opcode") in ("<", "!="):
                rhs = strip(c.inner[1])
                if rhs is not None and rhs.kind == "MemberExpr" and rhs.get("name") == "size" and rhs.inner and "Type" in strip(rhs.inner[0]).qtype:
                    cnt = "size(type)"
                elif self._is_count_var(rhs, st):
                    cnt = "count"
                elif rhs is not None and rhs.kind == "CXXMemberCallExpr" and (self.member_call(rhs) or ("",))[0] == "size":
                    cnt = "count"
            return [("loop", cnt, self._stmt(body, env, depth, st))]
        if k == "CXXForRangeStmt":
            body = s.inner[-1]
            rng = next((d for d in s.inner if d.kind == "DeclStmt" and any(v.kind == "VarDecl" and v.get("name", "").startswith("__range") for v in d.inner)), None)
            cnt = "?"
            if rng is not None:
                mems = [y.get("name") for y in walk(rng) if y.kind == "MemberExpr"]
                refs = [y for y in walk(rng) if y.kind == "DeclRefExpr"]
                if "fields" in mems:
                    cnt = "fields"
                elif any("json" in r.qtype or "string" in r.qtype or "vector" in r.qtype for r in refs):
                    cnt = "count"
            return [("loop", cnt, self._stmt(body, env, depth, st))]
        if k == "IfStmt":
            cond, then = s.inner[0], s.inner[1]
            els = s.inner[2] if len(s.inner) > 2 else None
            cmems = [y.get("name") for y in walk(cond) if y.kind == "MemberExpr"]
            # error propagation / lookup guards are not part of the wire grammar
            if "has_value" in cmems or ("find" in cmems and "end" in cmems):
                return self._expr(cond, env, depth, st)
            pre = self._expr(cond, env, depth, st)
            crefs = [ref_name(y) for y in walk(cond) if y.kind == "DeclRefExpr"]
            if any(r in st["flags"] for r in crefs) or any(e[0] == "W" for e in pre):
                label = "present"
            elif "empty" in cmems or "is_null" in cmems:
                neg = any(y.kind == "UnaryOperator" and y.get("opcode") == "!" for y in walk(cond))
                label = "present" if neg else "absent"
            else:
                label = "?"
            out = pre + [("if", label, self._stmt(then, env, depth, st))]
            if els is not None and els.kind:
                e2 = self._stmt(els, env, depth, st)
                if e2:
                    out.append(("else", e2))
            return out
        if k == "ReturnStmt":
            return self._expr(s.inner[0], env, depth, st) if s.inner else []
        # expression statements and anything else: collect calls
        return self._expr(s, env, depth, st)

    def fmt(self, es: List) -> str:
        s = []
        for e in es:
            if e[0] == "W":
                s.append("W(%s)" % e[1])
            elif e[0] == "loop":
                s.append("Loop(%s){%s}" % (e[1], self.fmt(e[2])))
            elif e[0] == "if":
                inner = self.fmt(e[2])
                s.append("If(%s){%s}" % (e[1], inner))
            elif e[0] == "else":
                inner = self.fmt(e[1])
                if inner:
                    s.append("Else{%s}" % inner)
            elif e[0] == "rec":
                s.append("Rec")
            elif e[0] == "insert":
                s.append("Insert")
        # an empty guard contributes nothing
        return " ".join(x for x in s if x and not re.fullmatch(r"If\([^)]*\)\{\}", x))

    # ------------------------------------------------------------------ sign request of a decode handler
    def sign_requested(self, name: str, env: Optional[Dict[str, str]] = None, depth: int = 0) -> Optional[bool]:
        """does the handler read its word with sign extension? True / False / None (not decided)"""
        b = self.body(name)
        if b is None or depth > 3:
            return None
        env = env or {}
        for y in walk(b):
            mc = self.member_call(y)
            if mc and mc[0] == "GetWord" and self.is_buffer(mc[1]):
                a = strip(mc[2][1]) if len(mc[2]) > 1 else None
                if a is None or a.kind == "CXXDefaultArgExpr":
                    return False
                if a.kind == "CXXBoolLiteralExpr":
                    return bool(a.get("value"))
                nm = ref_name(a)
                if nm and ("=" + nm) in env:
                    return env["=" + nm] == "true"
                return None
            if mc and mc[0] in self.methods and strip(mc[1]) is not None and strip(mc[1]).kind == "CXXThisExpr" and mc[0] not in ("_Decode", "_Encode"):
                env2 = {}
                for p, a in zip(self.params(mc[0]), mc[2]):
                    sa = strip(a)
                    if sa is not None and sa.kind == "CXXBoolLiteralExpr":
                        env2["=" + p.get("name", "")] = "true" if sa.get("value") else "false"
                return self.sign_requested(mc[0], env2, depth + 1)
        return None

    # ------------------------------------------------------------------ JSON value category
    def json_category(self, name: str, depth: int = 0) -> Tuple[Optional[str], str]:
        """-> (category, text).  category: signed | unsigned | float | array | array-or-null | None"""
        b = self.body(name)
        if b is None or depth > 3:
            return None, "?"
        rets = [y for y in walk(b) if y.kind == "ReturnStmt" and y.inner and not any(z.kind == "DeclRefExpr" and z.get("referencedDecl", {}).get("name") == "nullopt" for z in walk(y))]
        rets = [r for r in rets if not self._in_lambda(b, r)]
        if not rets:
            return None, "?"
        e = rets[-1].inner[0]
        cur = e
        # peel the conversions to json / optional<json>
        while cur is not None and cur.inner and cur.kind in ("ExprWithCleanups", "CXXConstructExpr", "MaterializeTemporaryExpr", "CXXBindTemporaryExpr", "ImplicitCastExpr", "CXXFunctionalCastExpr", "ParenExpr") and ("json" in cur.qtype or "optional" in cur.qtype):
            cur = cur.inner[0] if cur.kind == "CXXConstructExpr" else cur.inner[-1]
        if cur is None:
            return None, "?"
        while cur.kind == "ImplicitCastExpr" and cur.get("castKind") in ("LValueToRValue", "NoOp") and cur.inner:
            cur = cur.inner[0]
        t = (cur.desugared or cur.qtype).replace("const ", "").strip()
        mc = self.member_call(cur)
        if mc and mc[0] in self.methods and strip(mc[1]) is not None and strip(mc[1]).kind == "CXXThisExpr":
            return self.json_category(mc[0], depth + 1)
        if "vector" in t:
            return "array", t[:40]
        if "json" in t:
            ref = next((y for y in walk(cur) if y.kind == "DeclRefExpr"), None)
            d = self.decl_of(ref) if ref is not None else None
            if d is not None:
                inits = [y for y in walk(d) if y.kind == "DeclRefExpr" and y.get("referencedDecl", {}).get("name") in ("array", "object")]
                pushes = [y for y in walk(b) if y.kind == "CXXMemberCallExpr" and (self.member_call(y) or ("",))[0] == "push_back" and ref_name((self.member_call(y) or (None, None))[1]) == d.get("name")]
                if inits:
                    return "array", "json::array()"
                if pushes:
                    return "array-or-null", "json %s{} + push_back" % d.get("name")
            return "json", t[:40]
        if t in ("float", "double"):
            return "float", t
        w = int_width(t)
        if w is not None:
            return ("unsigned" if t.startswith(("uint", "unsigned", "std::uint")) or t in ("bool", "_Bool") else "signed"), t
        return None, t[:40]

    def _in_lambda(self, root: CNode, node: CNode) -> bool:
        for y in walk(root):
            if y.kind == "LambdaExpr" and any(z is node for z in walk(y)):
                return True
        return False
