"""A derived value cached on a schema node at construction goes stale when other code later changes the list it was
derived from.  -> [(class, cached attr, caching stmt, source attr, mutating function, mutating stmt)]"""

from __future__ import annotations

import ast
from typing import List, Tuple

from ..front_py import walk_local, norm, dotted
from ..dataflow import stores_in


def stale_derived_attrs(eng, class_prefix: str = "fcp.specs") -> List[Tuple]:
    prog = eng.prog
    out = []
    for ci in prog.classes.values():
        if not ci.qual.startswith(class_prefix):
            continue
        init = ci.methods.get("__init__") or ci.methods.get("__post_init__")
        if init is None:
            continue
        selfn = init.params[0].arg if init.params else "self"
        params = {p.arg for p in init.params[1:]}
        alias = {}  # param -> attribute that holds the same object
        for n in walk_local(init.node):
            if isinstance(n, ast.Assign) and len(n.targets) == 1 and isinstance(n.targets[0], ast.Attribute) and isinstance(n.targets[0].value, ast.Name) and n.targets[0].value.id == selfn \
                    and isinstance(n.value, ast.Name) and n.value.id in params:
                alias[n.value.id] = n.targets[0].attr
        # dataclass-style classes: fields are attributes of the same name
        for a in ci.field_order:
            alias.setdefault(a, a)
        derived = []
        for n in walk_local(init.node):
            if not (isinstance(n, ast.Assign) and len(n.targets) == 1 and isinstance(n.targets[0], ast.Attribute) and isinstance(n.targets[0].value, ast.Name) and n.targets[0].value.id == selfn):
                continue
            v = n.value
            if isinstance(v, (ast.Name, ast.Constant)):
                continue
            srcs = set()
            for x in ast.walk(v):
                if isinstance(x, ast.Name) and x.id in alias and x.id in params:
                    srcs.add(alias[x.id])
                elif isinstance(x, ast.Attribute) and isinstance(x.value, ast.Name) and x.value.id == selfn and x.attr in alias.values():
                    srcs.add(x.attr)
            # only reductions over a collection (max/min/len/sum/sorted/any/all/comprehension) - not wrappers that keep the object
            reduces = any(isinstance(x, ast.Call) and dotted(x.func) in ("max", "min", "len", "sum", "sorted", "any", "all", "set", "frozenset", "tuple", "dict") for x in ast.walk(v)) or any(isinstance(x, (ast.ListComp, ast.SetComp, ast.DictComp, ast.GeneratorExp)) for x in ast.walk(v))
            if srcs and reduces:
                derived.append((n.targets[0].attr, n, srcs))
        if not derived:
            continue
        # is the cached attribute read anywhere?  and is a source attribute changed outside the constructor?
        for cattr, stmt, srcs in derived:
            for f in prog.functions.values():
                if f is init:
                    continue
                ft = None
                for kind, tgt, st in stores_in(f.node):
                    if kind not in ("mutcall", "aug", "sub-store", "del"):
                        continue
                    obj = tgt.value if kind in ("sub-store", "del") and isinstance(tgt, ast.Subscript) else tgt
                    if not (isinstance(obj, ast.Attribute) and obj.attr in srcs):
                        continue
                    # receiver must be (or may be) an instance of the class
                    ft = ft or eng.T.fn(f)
                    rt = ft.of(obj.value)
                    from ..types_lite import members
                    insts = [u for u in members(rt) if u[0] == "inst"] if rt is not None else []
                    if insts and not any(prog.is_subclass(u[1], ci.qual) or u[1] == ci.qual for u in insts):
                        continue
                    if not insts:
                        # unresolved receiver: accept only when the attribute name is unique to this class among spec classes
                        owners = [c for c in prog.classes.values() if c.qual.startswith(class_prefix) and (obj.attr in c.field_order or obj.attr in alias.values() and c is ci)]
                        if len(owners) != 1:
                            continue
                    out.append((ci, cattr, stmt, obj.attr, f, st))
    return out
