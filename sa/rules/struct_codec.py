"""Typed reading of the generated struct codec (fcp.h.j2) on a permuted model struct.

The struct template is instantiated abstractly (sa/jinja_abstract.py, never rendered) over a model struct whose three
fields are DECLARED in the order fb (id 1), fa (id 0), fc (id 2) and have three different wrapper types, so that
declaration order, id order and positional order are all distinguishable.  The instance is parsed by clang together with
the real buffer.h / decoders.h, and the rules below read the typed AST of the struct class:

  order   the buffer is touched in ascending field id in every function that takes a Buffer& (Encode: member calls;
          Decode: the static Decode calls; a constructor that decodes in its member-initialiser list: members in the
          order they are DECLARED, which is the order C++ runs initialisers in)
  dest    the value decoded with field X's wrapper type ends up in member X_ (through the constructor's parameters and
          initialiser list, or directly)
  own     X_.Encode is called on the member itself; FromJson / DecodeJson use the field's own key and type

Evaluation-order facts used: statements run in order; arguments of a parenthesised call are unsequenced (reported),
elements of a braced initialiser run left to right.
"""

from __future__ import annotations

from typing import Dict, List, Optional, Tuple

from ..front_py import AnalysisError
from ..front_clang import cxx_ast, walk, CNode
from ..front_jinja import JinjaBinding
from ..jinja_abstract import instantiate, Model
from .cpp_codec import HDR_INCLUDES

MODEL_FIELDS = [
    {"name": "fb", "field_id": 1, "cpp": "Unsigned<std::uint8_t, 5>"},
    {"name": "fa", "field_id": 0, "cpp": "Unsigned<std::uint8_t, 3>"},
    {"name": "fc", "field_id": 2, "cpp": "Signed<std::int16_t, 12>"},
]
WIRE = [f["name"] for f in sorted(MODEL_FIELDS, key=lambda f: f["field_id"])]


def dtype(n) -> str:
    """desugared type of an AST node, whitespace-free: aliases and the template a wrapper name stands for do not matter"""
    t = n.get("type", {}) if n is not None else {}
    return (t.get("desugaredQualType") or t.get("qualType") or "").replace(" ", "").replace("fcp::", "")


def tnorm(t: str) -> str:
    """wrapper type up to spelling of the carrier: Unsigned<unsigned char, 5> == Unsigned<std::uint8_t, 5> -> 'Unsigned:5'"""
    import re
    m = re.search(r"(\w+)\s*<.*?,\s*(\d+)\s*>", t or "")
    return "%s:%s" % (m.group(1), m.group(2)) if m else (t or "").replace("fcp::", "").replace(" ", "")


TYPE_OF = {f["name"]: tnorm(f["cpp"]) for f in MODEL_FIELDS}


class Undecided(Exception):
    pass


def _strip(x: Optional[CNode]) -> Optional[CNode]:
    while x is not None and x.kind in ("ImplicitCastExpr", "ParenExpr", "ExprWithCleanups", "MaterializeTemporaryExpr", "CXXBindTemporaryExpr", "CXXFunctionalCastExpr", "ConstantExpr") and x.inner:
        x = x.inner[-1] if x.kind == "CXXFunctionalCastExpr" else x.inner[0]
    return x


class StructInstance:
    def __init__(self, eng):
        jb = JinjaBinding(eng)
        path = next((rs.path for rs in jb.sites if rs.path and rs.path.endswith("fcp.h.j2")), None)
        if path is None:
            raise Undecided("render site of fcp.h.j2 not found")
        self.relpath = path
        t = jb.template(path)
        model = Model({"struct.fields": MODEL_FIELDS}, calls={"to_wrapper_cpp_type": "cpp"},
                      values={"to_highest_power_of_two(enum.get_packed_size())": "8", "enum.get_packed_size()": "3", "enumeration.value": "1"})
        def hook(node):
            # `for f in G(struct)`: G a Python template global returning the struct's fields in an order the checker can read
            from .C15 import global_fields_order
            r = global_fields_order(eng, jb, node)
            if r is None or r[0] != "struct":
                return None
            if r[1] == "sorted":
                return sorted(MODEL_FIELDS, key=lambda f_: f_["field_id"])
            if r[1] == "declared":
                return list(MODEL_FIELDS)
            return None
        model.iter_hook = hook
        self.text = instantiate(t, policy={"namespace is not none": False, "impl._is_method_input": False}, model=model)
        hdir = eng.path("plugins", "fcp_cpp", "fcp_cpp")
        import re as _re
        pre = ""
        for _ in range(6):
            decls = cxx_ast(HDR_INCLUDES + pre + '#include "fcp_model.h"\n', [hdir], filt="fcp::J_", allow_errors=True, extra_files={"fcp_model.h": self.text})
            self.errors = [e for e in getattr(cxx_ast, "last_errors", []) if "fcp_model.h" in e]
            # template variables the model gives no value to, used as plain values: declare them as opaque constants
            und = sorted({m_.group(1) for e in self.errors for m_ in [_re.search(r"use of undeclared identifier '(J_\w+)'", e)] if m_})
            if not und:
                break
            pre += "".join("enum { %s = 1 };\n" % u for u in und)
        self.opaque = pre
        cls = [d for d in decls if d.kind == "CXXRecordDecl" and d.inner and any(c.kind == "FieldDecl" and c.get("name") in ("fa_", "fb_", "fc_") for c in d.inner)]
        if not cls:
            raise Undecided("struct class not found in the model instance (%s)" % (self.errors[:1] or "no clang error"))
        self.cls = cls[0]
        self.fields = [c.get("name") for c in self.cls.inner if c.kind == "FieldDecl"]
        # the wrapper type of each model field as the instance itself declares it (`using FaType = ...`), desugared
        self.type_of = {}
        for c in self.cls.inner:
            if c.kind == "FieldDecl" and c.get("name", "").endswith("_"):
                self.type_of[c["name"][:-1]] = dtype(c)
        self.by_id: Dict[str, CNode] = {}
        for n in walk(self.cls):
            if "id" in n:
                self.by_id.setdefault(n["id"], n)
        self.methods: Dict[str, List[CNode]] = {}
        for m in self.cls.inner:
            if m.kind in ("CXXMethodDecl", "CXXConstructorDecl") and any(c.kind == "CompoundStmt" for c in m.inner) and not m.get("isImplicit"):
                self.methods.setdefault(m.get("name") if m.kind == "CXXMethodDecl" else "<ctor>", []).append(m)

    # ---------------------------------------------------------------------------------------------
    @staticmethod
    def params(m: CNode) -> List[CNode]:
        return [c for c in m.inner if c.kind == "ParmVarDecl"]

    @staticmethod
    def body(m: CNode) -> CNode:
        return [c for c in m.inner if c.kind == "CompoundStmt"][0]

    def buffer_param(self, m: CNode) -> Optional[str]:
        for p in self.params(m):
            if "Buffer" in p.qtype and "&" in p.qtype:
                return p.get("name")
        return None

    @staticmethod
    def uses(x: CNode, name: str) -> bool:
        return any(y.kind == "DeclRefExpr" and y.get("referencedDecl", {}).get("name") == name for y in walk(x))

    def member_of(self, x: Optional[CNode]) -> Optional[str]:
        """the data member an expression denotes (this->fa_), looking through casts"""
        x = _strip(x)
        if x is not None and x.kind == "MemberExpr" and x.get("name") in self.fields and x.inner and _strip(x.inner[0]) is not None and _strip(x.inner[0]).kind == "CXXThisExpr":
            return x.get("name")
        return None

    def buffer_calls(self, m: CNode) -> List[Tuple[str, CNode, Optional[str]]]:
        """calls that receive the method's Buffer&, in source (= execution, for statements) order:
        ('member', call, member name) for X_.f(buffer), ('static', call, wrapper type) for T::f(buffer)"""
        buf = self.buffer_param(m)
        out = []
        if buf is None:
            return out
        for c in walk(self.body(m)):
            if c.kind == "CXXMemberCallExpr" and any(self.uses(a, buf) for a in c.inner[1:]):
                callee = _strip(c.inner[0])
                obj = callee.inner[0] if callee is not None and callee.kind == "MemberExpr" and callee.inner else None
                out.append(("member", c, self.member_of(obj)))
            elif c.kind == "CallExpr" and any(self.uses(a, buf) for a in c.inner[1:]):
                out.append(("static", c, dtype(c)))
        return out

    def unsequenced(self, m: CNode) -> List[CNode]:
        """parenthesised calls / constructions with two or more arguments that each touch the buffer"""
        buf = self.buffer_param(m)
        bad = []
        for c in walk(self.body(m)):
            if c.kind in ("CallExpr", "CXXMemberCallExpr", "CXXConstructExpr", "CXXTemporaryObjectExpr") and not c.get("list"):
                args = c.inner[1:] if c.kind in ("CallExpr", "CXXMemberCallExpr") else c.inner
                touching = [a for a in args if buf and self.uses(a, buf) and any(y.kind in ("CallExpr", "CXXMemberCallExpr") for y in walk(a))]
                if len(touching) >= 2:
                    bad.append(c)
        return bad

    def ctor_map(self, ctor: CNode) -> Dict[int, str]:
        """parameter position -> member initialised from that parameter"""
        ps = [p.get("name") for p in self.params(ctor)]
        out = {}
        for ini in ctor.inner:
            if ini.kind != "CXXCtorInitializer":
                continue
            mem = ini.get("anyInit", {}).get("name")
            for y in walk(ini):
                if y.kind == "DeclRefExpr" and y.get("referencedDecl", {}).get("name") in ps:
                    out[ps.index(y["referencedDecl"]["name"])] = mem
        return out

    def value_ctor(self) -> Optional[CNode]:
        for c in self.methods.get("<ctor>", []):
            if len(self.params(c)) == len(self.fields) and not any("Buffer" in p.qtype for p in self.params(c)):
                return c
        return None


def run_struct_rules(eng, rep, rule_order: Optional[str], rule_dest: Optional[str], rule_compile: Optional[str] = None) -> None:
    try:
        si = StructInstance(eng)
    except (Undecided, AnalysisError) as e:
        for r in (rule_order, rule_dest):
            if r:
                rep.undecided(r, "plugins/fcp_cpp/fcp_cpp/fcp.h.j2", "struct block", "typed model instance", str(e)[:160])
        return
    F = si.relpath
    if si.errors:
        # an error that names a placeholder of the abstract instantiation is an artefact of the instantiation; any other error
        # is what a C++ compiler says about the header generated for the model struct, which is a valid schema
        import re as _re
        lines = si.text.splitlines()
        sname = next((m_.group(1) for m_ in [_re.search(r"struct (J_\w+) \{", si.text)] if m_), "J_?")

        def on_placeholder_line(e):
            m_ = _re.search(r"fcp_model\.h:(\d+):", e)
            ln = lines[int(m_.group(1)) - 1] if m_ and 0 < int(m_.group(1)) <= len(lines) else ""
            return "J_" in ln.replace(sname, "STRUCT")
        artefact = [e for e in si.errors if "'J_" in e.split("error:")[-1].replace(sname, "STRUCT") or on_placeholder_line(e)]
        for r in (rule_order, rule_dest):
            if r:
                rep.undecided(r, F, "struct block", "typed model instance", "the model instance does not type-check: %s" % si.errors[0][-140:])
        if rule_compile:
            if artefact:
                rep.undecided(rule_compile, F, "struct block", "typed model instance", "errors that involve placeholders of the instantiation: %s" % artefact[0][-140:])
            else:
                rep.violation(rule_compile, F, "struct block [model instance]", "struct with fields declared as fb@1, fa@0, fc@2 of three different types",
                              "the header generated for this (valid) struct does not compile: %s  -- typically a value decoded or parsed for one field is passed where another field's type is expected, because two lists of the template iterate the fields in different orders" % si.errors[0].split("error:")[-1].strip()[:200])
        return
    if rule_compile:
        rep.ok(rule_compile, F, "struct block [model instance]", "struct with fields declared as fb@1, fa@0, fc@2 of three different types", "the model instance type-checks (clang, C++17) against buffer.h / decoders.h")
    want = [w + "_" for w in WIRE]
    vc = si.value_ctor()
    cmap = si.ctor_map(vc) if vc is not None else {}
    # ---- Encode ----------------------------------------------------------------------------------
    encs = [m for m in si.methods.get("Encode", []) if si.buffer_param(m)]
    decs = [m for m in si.methods.get("Decode", []) if si.buffer_param(m)]
    if rule_order:
        if not encs or not decs:
            rep.undecided(rule_order, F, "struct block", "Encode(Buffer&) / Decode(Buffer&)", "not found in the model instance")
        for m in encs:
            calls = si.buffer_calls(m)
            seq = [c[2] for c in calls if c[0] == "member"]
            site = "Encode(Buffer&): members written in the order %s (declared %s, ids fa=0 fb=1 fc=2)" % (seq, si.fields)
            if None in seq or len(seq) != len(want) or any(c[0] != "member" for c in calls):
                rep.undecided(rule_order, F, "struct block [model instance]", site, "not every buffer write is a call on a data member")
            else:
                rep.check(seq == want, rule_order, F, "struct block [model instance]", site, "ascending field id",
                          "the generated Encode writes the members in the order %s; ascending field id is %s" % (seq, want))
            for u in si.unsequenced(m):
                rep.violation(rule_order, F, "struct block [model instance]", "Encode(Buffer&): one call with several arguments that write the buffer", "the order in which the arguments of a parenthesised call are evaluated is unspecified in C++: the wire order depends on the compiler")
        for m in decs:
            calls = si.buffer_calls(m)
            tys = [c[2] for c in calls if c[0] == "static"]
            by_type = {v: k for k, v in si.type_of.items()}
            seq = [by_type.get(t_) for t_ in tys]
            site = "Decode(Buffer&): wrapper types read in the order %s" % [s_ or "?" for s_ in seq]
            if None in seq or len(seq) != len(WIRE):
                rep.undecided(rule_order, F, "struct block [model instance]", site, "not every buffer read is a static Decode of a field's wrapper type")
            else:
                rep.check(seq == WIRE, rule_order, F, "struct block [model instance]", site, "ascending field id",
                          "the generated Decode reads the fields in the order %s; ascending field id is %s" % (seq, WIRE))
            for u in si.unsequenced(m):
                rep.violation(rule_order, F, "struct block [model instance]", "Decode(Buffer&): one call with several arguments that read the buffer", "the order in which the arguments of a parenthesised call are evaluated is unspecified in C++: the wire order depends on the compiler")
        # constructors that decode in their initialiser list
        for c in si.methods.get("<ctor>", []):
            buf = si.buffer_param(c)
            if not buf:
                continue
            inits = [(ini.get("anyInit", {}).get("name"), ini) for ini in c.inner if ini.kind == "CXXCtorInitializer" and si.uses(ini, buf)]
            if not inits:
                continue
            touched = {n for n, _ in inits}
            run = [f for f in si.fields if f in touched]
            rep.check(run == want, rule_order, F, "struct block [model instance]", "decoding constructor: member initialisers run in declaration order %s" % run, "ascending field id",
                      "a constructor decodes the members in its initialiser list; C++ runs initialisers in the order the members are declared (%s), not in the order written, so the buffer is read in that order instead of ascending field id %s" % (run, want))
    # ---- destination of each decoded value ---------------------------------------------------------
    if rule_dest:
        for m in decs:
            b = si.body(m)
            var_type = {}
            for st in walk(b):
                if st.kind == "VarDecl" and st.inner:
                    call = next((y for y in walk(st) if y.kind == "CallExpr"), None)
                    if call is not None and si.buffer_param(m) and si.uses(call, si.buffer_param(m)):
                        var_type[st.get("name")] = dtype(call)
            ret = next((y for y in walk(b) if y.kind == "ReturnStmt"), None)
            cons = next((y for y in walk(ret) if y.kind in ("CXXConstructExpr", "CXXTemporaryObjectExpr") and len(y.inner) == len(si.fields)), None) if ret is not None else None
            if cons is None or not cmap:
                if not any(si.buffer_param(c) for c in si.methods.get("<ctor>", [])):
                    rep.undecided(rule_dest, F, "struct block [model instance]", "return Struct(...)", "construction of the result not in the recognised form")
                continue
            ok, detail = True, []
            for i, a in enumerate(cons.inner):
                nm = next((y.get("referencedDecl", {}).get("name") for y in walk(a) if y.kind == "DeclRefExpr" and y.get("referencedDecl", {}).get("name") in var_type), None)
                mem = cmap.get(i)
                if nm is None or mem is None:
                    ok = None
                    break
                detail.append("%s -> %s" % (nm, mem))
                if si.type_of.get(mem[:-1]) != var_type[nm] or nm != mem[:-1]:
                    ok = False
            site = "Decode: %s" % ", ".join(detail)
            if ok is None:
                rep.undecided(rule_dest, F, "struct block [model instance]", site, "an argument of the result's construction is not one of the decoded values")
            else:
                rep.check(ok, rule_dest, F, "struct block [model instance]", site, "each decoded value initialises the member of its own field",
                          "a value decoded for one field is stored in another field's member (%s): constructor parameters and Decode's arguments are in different orders" % ", ".join(detail))
        # FromJson: braced construction, key and type of each element
        for m in si.methods.get("FromJson", []):
            cons = next((y for y in walk(si.body(m)) if y.kind in ("CXXConstructExpr", "CXXTemporaryObjectExpr", "InitListExpr") and len(y.inner) == len(si.fields)), None)
            if cons is None or not cmap:
                rep.undecided(rule_dest, F, "struct block [model instance]", "FromJson", "construction not in the recognised form")
                continue
            ok, detail = True, []
            for i, a in enumerate(cons.inner):
                key = next((y.get("value", "").strip('"') for y in walk(a) if y.kind == "StringLiteral"), None)
                ty = next((dtype(y) for y in walk(a) if y.kind == "CallExpr"), None)
                mem = cmap.get(i)
                detail.append('j["%s"] as %s -> %s' % (key, ty, mem))
                if mem is None or key != mem[:-1] or si.type_of.get(mem[:-1]) != ty:
                    ok = False
            rep.check(ok, rule_dest, F, "struct block [model instance]", "FromJson: %s" % "; ".join(detail), "each member is built from its own key with its own wrapper type",
                      "FromJson builds a member from another field's key or type (%s)" % "; ".join(detail))
        for m in si.methods.get("DecodeJson", []):
            pairs = []
            for y in walk(si.body(m)):
                if y.kind == "CXXOperatorCallExpr" and any(z.kind == "StringLiteral" for z in walk(y)) and any(si.member_of(z) for z in walk(y) if z.kind == "MemberExpr"):
                    key = next(z.get("value", "").strip('"') for z in walk(y) if z.kind == "StringLiteral")
                    mem = next(si.member_of(z) for z in walk(y) if z.kind == "MemberExpr" and si.member_of(z))
                    if not any(p[0] == key for p in pairs):
                        pairs.append((key, mem))
            if len(pairs) == len(si.fields):
                bad = [p for p in pairs if p[0] + "_" != p[1]]
                rep.check(not bad, rule_dest, F, "struct block [model instance]", "DecodeJson: %s" % ", ".join('j["%s"] = %s' % p for p in pairs), "each key holds its own member", "DecodeJson stores a member under another field's key: %s" % bad)
            else:
                rep.undecided(rule_dest, F, "struct block [model instance]", "DecodeJson", "assignments not in the recognised form (%d of %d)" % (len(pairs), len(si.fields)))
