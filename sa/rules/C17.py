"""C17 - generated artefacts are a deterministic function of the schema.

R17.1 nondeterminism sources (set order, hash/id, clock/uid/host, directory listing, random/uuid/env)
      reachable from the plug-ins' generate(): their values reach artefacts only as stamp variables on
      comment lines; set order reaches at most the order of the returned record list
R17.2 shared state: anything that outlives a call and is written is not read on the way to artefacts
R17.3 input purity: nothing reachable from generate() mutates an object reachable from its `fcp` argument
"""

from __future__ import annotations

import ast
from typing import Dict, List, Optional, Set, Tuple

from ..front_py import AnalysisError, FuncInfo, walk_local, norm, dotted
from ..dataflow import Defs, Provenance, stores_in, parent_map
from ..front_jinja import JinjaBinding
from ..types_lite import members

CLOCKISH = ("datetime.", "time.", "os.getuid", "os.getpid", "os.getlogin", "pwd.", "socket.gethostname", "socket.getfqdn", "getpass.", "uuid.", "random.", "secrets.", "platform.", "os.environ", "os.getenv", "os.urandom", "tempfile.")
LISTING = ("os.listdir", "os.scandir", "os.walk", "glob.glob", "glob.iglob")
SPEC_PREFIX = "fcp.specs."


def generates(eng) -> List[FuncInfo]:
    prog = eng.prog
    base = prog.cls("fcp.codegen.CodeGenerator")
    return [g for g in prog.all_overrides(base, "generate") if g.cls.qual != base.qual]


def pure_of_scalars(f) -> bool:
    """every parameter is annotated str/int/float/bool, and the body reads only its parameters, locals, constants, builtins and
    string/re methods: the memo key (the arguments) determines the result"""
    ps = [a for a in f.node.args.posonlyargs + f.node.args.args + f.node.args.kwonlyargs]
    if not ps or f.node.args.vararg or f.node.args.kwarg or f.cls is not None:
        return False
    for a in ps:
        if a.annotation is None or ast.unparse(a.annotation) not in ("str", "int", "float", "bool"):
            return False
    bound = {a.arg for a in ps} | {n.id for n in walk_local(f.node) if isinstance(n, ast.Name) and isinstance(n.ctx, ast.Store)}
    for c in ast.walk(f.node):
        if isinstance(c, (ast.comprehension,)):
            for n in ast.walk(c.target):
                if isinstance(n, ast.Name):
                    bound.add(n.id)
        if isinstance(c, ast.Lambda):
            bound |= {a.arg for a in c.args.args}
    SAFE = {"str", "int", "float", "bool", "len", "range", "enumerate", "zip", "sorted", "reversed", "min", "max", "sum", "abs", "ord", "chr", "list", "tuple", "any", "all", "isinstance", "re", "map", "filter", "repr", "format", "divmod", "round"}
    body_nodes = [n for st in f.node.body for n in ast.walk(st)]
    for n in body_nodes:
        if isinstance(n, ast.Name) and isinstance(n.ctx, ast.Load) and n.id not in bound and n.id not in SAFE:
            return False
    for n in body_nodes:
        if isinstance(n, (ast.Global, ast.Nonlocal, ast.Yield, ast.YieldFrom, ast.Await)):
            return False
        if isinstance(n, ast.Call) and isinstance(n.func, ast.Name) and n.func.id in ("open", "input", "print", "eval", "exec", "getattr", "globals", "locals", "vars", "id", "hash"):
            return False
    return True


_PURE_BUILTINS = {"str", "int", "float", "bool", "len", "min", "max", "abs", "ord", "chr", "tuple", "repr", "round", "divmod", "sum", "sorted"}


def complete_key_memo(eng, f, tgt: ast.Subscript, st: ast.AST) -> bool:
    """`M[key] = value` where every input of `value` is part of `key`: value reads only atoms (parameter / attribute chains) that the
    key contains, module-level tables that nothing writes, constants, and calls of builtins or pure helpers of scalars.  Such a memo
    returns what would be computed anyway: what an earlier generation stored cannot change a later result."""
    from ..dataflow import deep_resolve
    if not isinstance(st, ast.Assign):
        return False
    prog = eng.prog
    m = f.module
    key = deep_resolve(f.node, tgt.slice)
    val = deep_resolve(f.node, st.value)

    def atoms(e):
        out, calls_ok = set(), True
        skip = set()
        for n in ast.walk(e):
            if id(n) in skip:
                continue
            if isinstance(n, ast.Call):
                fn = n.func
                nm = dotted(fn) or ""
                if isinstance(fn, ast.Name) and fn.id in _PURE_BUILTINS:
                    skip.add(id(fn))
                elif isinstance(fn, ast.Name) and (prog.lookup_module_symbol(m, fn.id) or ("",))[0] == "func" and pure_of_scalars(prog.functions[prog.lookup_module_symbol(m, fn.id)[1]]):
                    skip.add(id(fn))
                else:
                    calls_ok = False
            elif isinstance(n, ast.Attribute):
                d = dotted(n)
                if d:
                    out.add(d)
                    for c in ast.walk(n.value):
                        skip.add(id(c))
            elif isinstance(n, ast.Name) and isinstance(n.ctx, ast.Load):
                out.add(n.id)
        return out, calls_ok

    ka, _ = atoms(key)
    va, ok = atoms(val)
    if not ok:
        return False
    written = set()
    for g in prog.functions.values():
        if g.module is not m:
            continue
        for kind, t2, st2 in stores_in(g.node):
            r = t2
            while isinstance(r, (ast.Attribute, ast.Subscript)):
                r = r.value
            if isinstance(r, ast.Name) and not isinstance(t2, ast.Name):
                written.add(r.id)
    for a in va:
        if a in ka:
            continue
        root = a.split(".")[0]
        if root == a and root in m.assigns and root not in written and root not in f.local_names():
            continue  # a module-level table that nothing writes
        return False
    return True


def run(eng, rep) -> None:
    prog, cg, T = eng.prog, eng.cg, eng.T
    rep.explanation = (
        "Inventory and flow analysis over everything reachable (resolved call graph plus functions installed as Jinja globals/filters) "
        "from the four plug-ins' generate(): every source of run-to-run variation is located and its uses classified; every object that "
        "outlives a call (mutable default arguments, module-level objects, class-level mutables) is checked for writes and for reads on "
        "generate paths; every store on the path is checked not to target an object reachable from the caller's schema unless that object "
        "is a fresh copy / freshly constructed (parameter freshness is propagated over all call sites)."
    )
    rep.rule("R17.1", "nondeterminism sources reach artefacts only as stamp variables on comment lines; set order only as record-list order")
    rep.rule("R17.2", "written long-lived state is not read on generate paths")
    rep.rule("R17.3", "no function reachable from generate() mutates the caller's schema")
    rep.assume("dict and list order are deterministic; jinja rendering is a pure function of its arguments; cantools' printer is deterministic")
    gens = generates(eng)
    rep.floor("R17.1", "plug-in generate() implementations", len(gens), 2)
    jb = JinjaBinding(eng)
    extra: Dict[str, List[str]] = {}
    for g in gens:
        if g.module.name.startswith("fcp_cpp"):
            extra.setdefault(g.qual, []).extend(q for q in list(jb.globals.values()) + list(jb.filters.values()) if q)
    # lark's Transformer.transform -> semantic actions (the C++ plug-in parses reflection.fcp while generating)
    for sites in cg.sites.values():
        for cs in sites:
            if any(x.endswith("Transformer.transform") for x in cs.externals):
                for cq, cbs in cg.transformer_callbacks.items():
                    extra.setdefault(cs.caller.qual, []).extend(f.qual for f in cbs)
    reach = cg.reachable([g.qual for g in gens], extra=extra)
    reach_funcs = [prog.functions[q] for q in sorted(reach)]
    rep.extra["generate_reach"] = len(reach_funcs)

    # ---- R17.1 -------------------------------------------------------------------------
    stamp_sources: List[Tuple[FuncInfo, ast.Call, str]] = []
    n_src = 0
    for f in reach_funcs:
        if f.module.name in ("fcp.maybe", "fcp.result"):
            continue
        pm = None
        ft = T.fn(f)
        nodes = list(walk_local(f.node))
        for x in list(nodes):
            if isinstance(x, ast.Lambda):
                nodes += list(ast.walk(x.body))
        for n in nodes:
            if isinstance(n, ast.Call):
                r = prog.resolve_expr_symbol(f.module, f, n.func) if isinstance(n.func, (ast.Name, ast.Attribute)) else None
                full = r[1] if r and r[0] == "ext" else ("builtins." + r[1] if r and r[0] == "builtin" else None)
                if full is None and isinstance(n.func, ast.Attribute):
                    # method on an external object: e.g. datetime.datetime.now().strftime
                    inner = n.func.value
                    continue
                if full and full.startswith(CLOCKISH):
                    n_src += 1
                    stamp_sources.append((f, n, full))
                elif full in ("builtins.hash", "builtins.id"):
                    n_src += 1
                    pm = pm or parent_map(f.node)
                    par = pm.get(id(n))
                    in_hash_dunder = f.name in ("__hash__", "__eq__", "__repr__")
                    if in_hash_dunder:
                        rep.info("R17.1", f.file, f.qual, norm(n, 40), "%s() inside %s (not an artefact)" % (full.split(".")[-1], f.name))
                    else:
                        rep.violation("R17.1", f.file, f.qual, norm(n, 50), "%s() value is used on a generate path: it differs between processes (PYTHONHASHSEED / addresses)" % full.split(".")[-1])
                elif full and full.startswith(LISTING):
                    n_src += 1
                    pm = pm or parent_map(f.node)
                    classify_listing(rep, f, n, pm)
                elif full in ("builtins.set", "builtins.frozenset"):
                    n_src += 1
                    pm = pm or parent_map(f.node)
                    classify_set(eng, rep, f, n, pm, jb, reach)
            elif isinstance(n, (ast.Set, ast.SetComp)):
                n_src += 1
                pm = pm or parent_map(f.node)
                classify_set(eng, rep, f, n, pm, jb, reach)
    # stamp variables: names in the render metadata whose value derives from a clockish source
    stamp_names: Set[str] = set()
    unbound_sources = list(stamp_sources)
    for name, v in jb.metadata_keys.items():
        hits = [s for s in stamp_sources if any(x is s[1] for x in ast.walk(v))]
        if hits:
            stamp_names.add(name)
            unbound_sources = [s for s in unbound_sources if s not in hits]
    for f, n, full in unbound_sources:
        rep.violation("R17.1", f.file, f.qual, norm(n, 60), "value of %s is used on a generate path outside the documented generation stamp" % full)
    doc_stamp = set(stamp_names) | ({"version"} if "version" in jb.metadata_keys else set())
    n_lines = 0
    seen = set()
    for rs in jb.sites:
        if rs.path is None or rs.path in seen:
            continue
        seen.add(rs.path)
        t = jb.template(rs.path)
        for nm, ln in t.names_with_lines(stamp_names):
            n_lines += 1
            line = t.lines[ln - 1] if 0 < ln <= len(t.lines) else ""
            rep.check(line.lstrip().startswith("//"), "R17.1", t.relpath, "line %d" % ln, "{{%s}}" % nm, "stamp variable on a comment line",
                      "the generation stamp variable '%s' is rendered outside a // comment line: artefact contents differ from run to run" % nm)
        # stamp names used through other expressions (e.g. passed to a filter in code position) are covered above (Name nodes)
    for f, n, full in stamp_sources:
        if (f, n, full) not in unbound_sources:
            rep.ok("R17.1", f.file, f.qual, norm(n, 60), "feeds a stamp variable only")
    rep.floor("R17.1", "stamp occurrences in templates", n_lines, 1)
    rep.extra["nondeterminism_sources"] = n_src
    rep.extra["stamp_names"] = sorted(stamp_names)
    # paths of records must not depend on stamp values
    for g in gens:
        pv = Provenance(g.node)
        for n in walk_local(g.node):
            if isinstance(n, ast.Dict):
                for k, v in zip(n.keys, n.values):
                    if isinstance(k, ast.Constant) and k.value == "path":
                        atoms = pv.of(v)
                        bad = [a for a in atoms if any(a.startswith("call:" + c.rstrip(".")) for c in CLOCKISH)]
                        rep.check(not bad, "R17.1", g.file, g.qual, "path <- %s" % norm(v, 50), "file names are schema-determined", "a record's path depends on %s" % bad)

    # ---- R17.2 -------------------------------------------------------------------------
    r172(eng, rep, reach)
    # ---- R17.3 -------------------------------------------------------------------------
    r173(eng, rep, gens, reach)


def classify_listing(rep, f, n, pm) -> None:
    par = pm.get(id(n))
    site = norm(n, 50)
    if isinstance(par, ast.Call) and dotted(par.func) == "sorted":
        rep.ok("R17.1", f.file, f.qual, site, "directory listing is sorted")
        return
    if isinstance(par, (ast.For, ast.comprehension)):
        body = par.body if isinstance(par, ast.For) else []
        txt = " ".join(norm(b, 400) for b in body)
        keyed = "[" in txt and "] =" in txt
        deletes = "os.remove" in txt or ".unlink(" in txt
        appends = ".append(" in txt
        if (keyed or deletes) and not appends:
            rep.ok("R17.1", f.file, f.qual, site, "listing order only selects keys / files to delete (order-insensitive)")
            return
    rep.undecided("R17.1", f.file, f.qual, site, "directory listing order may be observable")


def classify_set(eng, rep, f, n, pm, jb, reach) -> None:
    """How is the iteration order of this set used?"""
    site = norm(n, 60)
    cur = n
    par = pm.get(id(cur))
    # membership-only / sorted
    hops = 0
    while par is not None and hops < 6:
        if isinstance(par, ast.Call) and dotted(par.func) in ("sorted", "len", "bool", "min", "max", "sum", "any", "all", "frozenset", "set"):
            rep.ok("R17.1", f.file, f.qual, site, "order removed by %s()" % dotted(par.func))
            return
        if isinstance(par, ast.Compare) and any(isinstance(o, (ast.In, ast.NotIn)) for o in par.ops):
            rep.ok("R17.1", f.file, f.qual, site, "membership test only")
            return
        if isinstance(par, ast.comprehension) and par.iter is cur:
            owner = pm.get(id(par))
            if isinstance(owner, ast.DictComp):
                rep.ok("R17.1", f.file, f.qual, site, "iterated into a mapping (lookup by key; order unobservable)")
                return
            if isinstance(owner, ast.SetComp):
                cur, par = owner, pm.get(id(owner)); hops += 1
                continue
            rep.violation("R17.1", f.file, f.qual, site, "set is iterated into an ordered sequence: element order depends on PYTHONHASHSEED")
            return
        if isinstance(par, ast.Call) and dotted(par.func) in ("list", "tuple") and par.args and par.args[0] is cur:
            # ordered copy of a set: where does it go?
            gp = pm.get(id(par))
            if isinstance(gp, ast.Return):
                return classify_returned_set_order(eng, rep, f, site, jb, reach)
            if isinstance(gp, ast.Call) and dotted(gp.func) == "str":
                rep.violation("R17.1", f.file, f.qual, site, "str(list(set(...))) - text depends on hash order") if f.qual in reach and not f.module.name.startswith("fcp.error") else rep.info("R17.1", f.file, f.qual, site, "diagnostic text only")
                return
            cur, par = par, gp; hops += 1
            continue
        if isinstance(par, ast.For) and par.iter is cur:
            rep.violation("R17.1", f.file, f.qual, site, "set is iterated directly in a for loop on a generate path")
            return
        if isinstance(par, (ast.Assign, ast.AnnAssign)) or (isinstance(par, ast.Dict) and cur in par.values):
            # stored in a variable, or under a constant key of a dict literal: find iterations over it
            pats = []
            if isinstance(par, ast.Dict):
                k = par.keys[par.values.index(cur)]
                if isinstance(k, ast.Constant):
                    pats.append(("key", k.value))
            else:
                t = par.targets[0] if isinstance(par, ast.Assign) else par.target
                if isinstance(t, ast.Name):
                    pats.append(("name", t.id))
            if not pats:
                rep.undecided("R17.1", f.file, f.qual, site, "set stored in a place that is not followed")
                return
            bad = []
            for x in ast.walk(f.node):
                its = []
                if isinstance(x, (ast.For,)):
                    its.append((x.iter, x))
                elif isinstance(x, ast.comprehension):
                    its.append((x.iter, x))
                elif isinstance(x, ast.Call) and (dotted(x.func) in ("list", "tuple") or (isinstance(x.func, ast.Attribute) and x.func.attr == "join")) and x.args:
                    its.append((x.args[0], x))
                for it, node in its:
                    for kind, val in pats:
                        hit = (kind == "name" and isinstance(it, ast.Name) and it.id == val) or (kind == "key" and isinstance(it, ast.Subscript) and isinstance(it.slice, ast.Constant) and it.slice.value == val)
                        if hit:
                            bad.append(norm(it, 50))
            if bad:
                rep.violation("R17.1", f.file, f.qual, site, "the set is later iterated in hash order (%s) on a generate path: the emitted order depends on PYTHONHASHSEED" % bad[0])
            else:
                rep.ok("R17.1", f.file, f.qual, site, "set is stored but never iterated in this function")
            return
        if isinstance(par, ast.Call) and isinstance(par.func, ast.Attribute) and par.func.attr == "join":
            rep.violation("R17.1", f.file, f.qual, site, "set joined into text: order depends on PYTHONHASHSEED")
            return
        cur, par = par, pm.get(id(par)); hops += 1
    rep.undecided("R17.1", f.file, f.qual, site, "use of the set not classified")


def classify_returned_set_order(eng, rep, f, site, jb, reach) -> None:
    """f returns list(set(...)): every use of f's result on generate paths must be order-insensitive,
    except feeding the order of the returned record list."""
    cg, prog = eng.cg, eng.prog
    uses = [cs for cs in cg.callers_of(f.qual) if cs.caller.qual in reach]
    # also uses from templates
    tmpl_uses = []
    for rs in jb.sites:
        if rs.path is None:
            continue
        t = jb.template(rs.path)
        if ("." + f.name + "(") in t.source:
            tmpl_uses.append(rs.path)
    for p in sorted(set(tmpl_uses)):
        rep.violation("R17.1", p, "-", "%s() in template" % f.name, "hash-ordered list is iterated/printed inside a template: artefact text depends on PYTHONHASHSEED")
    for cs in uses:
        pm = parent_map(cs.caller.node)
        par = pm.get(id(cs.node))
        if isinstance(par, ast.For) and par.iter is cs.node:
            body_calls = [c for b in par.body for c in ast.walk(b) if isinstance(c, ast.Call)]
            only_records = all(isinstance(b, ast.Expr) and isinstance(b.value, ast.Call) and isinstance(b.value.func, ast.Attribute) and b.value.func.attr in ("with_file", "append") for b in par.body)
            if only_records:
                rep.ok("R17.1", cs.caller.file, cs.caller.qual, "for ... in %s" % norm(cs.node, 40), "hash order reaches only the order of the returned record list (distinct paths; unobservable in the written files)")
            else:
                rep.violation("R17.1", cs.caller.file, cs.caller.qual, "for ... in %s" % norm(cs.node, 40), "hash-ordered list drives a loop that does more than add one record per element")
        elif isinstance(par, ast.Call) and dotted(par.func) in ("sorted", "len", "set"):
            rep.ok("R17.1", cs.caller.file, cs.caller.qual, norm(par, 50), "order removed")
        else:
            rep.violation("R17.1", cs.caller.file, cs.caller.qual, norm(cs.node, 50), "hash-ordered list returned by %s is used in an order-sensitive way" % f.name)
    if not uses and not tmpl_uses:
        rep.ok("R17.1", f.file, f.qual, site, "hash-ordered result is not used on any generate path")


def r172(eng, rep, reach) -> None:
    prog, cg = eng.prog, eng.cg
    n = 0
    for f in prog.functions.values():
        a = f.node.args
        params = list(a.posonlyargs) + list(a.args)
        defaults = [None] * (len(params) - len(a.defaults)) + list(a.defaults)
        kwd = list(zip(a.kwonlyargs, a.kw_defaults))
        for p, d in list(zip(params, defaults)) + kwd:
            if d is None:
                continue
            mutable = isinstance(d, (ast.Dict, ast.List, ast.Set)) or (isinstance(d, ast.Call) and not (dotted(d.func) in ("Nothing", "tuple", "frozenset", "str", "int", "float", "bool")))
            if not mutable:
                continue
            n += 1
            site = "%s=%s" % (p.arg, norm(d, 30))
            writes, aliases = writes_through(eng, f, p.arg)
            if not writes:
                rep.ok("R17.2", f.file, f.qual, site, "shared default is never written")
                continue
            # reads of the same object on generate paths
            readers = []
            default_is_instance = isinstance(d, ast.Call) and (lambda r: bool(r) and r[0] == "class")(prog.resolve_expr_symbol(f.module, f, d.func))
            for (cls_q, attr, akind) in aliases:
                if default_is_instance and akind == "holder":
                    continue  # a reference to the shared object, not its state
                for gq in reach:
                    g = prog.functions[gq]
                    if g.module.name == "fcp.error":
                        continue  # diagnostics: the logger's own bookkeeping does not reach an artefact
                    gt = eng.T.fn(g)
                    for x in ast.walk(g.node):
                        if isinstance(x, ast.Attribute) and isinstance(x.ctx, ast.Load) and x.attr == attr:
                            own = g.cls is not None and g.cls.qual == cls_q and norm(x.value) == "self"
                            typed = any(u == ("inst", cls_q) for u in members(gt.of(x.value)))
                            if not (own or typed):
                                continue
                            par_store = any(isinstance(s_, (ast.Subscript,)) and s_.value is x and isinstance(s_.ctx, ast.Store) for s_ in ast.walk(g.node))
                            if not par_store:
                                readers.append(g.qual)
            direct = [w for w in writes if w[0] == f.qual and f.qual in reach]
            if direct:
                rep.violation("R17.2", f.file, f.qual, site, "the shared default object is mutated in place (%s) on a generate path and used there: what one call stores is seen by every later call" % direct[0][1])
                continue
            if readers:
                rep.violation("R17.2", f.file, f.qual, site, "shared default object is written (%s) and read on a generate path (%s): output can depend on earlier calls in the process" % (writes[0][1], readers[0]))
            else:
                rep.ok("R17.2", f.file, f.qual, site, "written (%s) but read only outside generate paths (diagnostics)" % writes[0][1])
    rep.floor("R17.2", "mutable default arguments inventoried", n, 0)
    # module-level mutable objects written from generate paths
    for q in sorted(reach):
        f = prog.functions[q]
        m = f.module
        loc = f.local_names()
        for kind, tgt, st in stores_in(f.node):
            root = tgt
            while isinstance(root, (ast.Attribute, ast.Subscript)):
                root = root.value
            if isinstance(root, ast.Name) and root.id in m.assigns and root.id not in loc and not (kind == "aug" and isinstance(tgt, ast.Name)):
                # a cache whose key is built from the complete content it depends on cannot return a stale value;
                # whether the key is complete is not decided here
                content_keyed = False
                if kind == "sub-store" and isinstance(tgt, ast.Subscript):
                    from ..dataflow import deep_resolve
                    kx = norm(deep_resolve(f.node, tgt.slice), 400)
                    content_keyed = any(t_ in kx for t_ in ("frozenset(", "tuple(", "hash(", "digest", ".read(", "get_source(", "sorted("))
                if kind == "sub-store" and isinstance(tgt, ast.Subscript) and complete_key_memo(eng, f, tgt, st):
                    rep.ok("R17.2", f.file, f.qual, norm(st, 70), "module-level memo '%s': every input of the stored value is part of its key, so a stored result is the result" % root.id)
                elif content_keyed:
                    rep.undecided("R17.2", f.file, f.qual, norm(st, 70), "module-level cache '%s' keyed by a value computed from content (%s); completeness of the key is not decided" % (root.id, norm(tgt.slice, 30)))
                else:
                    rep.violation("R17.2", f.file, f.qual, norm(st, 70), "module-level object '%s' is mutated on a generate path: results depend on what the process generated or parsed before" % root.id)
        for n2 in walk_local(f.node):
            if isinstance(n2, ast.Global):
                rep.violation("R17.2", f.file, f.qual, norm(n2, 40), "generate path rebinds module-level state")
        for d in f.decorators:
            dn = dotted(d.func if isinstance(d, ast.Call) else d) or ""
            if dn.split(".")[-1] in ("lru_cache", "cache", "cached_property"):
                if pure_of_scalars(f):
                    rep.ok("R17.2", f.file, f.qual, "@%s" % dn, "memoised, but a pure function of its str/int arguments (reads nothing else): a cached result is the result")
                else:
                    rep.violation("R17.2", f.file, f.qual, "@%s" % dn, "memoised function on a generate path: cached results survive into later generations of other schemas")
    # lazily initialised attributes of a generator object (cache idiom): survive into the next generation
    base = prog.cls("fcp.codegen.CodeGenerator")
    for ci in prog.subclasses(base.qual):
        for m in ci.methods.values():
            if m.name == "__init__" or m.qual not in reach:
                continue
            for n in walk_local(m.node):
                if isinstance(n, ast.If):
                    tnames = {norm(x) for x in ast.walk(n.test) if isinstance(x, ast.Attribute) and isinstance(x.value, ast.Name) and x.value.id == "self"}
                    for st in ast.walk(ast.Module(body=n.body, type_ignores=[])):
                        if isinstance(st, (ast.Assign, ast.AnnAssign)):
                            for t in (st.targets if isinstance(st, ast.Assign) else [st.target]):
                                if norm(t) in tnames:
                                    rep.violation("R17.2", m.file, m.qual, norm(st, 60), "the generator object caches %s across calls (initialised once, then reused): a second generation on the same object is computed from the first schema" % norm(t))
    # class-level mutable attributes on classes used on generate paths
    for ci in prog.classes.values():
        for st in ci.node.body:
            is_mut = lambda v: isinstance(v, (ast.Dict, ast.List, ast.Set)) or (isinstance(v, ast.Call) and (dotted(v.func) or "").split(".")[-1] in ("dict", "list", "set", "defaultdict", "OrderedDict", "Counter"))
            if isinstance(st, (ast.Assign, ast.AnnAssign)) and st.value is not None and is_mut(st.value) and any(m.qual in reach for m in ci.methods.values()):
                tgt0 = st.targets[0] if isinstance(st, ast.Assign) else st.target
                name = tgt0.id if isinstance(tgt0, ast.Name) else None
                if name and any(kind in ("mutcall", "sub-store", "aug") and norm(t).startswith(("self.%s" % name, "cls.%s" % name, "%s.%s" % (ci.name, name))) for m in ci.methods.values() for kind, t, s_ in stores_in(m.node)):
                    rep.violation("R17.2", ci.file, ci.qual, norm(st, 50), "class-level mutable attribute is mutated by instances: shared across all generations in the process")


def writes_through(eng, f: FuncInfo, pname: str):
    """Stores through parameter `pname` in f, and through self.<attr> aliases of it."""
    prog = eng.prog
    writes = []
    aliases = []
    for kind, tgt, st in stores_in(f.node):
        root = tgt
        while isinstance(root, (ast.Attribute, ast.Subscript)):
            root = root.value
        if isinstance(root, ast.Name) and root.id == pname and not (kind == "aug" and isinstance(tgt, ast.Name)):
            writes.append((f.qual, norm(st, 50)))
    # self.attr = pname
    for n in walk_local(f.node):
        if isinstance(n, ast.Assign) and isinstance(n.value, ast.Name) and n.value.id == pname and isinstance(n.targets[0], ast.Attribute) and isinstance(n.targets[0].value, ast.Name) and n.targets[0].value.id == "self" and f.cls is not None:
            aliases.append((f.cls.qual, n.targets[0].attr, "holder"))
    # passed on positionally to a constructor that stores it (one level): Logger({}) style defaults are objects themselves
    a = f.node.args
    for (cls_q, attr, _k) in list(aliases):
        ci = prog.classes[cls_q]
        for m in ci.methods.values():
            for kind, tgt, st in stores_in(m.node):
                if norm(tgt).startswith("self.%s" % attr) and not (isinstance(st, ast.Assign) and norm(st.targets[0]) == "self.%s" % attr):
                    writes.append((m.qual, norm(st, 50)))
    # the default is itself an instance (Logger({})): writes = mutating methods of that class called on the param
    ft = eng.T.fn(f)
    for n in walk_local(f.node):
        if isinstance(n, ast.Call) and isinstance(n.func, ast.Attribute) and isinstance(n.func.value, ast.Name) and n.func.value.id == pname:
            cs = eng.cg.site_of.get(id(n))
            for c in (cs.callees if cs else []):
                g = prog.functions.get(c)
                if g is not None and any(norm(t).startswith("self.") for k, t, s_ in stores_in(g.node)):
                    writes.append((g.qual, "%s.%s(...)" % (pname, n.func.attr)))
                    if g.cls is not None:
                        for k, t, s_ in stores_in(g.node):
                            if norm(t).startswith("self."):
                                aliases.append((g.cls.qual, norm(t).split(".")[1].split("[")[0], "state"))
        # param handed to another function whose same-position parameter is written
        if isinstance(n, ast.Call):
            for i, arg in enumerate(n.args):
                if isinstance(arg, ast.Name) and arg.id == pname:
                    cs = eng.cg.site_of.get(id(n))
                    for c in (cs.callees if cs else []):
                        g = prog.functions.get(c)
                        if g is None:
                            continue
                        gps = [p.arg for p in g.params]
                        off = 1 if (g.cls is not None and gps and gps[0] == "self") else 0
                        if i + off < len(gps):
                            w2, a2 = writes_through(eng, g, gps[i + off]) if g.qual != f.qual else ([], [])
                            writes += w2
                            aliases += a2
    return writes, aliases


def r173(eng, rep, gens, reach) -> None:
    prog, cg, T = eng.prog, eng.cg, eng.T

    def is_spec_type(t) -> bool:
        for u in members(t):
            if u[0] == "inst" and u[1].startswith(SPEC_PREFIX):
                return True
            if u[0] in ("list", "dict") and any(isinstance(x, tuple) and x and x[0] == "inst" and x[1].startswith(SPEC_PREFIX) for x in u[1:]):
                return True
        return False

    # freshness: None (caller's object) | ("deep", set()) | ("shallow", {attrs rebound to fresh values})
    fresh_cache: Dict[Tuple[str, str], object] = {}

    def rebound_attrs(f: FuncInfo, name: str, depth: int) -> Set[str]:
        out = set()
        for n in walk_local(f.node):
            if isinstance(n, ast.Assign) and isinstance(n.targets[0], ast.Attribute) and isinstance(n.targets[0].value, ast.Name) and n.targets[0].value.id == name:
                if fresh_expr(f, n.value, depth + 1) is not None:
                    out.add(n.targets[0].attr)
        return out

    def meet(a, b):
        if a is None or b is None:
            return None
        if a[0] == "deep" and b[0] == "deep":
            return ("deep", set())
        sa = a[1] if a[0] == "shallow" else None
        sb = b[1] if b[0] == "shallow" else None
        if sa is None:
            return ("shallow", set(sb))
        if sb is None:
            return ("shallow", set(sa))
        return ("shallow", sa & sb)

    def empty_container(v: ast.AST) -> bool:
        if isinstance(v, (ast.Dict, ast.List, ast.Set)) and not (getattr(v, "keys", None) or getattr(v, "elts", None)):
            return True
        if isinstance(v, ast.Constant) and v.value is None:
            return True
        return isinstance(v, ast.Call) and (dotted(v.func) or "").split(".")[-1] in ("dict", "list", "set", "defaultdict", "OrderedDict") and not any(not (isinstance(a, ast.Name) and a.id in ("list", "dict", "set", "int")) for a in v.args)

    def built_here(f: FuncInfo, x: ast.AST) -> bool:
        """x is a container that starts empty and is filled by this function / this object only: a local bound only to empty
        literals, or an attribute of a non-schema `self` that every method of the class binds only to empty literals"""
        if isinstance(x, ast.Name):
            if x.id in [p.arg for p in f.params]:
                return False
            vs = [v for k, v, st in Defs(f.node).values(x.id)]
            return bool(vs) and all(v is not None and empty_container(v) for v in vs)
        if isinstance(x, ast.Attribute) and isinstance(x.value, ast.Name) and x.value.id == "self" and f.cls is not None and not f.cls.qual.startswith(SPEC_PREFIX):
            vals = []
            for m in f.cls.methods.values():
                for n in walk_local(m.node):
                    if isinstance(n, ast.Assign) and any(norm(t) == norm(x) for t in n.targets):
                        vals.append(n.value)
                    elif isinstance(n, ast.AnnAssign) and n.value is not None and norm(n.target) == norm(x):
                        vals.append(n.value)
            return bool(vals) and all(empty_container(v) for v in vals)
        return False

    def fresh_expr(f: FuncInfo, e: ast.AST, depth=0):
        """Freshness of the object denoted by e (created within this generation?)."""
        if depth > 8:
            return None
        if isinstance(e, ast.Call):
            d = (dotted(e.func) or "").split(".")[-1]
            if d == "deepcopy":
                return ("deep", set())
            if d in ("copy", "replace"):
                return ("shallow", set())
            if d in ("list", "dict", "set", "sorted", "tuple") and isinstance(e.func, ast.Name):
                return ("shallow", set())
            r = prog.resolve_expr_symbol(f.module, f, e.func) if isinstance(e.func, (ast.Name, ast.Attribute)) else None
            if r and r[0] == "class":
                # a new object; deep-fresh if everything handed to the constructor is fresh or immutable
                ftf = T.fn(f)
                alldeep = True
                for a_ in list(e.args) + [k.value for k in e.keywords]:
                    if isinstance(a_, ast.Constant):
                        continue
                    ta = ftf.of(a_)
                    if ta is not None and all(u[0] in ("prim", "none") for u in members(ta)):
                        continue
                    if fresh_expr(f, a_, depth + 1) is None:
                        alldeep = False
                return ("deep", set()) if alldeep else ("shallow", set())
            # element of a container that this function built itself from empty (`d = {}` ... `d.setdefault(k, [])`): a fresh object
            if isinstance(e.func, ast.Attribute) and e.func.attr in ("setdefault", "get") and built_here(f, e.func.value) and (len(e.args) < 2 or isinstance(e.args[1], (ast.List, ast.Dict, ast.Set)) or (isinstance(e.args[1], ast.Call) and dotted(e.args[1].func) in ("list", "dict", "set") and not e.args[1].args)):
                return ("shallow", set())
            cs = cg.site_of.get(id(e))
            if cs and cs.callees:
                lv = ("deep", set())
                for c in cs.callees:
                    if c not in prog.functions:
                        return None
                    lv = meet(lv, returns_fresh(prog.functions[c], depth + 1))
                    if lv is None:
                        return None
                return lv
            return None
        if isinstance(e, (ast.List, ast.Dict, ast.ListComp, ast.DictComp, ast.Tuple, ast.Set)):
            return ("shallow", set())
        if isinstance(e, ast.Name):
            defs = Defs(f.node)
            vals = [(k, v) for k, v, st in defs.values(e.id)]
            if vals:
                lv = ("deep", set())
                for k, v in vals:
                    if k != "assign" or v is None:
                        return None
                    if isinstance(v, ast.Name) and v.id == e.id:
                        continue
                    lv = meet(lv, fresh_expr(f, v, depth + 1))
                    if lv is None:
                        return None
                if lv[0] == "shallow":
                    lv = ("shallow", set(lv[1]) | rebound_attrs(f, e.id, depth))
                return lv
            if e.id in [p.arg for p in f.params]:
                return fresh_param(f, e.id, depth + 1)
            return None
        if isinstance(e, ast.Attribute):
            if isinstance(e.value, ast.Name) and e.value.id == "self" and f.cls is not None:
                init = prog.find_method(f.cls, "__init__")
                if init is not None:
                    for n in walk_local(init.node):
                        if (isinstance(n, ast.Assign) and norm(n.targets[0]) == norm(e)) or (isinstance(n, ast.AnnAssign) and n.value is not None and norm(n.target) == norm(e)):
                            lv = fresh_expr(init, n.value, depth + 1)
                            if lv is not None:
                                return lv
                if f.cls.qual.startswith(SPEC_PREFIX) or f.name in ("__init__", "__post_init__"):
                    base = fresh_param(f, "self", depth + 1)
                    if base is None:
                        return None
                    if base[0] == "deep" or e.attr in base[1]:
                        return ("shallow", set()) if base[0] != "deep" else ("deep", set())
                    return None
                return None
            base = fresh_expr(f, e.value, depth + 1)
            if base is None:
                return None
            if base[0] == "deep":
                return ("deep", set())
            if e.attr in base[1]:
                return ("shallow", set())
            return None  # attribute of a shallow copy: still the caller's object
        if isinstance(e, ast.Subscript):
            base = fresh_expr(f, e.value, depth + 1)
            return ("deep", set()) if base is not None and base[0] == "deep" else None
        return None

    def returns_fresh(g: FuncInfo, depth=0):
        rets = [n.value for n in walk_local(g.node) if isinstance(n, ast.Return) and n.value is not None]
        if not rets:
            return None
        lv = ("deep", set())
        for r in rets:
            lv = meet(lv, fresh_expr(g, r, depth + 1))
            if lv is None:
                return None
        return lv

    def fresh_param(g: FuncInfo, pname: str, depth=0):
        key = (g.qual, pname)
        if key in fresh_cache:
            return fresh_cache[key]
        fresh_cache[key] = None  # cycle guard
        if g.name in ("__init__", "__post_init__") and pname == "self":
            fresh_cache[key] = ("shallow", {"*"})
            return fresh_cache[key]
        gps = [p.arg for p in g.params]
        idx = gps.index(pname)
        callers = [cs for cs in cg.callers_of(g.qual) if cs.caller.qual in reach and cs.how != "by-name"]
        if not callers:
            return None
        lv = ("deep", set())
        for cs in callers:
            off = 1 if (g.cls is not None and gps and gps[0] == "self" and isinstance(cs.node.func, ast.Attribute)) else 0
            if pname == "self" and off:
                arg = cs.node.func.value
            else:
                ai = idx - off
                arg = cs.node.args[ai] if 0 <= ai < len(cs.node.args) else next((k.value for k in cs.node.keywords if k.arg == pname), None)
            if arg is None:
                lv = None
                break
            lv = meet(lv, fresh_expr(cs.caller, arg, depth + 1))
            if lv is None:
                break
        fresh_cache[key] = lv
        return lv

    n = 0
    for q in sorted(reach):
        f = prog.functions[q]
        if f.module.name in ("fcp.maybe", "fcp.result"):
            continue
        ft = T.fn(f)
        for kind, tgt, st in stores_in(f.node):
            if kind == "aug" and isinstance(tgt, ast.Name):
                continue
            # the object being mutated
            obj = tgt.value if isinstance(tgt, (ast.Attribute, ast.Subscript)) and kind in ("attr-store", "sub-store", "aug") else tgt
            t = ft.of(obj)
            if not is_spec_type(t):
                # list attribute of a spec object: x.structs.append(...)
                if not (isinstance(obj, ast.Attribute) and is_spec_type(ft.of(obj.value))):
                    continue
            n += 1
            lv = fresh_expr(f, obj)
            if lv is None and isinstance(obj, ast.Attribute) and isinstance(obj.value, ast.Name) and obj.value.id == "self" and f.name in ("__init__", "__post_init__"):
                lv = ("shallow", set())
            if lv is None and built_here(f, obj):
                lv = ("shallow", set())  # an index / memo that the function or the (non-schema) object built from empty
            ok = lv is not None
            rep.check(ok, "R17.3", f.file, f.qual, norm(st, 70), "mutates an object created during this generation",
                      "a schema object reachable from the caller's `fcp` is mutated during generation: generating twice (or another generator afterwards) sees a changed schema")
    rep.floor("R17.3", "stores on schema-typed objects on generate paths", n, 1)
