"""C16 - the Python decoder detects truncated input instead of fabricating values.

R16.1 every read of the store is dominated by a bounds test that raises (slices never raise)
R16.2 work is bounded by the input: loops with a decoded trip count read (guarded) on every iteration;
      no allocation sized by a decoded value
R16.3 the decode buffer is created per call and holds exactly the input; the cursor starts at 0
"""

from __future__ import annotations

import ast
from typing import Dict, List, Optional, Set

from ..front_py import AnalysisError, FuncInfo, walk_local, norm, dotted
from ..dataflow import Defs, parent_map, is_terminating
from .codec_py import DEC, ENC, find_cursor_class, Prims, find_dispatcher, byte_index_of, lin


def ordering_truth(op, left_is_len: bool):
    """truth of `len OP idx` (or `idx OP len`) on the three orderings (idx < len, idx == len, idx > len)"""
    t = {ast.Lt: (lambda a, b: a < b), ast.LtE: (lambda a, b: a <= b), ast.Gt: (lambda a, b: a > b), ast.GtE: (lambda a, b: a >= b), ast.Eq: (lambda a, b: a == b), ast.NotEq: (lambda a, b: a != b)}.get(type(op))
    if t is None:
        return None
    out = []
    for idx, ln in ((0, 1), (1, 1), (2, 1)):
        out.append(t(ln, idx) if left_is_len else t(idx, ln))
    return tuple(out)


def run(eng, rep) -> None:
    prog, cg = eng.prog, eng.cg
    rep.explanation = (
        "In the buffer class of the decoder (found by role), every subscript read of the byte store must be dominated, in the CFG of its "
        "method, by a comparison of the same index with len(store) that raises exactly for index >= len (decided on the three orderings); a "
        "slice never raises and is accepted only if a raising test on the slice's upper bound dominates it. Values produced by reads are "
        "tainted: a tainted trip count is accepted only for a loop whose body performs a guarded read on every path; a tainted size must "
        "not reach an allocation. The decode entry point must build its buffer per call from the input alone and start at bit 0."
    )
    rep.rule("R16.1", "every store read is dominated by a raising bounds test on the same index (>= len), or goes through such a method")
    rep.rule("R16.4", "decoded element counts are used as the unsigned word that was read (no signed reinterpretation: a negative count reads nothing and raises nothing)")
    rep.rule("R16.5", "the overrun error raised by the buffer reaches decode()'s caller: no handler on the way catches ValueError")
    rep.rule("R16.6", "units: the cursor and word widths are bits, len(store) and byte counts are bytes; comparisons and sums do not mix them (>>3, //8, *8 convert)")
    rep.rule("R16.2", "decoded counts bound only loops that read on every iteration; no allocation sized by a decoded value")
    rep.rule("R16.3", "decode() creates its buffer per call, fills it from the input only, and reads from bit 0")
    rep.rule("R16.7", "a size computed by walking down a nested type (the bound that a single up-front check relies on) accumulates over every level")
    from ..dataflow import head_reads_in_descent, overwrites_in_descent
    n_desc = 0
    for f_ in eng.prog.functions.values():
        if f_.module.name != "fcp.serde":
            continue
        n_desc += 1
        for w_, st_, txt_ in overwrites_in_descent(f_.node):
            rep.violation("R16.7", f_.file, f_.qual, txt_[:70], "the loop walks down the nested array type and replaces the element count at every level instead of multiplying it in: only the innermost dimension counts, the computed size is too small, and whatever is read on the strength of a bounds check against it runs past the input")
        for w_, st_, txt_ in head_reads_in_descent(f_.node):
            rep.violation("R16.7", f_.file, f_.qual, txt_[:70], "the loop walks down the nested type but takes the size of the type it started from at every level: for nested arrays of different sizes the computed size is wrong")
    rep.ok("R16.7", "-", "-", "descent loops over nested types in the codec", "%d functions scanned" % n_desc)
    rep.rule("R16.8", "running out of input is not turned into a quiet end of iteration (a short islice of a generator that ends by itself, StopIteration inside map())")
    from .lints import short_islice, stopiteration_in_map
    short_islice(eng, rep, "R16.8", ("fcp.serde",), "a truncated message decodes to fewer elements than its count says, with no error")
    stopiteration_in_map(eng, rep, "R16.8", ("fcp.serde",), "a truncated message decodes to a shorter value, with no error")
    rep.rule("R16.9", "a memo of per-type sizes that the decoder's bounds checks rely on is keyed by everything that tells two schema types apart")
    from .lints import type_identity_keys
    type_identity_keys(eng, rep, "R16.9", ("fcp.serde",))
    rep.assume("fixed-size array loops (range(type.size)) assume size >= 1 ([[u8, 0]] is the pathological schema)")
    cc = find_cursor_class(eng)
    pr = Prims(eng, cc)
    S = cc.S
    n_reads = 0
    guarded_methods: Set[str] = set()
    for name, m in cc.ci.methods.items():
        reads = cc.store_reads(m)
        if not reads:
            continue
        cfg = eng.cfg(m)
        defs = Defs(m.node)
        for r in reads:
            n_reads += 1
            rn = cfg.stmt_node_containing(r)
            site = norm(r, 60)
            if isinstance(r.slice, ast.Slice):
                upper = r.slice.upper
                if upper is None:
                    rep.undecided("R16.1", m.file, m.qual, site, "open-ended slice of the store (whole-buffer export?)")
                    continue
                ok = guard_dominates(eng, m, cfg, rn, S, upper, defs, slice_upper=True)
                if ok is True:
                    rep.undecided("R16.1", m.file, m.qual, site, "slice whose upper bound is bounds-tested; whether it covers every needed byte is arithmetic (not decided)")
                elif isinstance(slice_guard_gap(m, cfg, rn, S, cc.C, upper), str) and slice_guard_gap(m, cfg, rn, S, cc.C, upper) != "covers":
                    rep.violation("R16.1", m.file, m.qual, site, slice_guard_gap(m, cfg, rn, S, cc.C, upper))
                elif slice_length_checked(m, r, defs):
                    rep.ok("R16.1", m.file, m.qual, site, "the slice's length is compared with the requested count and a shortfall raises")
                elif some_len_guard(m, cfg, rn, S):
                    rep.undecided("R16.1", m.file, m.qual, site, "a raising test on len(store) dominates the slice; its sufficiency is arithmetic (not decided)")
                else:
                    rep.violation("R16.1", m.file, m.qual, site, "slice read of the store is not preceded by a raising bounds test on its upper bound: a slice never raises, so bytes beyond the input are silently treated as absent/zero")
                continue
            ok = guard_dominates(eng, m, cfg, rn, S, r.slice, defs)
            if ok is True:
                guarded_methods.add(name)
                rep.ok("R16.1", m.file, m.qual, site, "dominated by a raising test index >= len(store)")
            elif isinstance(ok, str):
                rep.violation("R16.1", m.file, m.qual, site, ok)
            elif in_indexerror_try(m, r):
                guarded_methods.add(name)
                rep.ok("R16.1", m.file, m.qual, site, "IndexError of the indexing is converted into the decoder's error (indices are non-negative)")
            elif some_len_guard(m, cfg, rn, S):
                guarded_methods.add(name)
                rep.undecided("R16.1", m.file, m.qual, site, "a raising test on len(store) dominates the read, on a bound other than this index; its sufficiency is arithmetic (not decided)")
            else:
                # store[idx] with idx >= len raises IndexError by itself in Python: still an error, but
                # only if idx is non-negative; accept as guarded-by-language, noted
                rep.violation("R16.1", m.file, m.qual, site, "store is indexed without a dominating bounds test that raises the decoder's error (relies on IndexError; the sibling primitive checks explicitly)")
    rep.floor("R16.1", "store reads in the buffer class", n_reads, 1)
    # whole-store reads other than subscripts (e.g. bytearray(self.buffer)) are exports, not decoding reads

    # ---- R16.2 ---------------------------------------------------------------------
    read_methods = {n for n, (k, i) in pr.word_prims.items() if k == "read"} | {n for n, (k, i) in pr.byte_prims.items() if k == "read"}
    # composite read methods (call a read method on every path)
    for name, m in cc.ci.methods.items():
        if name in read_methods:
            continue
        if any(c.func.attr in read_methods for c in cc.self_calls(m)):
            read_methods.add(name)
    if pr.bit_get is not None:
        read_methods.add(pr.bit_get.name)
    reach = cg.reachable([DEC])
    n_loops = 0
    for q in sorted(reach):
        f = prog.functions[q]
        if f.module.name != "fcp.serde":
            continue
        tainted = tainted_names(eng, f, cc, read_methods)
        if f.cls is not None and f.cls.qual == cc.ci.qual:
            # inside the buffer class: parameters of read methods may carry decoded values
            if f.name in read_methods:
                tainted |= {p.arg for p in f.params[1:]}
        for n in walk_local(f.node):
            loops = []
            if isinstance(n, ast.For):
                loops.append((n.iter, n.body, n))
            elif isinstance(n, (ast.ListComp, ast.GeneratorExp, ast.SetComp)):
                for g in n.generators:
                    loops.append((g.iter, [ast.Expr(value=n.elt)], n))
            for it, body, node in loops:
                names = {x.id for x in ast.walk(it) if isinstance(x, ast.Name)}
                if not (names & tainted):
                    continue
                if isinstance(it, ast.Name):
                    # a list that a reading comprehension built: it has one element per successful read, so walking it is bounded by the input
                    bs_ = [v_ for k_, v_, st_ in Defs(f.node).values(it.id) if v_ is not None]
                    if bs_ and all(isinstance(v_, ast.ListComp) and body_reads_every_path(eng, f, [ast.Expr(value=v_.elt)], cc, read_methods, reach) for v_ in bs_):
                        continue
                n_loops += 1
                ok = body_reads_every_path(eng, f, body, cc, read_methods, reach)
                rep.check(ok, "R16.2", f.file, f.qual, "loop over %s" % norm(it, 50), "every iteration performs a guarded read: the loop stops within the remaining input",
                          "trip count comes from the input but an iteration can complete without reading: work/memory is not bounded by the input length")
            # allocations sized by a tainted value
            if isinstance(n, ast.BinOp) and isinstance(n.op, ast.Mult):
                for a, b in ((n.left, n.right), (n.right, n.left)):
                    if isinstance(a, (ast.List, ast.Tuple, ast.Constant)) and (isinstance(a, (ast.List, ast.Tuple)) or isinstance(getattr(a, "value", None), (str, bytes))) and {x.id for x in ast.walk(b) if isinstance(x, ast.Name)} & tainted:
                        rep.violation("R16.2", f.file, f.qual, norm(n, 60), "allocation sized by a decoded length before any element is read: a corrupted prefix allocates up to 2^32 entries")
            if isinstance(n, ast.Call) and (dotted(n.func) or "") in ("bytearray", "bytes", "list") and n.args:
                a0 = n.args[0]
                if isinstance(a0, ast.Name) and a0.id in tainted:
                    rep.violation("R16.2", f.file, f.qual, norm(n, 60), "allocation sized by a decoded length")
                if isinstance(a0, ast.Call) and dotted(a0.func) == "range" and {x.id for x in ast.walk(a0) if isinstance(x, ast.Name)} & tainted:
                    rep.violation("R16.2", f.file, f.qual, norm(n, 60), "materialises range(<decoded length>)")
    rep.floor("R16.2", "loops whose trip count is decoded from the input", n_loops, 1)

    # ---- R16.5: the overrun error reaches decode() ------------------------------------------
    from ..excflow import ExcFlow
    from .C14 import swallow_sites
    xf = ExcFlow(eng, [DEC])
    n_r = 0
    for name, m in cc.ci.methods.items():
        if m.qual not in xf.reach:
            continue
        for n in walk_local(m.node):
            if isinstance(n, ast.Raise):
                n_r += 1
                sw = swallow_sites(eng, xf, m, n, ("ext", ValueError), DEC)
                rep.check(not sw, "R16.5", m.file, m.qual, norm(n, 50), "propagates to decode()'s caller",
                          "the overrun error is caught on the way to decode() (%s): a truncated message is answered with a partial value instead of an error" % (sw[0] if sw else ""))
    # store reads that raise IndexError by themselves (no explicit raise): same question for handlers of IndexError/LookupError
    if n_r == 0:
        rep.undecided("R16.5", cc.ci.file, cc.ci.qual, "overrun raise sites", "no explicit raise in the buffer class")
    # ---- R16.6: bit quantities and byte quantities are not mixed ----------------------------
    units_rule(eng, rep, cc, pr)

    # ---- R16.4 ---------------------------------------------------------------------
    from .codec_py import parser_type_classes, grammar_of
    from ..effects import Unsupported, WordV
    disp = find_dispatcher(eng, DEC)
    n_cnt = 0
    if disp is not None:
        for K in parser_type_classes(eng):
            kn = K.split(".")[-1]
            try:
                effs, it = grammar_of(eng, pr, disp, K, "dec")
            except Unsupported as u:
                rep.undecided("R16.4", disp.file, disp.qual, "Eff_dec(%s)" % kn, "handler outside the supported statement forms: %s" % u)
                continue

            def loops(es):
                for e in es:
                    if e[0] == "loop":
                        yield e
                        yield from loops(e[2])
                    elif e[0] == "if":
                        yield from loops(e[2])
            for lp in loops(effs):
                c = lp[1]
                if isinstance(c, int) or (isinstance(c, tuple) and c and c[0] in ("size", "fields")):
                    continue
                n_cnt += 1
                if isinstance(c, tuple) and c[0] == "var" and isinstance(c[1], WordV):
                    rep.ok("R16.4", disp.file, disp.qual, "Eff_dec(%s): loop count" % kn, "the count is the raw (unsigned) word read from the input")
                    continue
                if isinstance(c, tuple) and c[0] == "mul" and isinstance(c[1], WordV):
                    rep.ok("R16.4", disp.file, disp.qual, "Eff_dec(%s): loop count" % kn, "the count is a multiple of the raw (unsigned) word")
                    continue
                signed = [fmt for kind, fmt, nbytes in it.fmt_pairs if kind == "unpack" and isinstance(fmt, str) and fmt.lstrip("<>=!@")[-1:] in ("b", "h", "i", "l", "q", "n")]
                if signed:
                    rep.violation("R16.4", disp.file, disp.qual, "Eff_dec(%s): loop count via struct.unpack(%r)" % (kn, signed[0]),
                                  "the length prefix is reinterpreted as a signed integer: a corrupted prefix with the top bit set becomes a negative count, the element loop reads nothing and the rest of the message is decoded from the wrong offset without any error")
                else:
                    rep.undecided("R16.4", disp.file, disp.qual, "Eff_dec(%s): loop count %s" % (kn, str(c)[:60]), "count is not the raw word read from the input; conversion not decided")

    # ---- R16.3 ---------------------------------------------------------------------
    dec = prog.func(DEC)
    ctor_local = None
    for cs in cg.sites_in(dec):
        if cs.how == "ctor" and any(c.startswith(q + ".") for c in cs.callees for q in cc.quals):
            ctor_local = cs
    rep.check(ctor_local is not None, "R16.3", dec.file, dec.qual, "%s()" % cc.ci.name, "a fresh buffer per call", "decode does not create its buffer per call: bytes of an earlier, longer message remain readable behind a shorter input")
    if ctor_local is not None:
        defs = Defs(dec.node)
        bname = None
        for nm, bs in defs.binds.items():
            if any(v is ctor_local.node for k, v, st in bs):
                bname = nm
        dparam = dec.params[-1].arg
        # what is put into the store: only the `data` parameter, through one call
        feeds = []
        for n in walk_local(dec.node):
            if isinstance(n, ast.Call) and isinstance(n.func, ast.Attribute) and isinstance(n.func.value, ast.Name) and n.func.value.id == bname and n.func.attr not in read_methods:
                feeds.append(n)
        fed = [c for c in feeds if any(isinstance(x, ast.Name) and x.id == dparam for a in c.args for x in ast.walk(a))]
        ctor_fed = any(isinstance(x, ast.Name) and x.id == dparam for a in list(ctor_local.node.args) + [k.value for k in ctor_local.node.keywords] for x in ast.walk(a))
        if ctor_fed and not feeds:
            # the input is handed to the constructor: its __init__ must fill the store from that parameter and leave the cursor at 0
            rq = next((q for q in cc.quals if any(c.startswith(q + ".") for c in ctor_local.callees)), None)
            rinit = prog.classes[rq].methods.get("__init__") if rq else None
            okf = False
            if rinit is not None and len(rinit.params) >= 2:
                ip = rinit.params[1].arg
                uses = [n for n in walk_local(rinit.node) if isinstance(n, (ast.Assign, ast.AnnAssign, ast.Expr)) and any(isinstance(x, ast.Name) and x.id == ip for x in ast.walk(n))]
                zero = any(isinstance(n, (ast.Assign, ast.AnnAssign)) and norm(n.targets[0] if isinstance(n, ast.Assign) else n.target) == cc.C and isinstance(n.value, ast.Constant) and n.value.value == 0 for n in walk_local(rinit.node))
                okf = len(uses) == 1 and zero
            if okf:
                rep.ok("R16.3", dec.file, dec.qual, norm(ctor_local.node, 60), "the reader is constructed from the input: its constructor fills the store once from that argument and starts the cursor at 0")
            else:
                rep.undecided("R16.3", dec.file, dec.qual, norm(ctor_local.node, 60), "the input is handed to the buffer's constructor; how it fills the store is not in a recognised form")
            return
        rep.check(len(fed) == 1 and len(feeds) == 1, "R16.3", dec.file, dec.qual, norm(fed[0], 60) if fed else "buffer fill", "the store is filled once, from the input", "the decode buffer is not filled exactly once from the input bytes")
        resets = [n for n in walk_local(dec.node) if isinstance(n, ast.Assign) and norm(n.targets[0]) == "%s.%s" % (bname, cc.cursor)]
        init0 = True  # __init__ sets cursor 0 (by construction of CursorClass)
        fill_advances = bool(fed) and fed[0].func.attr in ({n for n in pr.word_prims} | set(cc.ci.methods)) and method_advances(eng, cc, pr, fed[0].func.attr)
        if fill_advances:
            okr = any(isinstance(n.value, ast.Constant) and n.value.value == 0 for n in resets)
            # reset must come after the fill and before the first decode call
            rep.check(okr, "R16.3", dec.file, dec.qual, "%s.%s = 0" % (bname, cc.cursor), "cursor rewound after filling", "filling the buffer advances the cursor and it is not reset to 0 before decoding: decoding starts past the data")
        else:
            rep.ok("R16.3", dec.file, dec.qual, "cursor starts at 0", "fill does not move the cursor")


def method_advances(eng, cc, pr, name: str, depth: int = 0) -> bool:
    m = cc.ci.methods.get(name)
    if m is None or depth > 3:
        return False
    if cc.cursor_writes(m):
        return True
    return any(method_advances(eng, cc, pr, c.func.attr, depth + 1) for c in cc.self_calls(m))


def units_rule(eng, rep, cc, pr) -> None:
    """A small units-of-measure check over the buffer class: 'bit' for the cursor, bit addresses and word widths,
    'byte' for len(store), byte indices and byte counts; `>> 3` / `// 8` turn bits into bytes, `* 8` / `<< 3` bytes into bits;
    `& 7` / `% 8` of bits is bits.  A comparison, sum or cursor update that mixes the two is reported."""
    from ..dataflow import deep_resolve
    S, C = cc.S, cc.C

    for name, m in cc.ci.methods.items():
        ps = [p.arg for p in m.params][1:]
        punit = {}
        if name in pr.word_prims:
            kind, idx = pr.word_prims[name]
            if idx < len(ps):
                punit[ps[idx]] = "bit"
        if name in getattr(pr, "byte_prims", {}):
            kind, idx = pr.byte_prims[name]
            if idx < len(ps) and kind == "read":
                punit[ps[idx]] = "byte"
        if m in (pr.bit_get, pr.bit_set) and ps:
            punit[ps[-1] if m is pr.bit_set else ps[0]] = "bit"

        def unit(e):
            if isinstance(e, ast.Constant):
                return None
            t = norm(e)
            if t == C:
                return "bit"
            if t == "len(%s)" % S:
                return "byte"
            if isinstance(e, ast.Name):
                return punit.get(e.id)
            if isinstance(e, ast.BinOp):
                l, r = unit(e.left), unit(e.right)
                rc = e.right.value if isinstance(e.right, ast.Constant) and isinstance(e.right.value, int) else None
                lc = e.left.value if isinstance(e.left, ast.Constant) and isinstance(e.left.value, int) else None
                if isinstance(e.op, (ast.RShift, ast.FloorDiv)) and ((isinstance(e.op, ast.RShift) and rc == 3) or (isinstance(e.op, ast.FloorDiv) and rc == 8)):
                    return "byte" if l == "bit" else (None if l is None else "byte/8?")
                if (isinstance(e.op, ast.LShift) and rc == 3) or (isinstance(e.op, ast.Mult) and (rc == 8 or lc == 8)):
                    u = l if rc is not None else r
                    return "bit" if u == "byte" else (None if u is None else "bit*8?")
                if isinstance(e.op, (ast.BitAnd, ast.Mod)) and ((isinstance(e.op, ast.BitAnd) and rc == 7) or (isinstance(e.op, ast.Mod) and rc == 8)):
                    return "bit" if l == "bit" else None
                if isinstance(e.op, (ast.Add, ast.Sub)):
                    if l and r and l != r and "?" not in l + r:
                        mixes.append((e, l, r))
                        return None
                    return l or r
                return None
            return None

        mixes = []
        for n in walk_local(m.node):
            if isinstance(n, ast.Compare) and len(n.ops) == 1 and isinstance(n.ops[0], (ast.Lt, ast.LtE, ast.Gt, ast.GtE, ast.Eq, ast.NotEq)):
                l, r = unit(deep_resolve(m.node, n.left)), unit(deep_resolve(m.node, n.comparators[0]))
                if l and r and l != r and "?" not in l + r:
                    mixes.append((n, l, r))
            elif isinstance(n, ast.AugAssign) and norm(n.target) == C and isinstance(n.op, (ast.Add, ast.Sub)):
                r = unit(deep_resolve(m.node, n.value))
                if r == "byte":
                    mixes.append((n, "bit", r))
            elif isinstance(n, ast.Assign) and any(norm(t) == C for t in n.targets):
                r = unit(deep_resolve(m.node, n.value))
                if r == "byte":
                    mixes.append((n, "bit", r))
            elif isinstance(n, ast.BinOp):
                unit(deep_resolve(m.node, n))
        seen = set()
        for n, l, r in mixes:
            k = norm(n, 80)
            if k in seen:
                continue
            seen.add(k)
            rep.violation("R16.6", m.file, m.qual, k, "a quantity in %ss is combined with a quantity in %ss: the bound is off by a factor of eight (e.g. a count of bytes compared with the number of bits left: a short input passes the test)" % (l, r))
    rep.ok("R16.6", cc.ci.file, cc.ci.qual, "%d methods of the buffer class" % len(cc.ci.methods), "bit and byte quantities are not mixed in the recognised expressions") if not any(o["rule"] == "R16.6" and o["verdict"] == "violation" for o in rep.obls) else None


def _byte_form(e: ast.AST, C: str):
    """e  ==  (lin >> 3) + k   ->  (lin form with the cursor named 'cursor', k) ; None when not of that shape"""
    k = 0
    while isinstance(e, ast.BinOp) and isinstance(e.op, (ast.Add, ast.Sub)) and isinstance(e.right, ast.Constant) and isinstance(e.right.value, int):
        k += e.right.value if isinstance(e.op, ast.Add) else -e.right.value
        e = e.left
    inner = byte_index_of(e)
    if inner is None:
        return None
    l = lin(inner, {C: "cursor"})
    return None if l is None else (l, k)


def slice_guard_gap(m: FuncInfo, cfg, rn, S: str, C: str, upper: ast.AST):
    """A raising test `G > len(store)` (or >=) dominates the slice store[a:U].  Compare U with G in the form
    (linear >> 3) + k:  -> 'covers' (U <= G whenever the test passes), a str describing a definite shortfall
    (U can exceed G by one while the test admits G == len), or None (not decided)."""
    from ..dataflow import deep_resolve
    U = _byte_form(deep_resolve(m.node, upper), C)
    if U is None:
        return None
    for n in walk_local(m.node):
        if not (isinstance(n, ast.If) and is_terminating(n.body) and any(isinstance(x, ast.Raise) for x in n.body) and isinstance(n.test, ast.Compare) and len(n.test.ops) == 1):
            continue
        l, op, r = n.test.left, n.test.ops[0], n.test.comparators[0]
        lenS = "len(%s)" % S
        if norm(r) == lenS and isinstance(op, (ast.Gt, ast.GtE)):
            g, strict = l, isinstance(op, ast.Gt)
        elif norm(l) == lenS and isinstance(op, (ast.Lt, ast.LtE)):
            g, strict = r, isinstance(op, ast.Lt)
        else:
            continue
        tn = cfg.node_for(n)
        if tn is None or rn is None or not cfg.every_path_passes(rn, {tn}):
            continue
        G = _byte_form(deep_resolve(m.node, g), C)
        if G is None:
            continue
        (lu, ku), (lg, kg) = U, G
        d = {k: lu.get(k, 0) - lg.get(k, 0) for k in set(lu) | set(lg)}
        if any(v != 0 for k, v in d.items() if k != ""):
            continue
        c = d.get("", 0)           # inner constants differ by c (in bits)
        # U - G  is in  [floor(c/8), ceil(c/8)] + (ku - kg)
        lo = (c // 8) + (ku - kg)
        hi = -((-c) // 8) + (ku - kg)
        admits = 0 if strict else -1   # the test passes for G <= len (strict) or G <= len - 1
        if hi + admits <= 0:
            return "covers"
        return "the bounds test compares %s with len(store) but the slice runs to %s, which can be %s larger: when the tested bound equals the buffer length the slice is silently cut short (the word's top bits read as 0)" % (norm(g, 40), norm(upper, 40), "one" if hi + admits == 1 else str(hi + admits))
    return None


def in_indexerror_try(m: FuncInfo, node: ast.AST) -> bool:
    """node sits in the body of a try whose handler for IndexError (or broader) ends by raising"""
    for t in walk_local(m.node):
        if isinstance(t, ast.Try) and any(x is node for b in t.body for x in ast.walk(b)):
            for h in t.handlers:
                ht = norm(h.type) if h.type is not None else "BaseException"
                if any(k in ht for k in ("IndexError", "LookupError", "Exception")) and h.body and isinstance(h.body[-1], ast.Raise):
                    return True
    return False


def slice_length_checked(m: FuncInfo, r: ast.Subscript, defs: Defs) -> bool:
    """`x = store[a:b]` followed by `if len(x) != n / < n: raise`"""
    for k, v, st in [(k, v, st) for name, bs in defs.binds.items() for (k, v, st) in bs if v is r]:
        tgt = st.targets[0] if isinstance(st, ast.Assign) and len(st.targets) == 1 else None
        if not isinstance(tgt, ast.Name):
            continue
        for n in walk_local(m.node):
            if isinstance(n, ast.If) and is_terminating(n.body) and any(isinstance(x, ast.Raise) for x in n.body) and isinstance(n.test, ast.Compare) and len(n.test.ops) == 1 \
                    and isinstance(n.test.ops[0], (ast.NotEq, ast.Lt)) and norm(n.test.left) == "len(%s)" % tgt.id:
                return True
    return False


def some_len_guard(m: FuncInfo, cfg, rn, S: str) -> bool:
    """a raising test that mentions len(store) dominates rn (its sufficiency is arithmetic and not decided)"""
    for n in walk_local(m.node):
        if isinstance(n, ast.If) and is_terminating(n.body) and any(isinstance(x, ast.Raise) for x in n.body) and ("len(%s)" % S) in norm(n.test, 300):
            tn = cfg.node_for(n)
            if tn is not None and rn is not None and cfg.every_path_passes(rn, {tn}):
                return True
    return False


def guard_dominates(eng, m: FuncInfo, cfg, rn, S: str, idx: ast.AST, defs: Defs, slice_upper: bool = False):
    """True if a raising `idx >= len(S)` test dominates node rn; a str = definite problem; None = none found"""
    if rn is None:
        return None
    idx_txt = norm(idx)
    found = None
    for n in walk_local(m.node):
        if not isinstance(n, ast.If) or not is_terminating(n.body) or not any(isinstance(x, ast.Raise) for x in n.body):
            continue
        t = n.test
        if not (isinstance(t, ast.Compare) and len(t.ops) == 1):
            continue
        l, op, r = t.left, t.ops[0], t.comparators[0]
        ltxt, rtxt = norm(l), norm(r)
        lenS = "len(%s)" % S
        if ltxt == lenS and rtxt == idx_txt:
            tt = ordering_truth(op, True)
        elif rtxt == lenS and ltxt == idx_txt:
            tt = ordering_truth(op, False)
        else:
            continue
        tn = cfg.node_for(n)
        if tn is None or not cfg.every_path_passes(rn, {tn}):
            continue
        want = (False, False, True) if slice_upper else (False, True, True)  # slice upper bound may equal len
        if tt == want or (slice_upper and tt == (False, False, True)):
            return True
        if tt is not None:
            found = "bounds test `%s` raises for orderings %s of (index<len, index==len, index>len); it must raise exactly for index >= len (off by one: the byte just past the input is read)" % (norm(t, 50), tt)
    return found


def tainted_names(eng, f: FuncInfo, cc, read_methods) -> Set[str]:
    """Local names holding a value decoded from the input (result of a read method / a decode handler)."""
    cg = eng.cg
    out: Set[str] = set()
    defs = Defs(f.node)
    changed = True
    while changed:
        changed = False
        for name, bs in defs.binds.items():
            if name in out:
                continue
            for k, v, st in bs:
                if v is None or k == "iter":
                    continue
                hit = False
                for c in ast.walk(v):
                    if isinstance(c, ast.Call):
                        if isinstance(c.func, ast.Attribute) and c.func.attr in read_methods:
                            hit = True
                        cs = cg.site_of.get(id(c))
                        if cs and any(q.startswith("fcp.serde._decode") for q in cs.callees):
                            hit = True
                    if isinstance(c, ast.Name) and c.id in out:
                        hit = True
                if hit:
                    out.add(name)
                    changed = True
    return out


def body_reads_every_path(eng, f: FuncInfo, body, cc, read_methods, reach) -> bool:
    """Every path through `body` performs a call that (transitively) reads through a guarded method."""
    cg = eng.cg
    # functions that certainly read: read methods, and functions whose every path calls one
    def call_reads(c: ast.Call) -> bool:
        if isinstance(c.func, ast.Attribute) and c.func.attr in read_methods:
            return True
        cs = cg.site_of.get(id(c))
        if cs:
            for q in cs.callees:
                if q.startswith("fcp.serde._decode"):
                    return True
        return False
    def stmt_reads(st) -> bool:
        if any(isinstance(c, ast.Call) and call_reads(c) for c in ast.walk(st)):
            return True
        # a direct (subscript) read of the store is a read too; whether it is bounds-tested is R16.1's concern
        return any(isinstance(c, ast.Subscript) and isinstance(c.ctx, ast.Load) and norm(c.value) == cc.S for c in ast.walk(st))

    def always(stmts) -> Optional[bool]:
        """True: every path through stmts reads; False: some path leaves/finishes without reading."""
        for st in stmts:
            if isinstance(st, ast.If):
                if stmt_reads(ast.Expr(value=st.test)):
                    return True
                a = always(st.body)
                b = always(st.orelse) if st.orelse else None
                if a is True and b is True:
                    return True
                for br, res in ((st.body, a), (st.orelse, b)):
                    if br and res is not True and isinstance(br[-1], (ast.Continue, ast.Break, ast.Return)):
                        return False
                continue
            if isinstance(st, (ast.Continue, ast.Break, ast.Return)):
                return stmt_reads(st) if isinstance(st, ast.Return) else False
            if isinstance(st, (ast.For, ast.While, ast.Try, ast.With)):
                if isinstance(st, ast.With) and always(st.body) is True:
                    return True
                continue
            if stmt_reads(st):
                return True
        return None

    return always(body) is True
