"""C07 - parsing is the inverse of printing (narrow: grammar <-> transformer agreement).

R07.1 every grammar rule has a semantic action; its destructuring fits every child sequence the rule produces
R07.2 each child flows to the constructor parameter the frozen child->attribute map names
R07.3 leaf conversions (identifier, string, number, value pass-through) and the field-parameter table
R07.4 one default binding per struct on the success path; declaration lists are only appended to
R07.5 %ignore covers space, tab, newline and both comment forms, and no ignored terminal is greedy
R07.6 discriminators on mixed children partition the child kinds
"""

from __future__ import annotations

import ast
import re
from typing import Dict, List, Optional, Set, Tuple

from ..front_py import AnalysisError, FuncInfo, walk_local, norm, dotted
from ..dataflow import Defs, stores_in
from ..front_lark import Grammar
from ..callbacks import callbacks, transformer_class, Callback, callback_returns_result

S = "fcp.specs."
# rule -> (class, {ctor parameter: child spec})   child spec: ('idx', i) | ('rest', i) | ('restdict', i) | ('const', v) | ('same', 'param')
CHILD_MAP = {
    "struct": (S + "struct.Struct", {"name": ("idx", 0), "fields": ("rest", 1)}),
    "struct_field": (S + "struct_field.StructField", {"name": ("idx", 0), "field_id": ("idx", 1), "type": ("idx", 2)}),
    "enum": (S + "enum.Enum", {"name": ("idx", 0), "enumeration": ("rest", 1)}),
    "enum_field": (S + "enum.Enumeration", {"name": ("idx", 0), "value": ("idx", 1)}),
    "signal_block": (S + "signal_block.SignalBlock", {"name": ("idx", 0), "fields": ("restdict", 1)}),
    "service": (S + "service.Service", {"name": ("idx", 0), "id": ("idx", 1), "methods": ("rest", 2)}),
    "method": (S + "method.Method", {"name": ("idx", 0), "input": ("idx", 1), "id": ("idx", 2), "output": ("idx", 3)}),
    "device": (S + "device.Device", {"name": ("idx", 0), "fields": ("restdict", 1)}),
}
PASS_THROUGH = ("value", "type", "param_argument")


def ctor_params(eng, cq: str) -> List[str]:
    ci = eng.prog.classes[cq]
    init = eng.prog.find_method(ci, "__init__")
    if init is not None and init.cls.qual.startswith("fcp."):
        return [p.arg for p in init.params][1:]
    return list(ci.field_order)


def arg_for(call: ast.Call, params: List[str], name: str) -> Optional[ast.AST]:
    for k in call.keywords:
        if k.arg == name:
            return k.value
    if name in params and params.index(name) < len(call.args):
        return call.args[params.index(name)]
    return None


def child_of(cb: Callback, e: ast.AST, defs: Defs, depth: int = 0) -> Optional[Tuple[str, int]]:
    """Which child (or rest) does expression e denote, possibly through wrappers that keep the value
    (.attempt(), map_err(...), unwrap(), dict(...), comprehension over the rest)?"""
    r = cb.child_expr_index(e)
    if r is not None:
        return r
    if depth > 4:
        return None
    if isinstance(e, ast.Call):
        if isinstance(e.func, ast.Attribute) and e.func.attr in ("attempt", "unwrap", "map_err"):
            return child_of(cb, e.func.value, defs, depth + 1)
        if dotted(e.func) in ("str", "cast") and e.args:
            return child_of(cb, e.args[-1], defs, depth + 1)
        if dotted(e.func) in ("dict", "list", "tuple") and e.args:
            r = child_of(cb, e.args[0], defs, depth + 1)
            return ("restdict", r[1]) if r and r[0] == "rest" and dotted(e.func) == "dict" else r
    if isinstance(e, (ast.ListComp, ast.DictComp)) and len(e.generators) == 1:
        r = child_of(cb, e.generators[0].iter, defs, depth + 1)
        if r and r[0] == "rest":
            return ("restdict", r[1]) if isinstance(e, ast.DictComp) else r
    if isinstance(e, ast.Name):
        vals = [v for k, v, st in defs.values(e.id) if k == "assign" and v is not None]
        # acc = []; for x in <rest>: acc.append(<x through value-keeping wrappers>)   ==  [.. for x in <rest>]
        if len(vals) == 1 and isinstance(vals[0], ast.List) and not vals[0].elts:
            for n in ast.walk(defs.fn):
                if isinstance(n, ast.For) and isinstance(n.target, ast.Name):
                    apps = [c for c in ast.walk(n) if isinstance(c, ast.Call) and isinstance(c.func, ast.Attribute) and c.func.attr == "append" and isinstance(c.func.value, ast.Name) and c.func.value.id == e.id and len(c.args) == 1]
                    if len(apps) == 1:
                        elem = apps[0].args[0]
                        cur = elem
                        while isinstance(cur, ast.Call) and isinstance(cur.func, ast.Attribute) and cur.func.attr in ("attempt", "unwrap", "map_err"):
                            cur = cur.func.value
                        if isinstance(cur, ast.Name) and cur.id == n.target.id:
                            r = child_of(cb, n.iter, defs, depth + 1)
                            if r and r[0] == "rest":
                                return r
        if len(vals) >= 1:
            # e.g. fields = fields[1:]; fields = [f for f in fields if ...]  (a filtered rest stays a rest)
            rs = {child_of(cb, v, defs, depth + 1) for v in vals if not (isinstance(v, ast.Name) and v.id == e.id)}
            rs.discard(None)
            if len(rs) == 1:
                return rs.pop()
    if isinstance(e, ast.Subscript) and isinstance(e.slice, ast.Slice):
        r = child_of(cb, e.value, defs, depth + 1)
        if r and r[0] == "rest" and isinstance(e.slice.lower, ast.Constant):
            return ("rest", r[1] + e.slice.lower.value)
    return None


def run(eng, rep) -> None:
    prog, cg = eng.prog, eng.cg
    rep.explanation = (
        "The grammar is extracted from parser.py and loaded as data; for each rule the regular language of kept child kinds is computed and "
        "compared with how the rule's semantic action destructures its children, and each constructor argument is traced back (def-use) to the "
        "child the frozen child->attribute map names. Leaf conversions, the field-parameter table, the default binding and the %ignore set are "
        "checked structurally. This decides that the tree is built from the right parts of the parse; it does not decide Earley ambiguity "
        "resolution nor the print->parse direction (there is no printer in the repository)."
    )
    rep.rule("R07.1", "every rule has an action whose destructuring fits every child sequence of the rule")
    rep.rule("R07.2", "constructor parameters are fed from the children the child->attribute map names")
    rep.rule("R07.3", "leaf conversions and the field-parameter table (unit->unit[0]; range->min[0],max[1]; each entry sets only its own keys)")
    rep.rule("R07.4", "exactly one default binding per struct on the success path; declaration lists only appended to")
    rep.rule("R07.5", "%ignore = space, tab, newline, comments; ignored terminals are not greedy")
    rep.rule("R07.7", "optional numeric parameters (range bounds, ...) are compared with None, never tested by truth value")
    rep.rule("R07.6", "discriminators used on mixed children separate the child kinds")
    rep.rule("R07.9", "every step of a table of field-annotation handlers builds on the annotations accumulated so far")
    from .lints import fold_step_drops_accumulator
    fold_step_drops_accumulator(eng, rep, "R07.9", ("fcp.parser", "fcp.specs"), "a unit written before a range (or the other way round) is lost from the schema")
    rep.rule("R07.8", "a record built positionally from variables named like its own fields gets each in the position of the field of that name")
    from .lints import swapped_record_args
    swapped_record_args(eng, rep, "R07.8", ("fcp.parser", "fcp.specs"), "the values of the two fields are exchanged in every object built here, so the schema says something else than the source text")
    rep.assume("Earley ambiguity resolution (e.g. `param` with optional parentheses), numeric literal forms accepted by SIGNED_NUMBER, print->parse direction")
    r077(eng, rep)
    g = Grammar(prog)
    cbs = callbacks(eng, g)
    tcls = transformer_class(eng)
    rep.floor("R07.1", "grammar rules", len(g.user_rules), 20)
    for rule in g.user_rules:
        cb = cbs.get(rule)
        if cb is None:
            rep.violation("R07.1", tcls.file, tcls.qual, "rule %s" % rule, "grammar rule has no semantic action: its subtree stays a raw lark Tree inside the schema")
            continue
        seqs = g.child_sequences(rule)
        if not seqs:
            continue
        lens = sorted({len(s) for s in seqs})
        f = cb.f
        if cb.n_fixed is not None:
            if cb.has_star:
                okd = cb.n_fixed <= min(lens)
                rep.check(okd, "R07.1", f.file, f.qual, "destructuring of %s (%d fixed + rest) vs child counts %s.." % (rule, cb.n_fixed, lens[:3]), "fits every production", "the action unpacks %d leading children but the rule can produce only %d" % (cb.n_fixed, min(lens)))
            else:
                okd = lens == [cb.n_fixed] or (min(lens) == max(lens) == cb.n_fixed)
                unbounded = len(lens) > 1
                rep.check(okd and not unbounded, "R07.1", f.file, f.qual, "destructuring of %s (%d names) vs child counts %s" % (rule, cb.n_fixed, lens[:4]), "fits every production", "the action unpacks exactly %d children but the rule produces %s" % (cb.n_fixed, lens[:4]))
        for sub, idx in cb.index_uses:
            if isinstance(idx, int) and idx >= 0:
                rep.check(idx < min(lens) or (rule in ("array_type",) and idx < max(lens)), "R07.1", f.file, f.qual, "%s in %s" % (norm(sub), rule), "index exists in every production", "child index %d does not exist in every production of %s (min %d children)" % (idx, rule, min(lens)))
    for name in cbs:
        if name not in g.rules and name not in ("transform",):
            rep.info("R07.1", cbs[name].f.file, cbs[name].f.qual, "action %s" % name, "no grammar rule of this name (dead action)")

    # ---- R07.2 -----------------------------------------------------------------------
    for rule, (cq, cmap) in CHILD_MAP.items():
        cb = cbs.get(rule)
        if cb is None:
            continue
        f = cb.f
        defs = Defs(f.node)
        ctor = None
        for n in ast.walk(f.node):
            if isinstance(n, ast.Call):
                r = prog.resolve_expr_symbol(f.module, f, n.func)
                if r and r[0] == "class" and r[1] == cq:
                    ctor = n
        if ctor is None:
            rep.violation("R07.2", f.file, f.qual, "construction of %s" % cq.split(".")[-1], "the action for %s does not build a %s" % (rule, cq.split(".")[-1]))
            continue
        params = ctor_params(eng, cq)
        for pname, want in cmap.items():
            a = arg_for(ctor, params, pname)
            if a is None:
                rep.violation("R07.2", f.file, f.qual, "%s(%s=...)" % (cq.split(".")[-1], pname), "declared %s is not passed to the node: it is dropped from the tree" % pname)
                continue
            got = child_of(cb, a, defs)
            okc = got == want or (want[0] == "restdict" and got == ("rest", want[1]) and ("dict(" in norm(a, 200) or "{" in norm(a, 200))) or (want[0] == "rest" and got == ("restdict", want[1]) and False)
            via_helper = None
            if got is None:
                a_r = a
                if isinstance(a, ast.Name):
                    vs_ = [v for k, v, st in defs.values(a.id) if k == "assign" and v is not None]
                    a_r = vs_[0] if len(vs_) == 1 else a
                if isinstance(a_r, ast.Call):
                    cs_ = cg.site_of.get(id(a_r))
                    if cs_ and cs_.callees and cs_.how in ("direct", "method") and all(prog.functions[c_].module.name.startswith("fcp.parser") for c_ in cs_.callees if c_ in prog.functions) \
                            and any(child_of(cb, x_, defs) is not None for x_ in a_r.args):
                        via_helper = cs_.callees[0]
            if via_helper is not None:
                rep.undecided("R07.2", f.file, f.qual, "%s.%s <- %s" % (cq.split(".")[-1], pname, norm(a, 50)), "the child is handed to helper %s whose result becomes the attribute; not followed" % via_helper)
            elif got is None:
                rep.violation("R07.2", f.file, f.qual, "%s.%s <- %s" % (cq.split(".")[-1], pname, norm(a, 50)),
                              "attribute '%s' is not the child %s passed through unchanged (it is computed by an expression that is not a recognised value-preserving form): the tree is not a faithful image of the source" % (pname, want))
            else:
                rep.check(okc, "R07.2", f.file, f.qual, "%s.%s <- child %s" % (cq.split(".")[-1], pname, got), "= %s per the child->attribute map" % (want,), "attribute '%s' is fed from child %s, the grammar puts it at %s" % (pname, got, want))
        # meta passed
        a = arg_for(ctor, params, "meta")
        if "meta" in params:
            rep.check(a is not None and "_get_meta" in norm(a, 80) or (isinstance(a, ast.Name) and any("_get_meta" in norm(v, 80) for k, v, st in defs.values(a.id) if v is not None)), "R07.2", f.file, f.qual, "%s.meta" % cq.split(".")[-1], "position of the declaration", "node is built without its source position")
    r072_impl(eng, rep, cbs, g)
    r073(eng, rep, cbs)
    r074(eng, rep, cbs, tcls)
    r075(eng, rep, g)


def r072_impl(eng, rep, cbs, g) -> None:
    """impl: [protocol, type, optional name, (extension_field | signal_block)+]"""
    prog = eng.prog
    cb = cbs.get("impl")
    if cb is None:
        return
    f = cb.f
    defs = Defs(f.node)
    ctor = None
    for n in ast.walk(f.node):
        if isinstance(n, ast.Call):
            r = prog.resolve_expr_symbol(f.module, f, n.func)
            if r and r[0] == "class" and r[1] == S + "impl.Impl":
                ctor = n
    if ctor is None:
        rep.violation("R07.2", f.file, f.qual, "construction of Impl", "the action for impl does not build an Impl")
        return
    params = ctor_params(eng, S + "impl.Impl")
    for pname, want in (("protocol", ("idx", 0)), ("type", ("idx", 1))):
        a = arg_for(ctor, params, pname)
        got = child_of(cb, a, defs) if a is not None else None
        rep.check(got == want, "R07.2", f.file, f.qual, "Impl.%s <- child %s" % (pname, got), "= %s" % (want,), "binding attribute '%s' is fed from child %s, the grammar puts it at %s" % (pname, got, want))
    # name: third identifier when present, else the type
    a = arg_for(ctor, params, "name")
    okn = None
    if isinstance(a, ast.Name):
        vals = [norm(v, 60) for k, v, st in defs.values(a.id) if v is not None]
        tname = [k for k, v in cb.binds.items() if v == ("idx", 1)]
        rest = [k for k, v in cb.binds.items() if v[0] == "rest"]
        from_type = bool(tname) and tname[0] in vals
        from_rest = any(rest and v.startswith(rest[0]) and (v.endswith("[0]") or v.endswith(".pop(0)")) for v in vals)
        okn = True if (from_type and from_rest) else (False if (vals and not from_rest and len(vals) == 1) or (vals and not from_type and not any(rest and rest[0] in v for v in vals)) else None)
    if okn is None:
        rep.undecided("R07.2", f.file, f.qual, "Impl.name <- optional third identifier, else the type name", "binding of the name not in a recognised form")
    else:
        rep.check(okn, "R07.2", f.file, f.qual, "Impl.name <- optional third identifier, else the type name", "renamed bindings keep their name; others are named after the struct", "binding name is not (optional `as` identifier, default: type name)")
    # fields / signals partition the rest
    fa, sa = arg_for(ctor, params, "fields"), arg_for(ctor, params, "signals")
    rep.check(fa is not None and sa is not None, "R07.2", f.file, f.qual, "Impl.fields / Impl.signals", "extension fields and signal blocks are both kept", "extension fields or signal blocks are dropped from the binding")
    if fa is None or sa is None:
        return
    # each of the two is a *filter* of the remaining children by kind: the grammar admits
    # (extension_field | signal_block)+ in any order, so a prefix/suffix/positional selection loses children
    preds = {}
    for n in f.node.body:
        if isinstance(n, ast.FunctionDef) and len(n.body) >= 1 and isinstance(n.body[-1], ast.Return):
            rv = n.body[-1].value
            if isinstance(rv, ast.Call) and dotted(rv.func) == "isinstance" and len(rv.args) == 2 and len(n.args.args) == 1 and norm(rv.args[0]) == n.args.args[0].arg:
                preds[n.name] = norm(rv.args[1]).split(".")[-1]

    def last_def(name, before):
        cands = [(st.lineno, v, st) for k, v, st in defs.values(name) if v is not None and st.lineno < before]
        if not cands:
            return None
        ln, v, st = max(cands, key=lambda c: c[0])
        if not any(st is b for b in f.node.body):
            return None  # conditional binding is the latest: not decided here
        return v

    # a named tuple class the extension-field action returns counts as the tuple kind
    tuple_alias = set()
    cef = cbs.get("extension_field")
    rt_ef = eng.T.return_type(cef.f) if cef else None
    if rt_ef is not None and rt_ef[0] == "inst" and rt_ef[1] in eng.prog.classes and any(str(b).split(".")[-1] == "NamedTuple" for b in eng.prog.classes[rt_ef[1]].bases):
        tuple_alias.add(eng.prog.classes[rt_ef[1]].name)

    def canon_kind(k):
        return "tuple" if k in tuple_alias else k

    def kinds_of(test, var):
        """kinds selected by a predicate expression over `var` -> (positive?, kind) or None"""
        neg = False
        while isinstance(test, ast.UnaryOp) and isinstance(test.op, ast.Not):
            neg = not neg
            test = test.operand
        if isinstance(test, ast.Call):
            d = dotted(test.func) or ""
            if d == "isinstance" and len(test.args) == 2 and norm(test.args[0]) == var:
                return (not neg, canon_kind(norm(test.args[1]).split(".")[-1]))
            if d in preds and len(test.args) == 1 and norm(test.args[0]) == var:
                return (not neg, canon_kind(preds[d]))
        return None

    def classify(e, want_kind, depth=0):
        """-> ('ok'|'violation'|'undecided', detail)"""
        while isinstance(e, ast.Call) and (dotted(e.func) or "") in ("dict", "list", "tuple") and len(e.args) == 1:
            e = e.args[0]
        if isinstance(e, ast.Name) and depth < 3:
            v = last_def(e.id, ctor.lineno)
            if v is None:
                return "undecided", "binding of %s not resolved" % e.id
            return classify(v, want_kind, depth + 1)
        sel = None
        if isinstance(e, (ast.ListComp, ast.GeneratorExp)) and len(e.generators) == 1 and isinstance(e.generators[0].target, ast.Name):
            gnr = e.generators[0]
            var = gnr.target.id
            if not (isinstance(e.elt, ast.Name) and e.elt.id == var):
                return "undecided", "comprehension transforms its elements"
            if len(gnr.ifs) != 1:
                return ("violation", "all remaining children are taken, whatever their kind") if not gnr.ifs else ("undecided", "several conditions")
            sel = kinds_of(gnr.ifs[0], var)
        elif isinstance(e, ast.Call):
            d = (dotted(e.func) or "").split(".")[-1]
            if d == "filter" and len(e.args) == 2:
                if isinstance(e.args[0], ast.Name) and e.args[0].id in preds:
                    sel = (True, canon_kind(preds[e.args[0].id]))
                else:
                    return "undecided", "filter predicate not resolved"
            elif d in ("takewhile", "dropwhile", "islice"):
                return "violation", "%s(...) selects a prefix/suffix of the children, not every child of the kind: the grammar allows extension fields and signal blocks in any order, so those after the first child of the other kind are dropped" % d
            else:
                return "undecided", "built by %s" % norm(e, 40)
        elif isinstance(e, ast.Subscript) and isinstance(e.slice, ast.Slice):
            return "undecided", "positional slice %s of the children" % norm(e, 40)
        else:
            return "undecided", "not a filter of the children in a recognised form: %s" % norm(e, 50)
        if sel is None:
            return "undecided", "selection predicate not resolved"
        pos, kind = sel
        kinds = {"tuple", "SignalBlock"}
        chosen = {kind} & kinds if pos else kinds - {kind}
        if chosen == {want_kind}:
            return "ok", "every child of kind %s" % want_kind
        return "violation", "selects children of kind %s, the attribute holds kind %s" % (sorted(chosen) or [kind], want_kind)

    for pname, a, want_kind in (("fields", fa, "tuple"), ("signals", sa, "SignalBlock")):
        v, detail = classify(a, want_kind)
        (rep.ok if v == "ok" else rep.violation if v == "violation" else rep.undecided)("R07.2", f.file, f.qual, "Impl.%s <- %s" % (pname, norm(a, 40)), detail)
    # R07.6 discriminators
    import re as _re
    txt = norm(f.node, 6000)
    tested = {canon_kind(m_.group(1).split(".")[-1]) for m_ in _re.finditer(r"isinstance\([^,()]+(?:\[[^\]]*\])?, ([\w\.]+)\)", txt)}
    # the callbacks' result types: identifier -> str, extension_field -> tuple, signal_block -> SignalBlock
    rt = {}
    for r_ in ("identifier", "extension_field", "signal_block"):
        c = cbs.get(r_)
        rt[r_] = eng.T.return_type(c.f) if c else None
    okp = rt.get("identifier") == ("prim", "str") and rt.get("extension_field") is not None and (rt["extension_field"][0] == "tuple" or bool(tuple_alias)) and rt.get("signal_block") == ("inst", S + "signal_block.SignalBlock")
    site = "discriminators %s" % sorted(tested)
    if not okp:
        rep.violation("R07.6", f.file, f.qual, site, "the tests used to tell the optional name, extension fields and signal blocks apart do not match the result types of their actions")
    elif {"str", "SignalBlock"} <= tested and tested <= {"str", "SignalBlock", "tuple"}:
        rep.ok("R07.6", f.file, f.qual, site, "child kinds (str / tuple / SignalBlock) are disjoint and each is tested by its own type")
    elif tested - {"str", "SignalBlock", "tuple"}:
        rep.violation("R07.6", f.file, f.qual, site, "the tests used to tell the optional name, extension fields and signal blocks apart do not match the result types of their actions")
    else:
        rep.undecided("R07.6", f.file, f.qual, site, "not every child kind is told apart by an isinstance test in a recognised form")


def r073(eng, rep, cbs) -> None:
    prog = eng.prog
    # leaf conversions
    def ret_exprs(cb):
        return [n.value for n in walk_local(cb.f.node) if isinstance(n, ast.Return) and n.value is not None]
    cb = cbs.get("identifier")
    if cb:
        r = ret_exprs(cb)
        rep.check(len(r) == 1 and norm(r[0]) in ("str(args[0].value)", "args[0].value", "str(args[0])"), "R07.3", cb.f.file, cb.f.qual, "identifier -> %s" % (norm(r[0], 40) if r else "-"), "the identifier's text", "identifier is not converted to exactly its text")
    cb = cbs.get("string")
    if cb:
        r = ret_exprs(cb)
        t = norm(r[0], 80) if r else ""
        if ".strip(" in t or ".replace(" in t or ".lstrip(" in t or ".rstrip(" in t:
            rep.violation("R07.3", cb.f.file, cb.f.qual, "string -> %s" % t, "quotes are removed with strip/replace: quotes that belong to the text (an escaped quote at either end) are removed too")
        else:
            rep.check("[1:-1]" in t and "args[0]" in t, "R07.3", cb.f.file, cb.f.qual, "string -> %s" % t, "text between the delimiting quotes", "string literal is not converted to the text between its two delimiters")
    cb = cbs.get("number")
    if cb:
        t = norm(cb.f.node, 600)
        rep.check("int(args[0].value)" in t and "float(args[0].value)" in t and "except ValueError" in t, "R07.3", cb.f.file, cb.f.qual, "number -> int, else float", "integers stay int, others float", "number literals are not converted as int-else-float")
    for r_ in PASS_THROUGH:
        cb = cbs.get(r_)
        if cb:
            r = ret_exprs(cb)
            rep.check(len(r) == 1 and any(norm(r[0]).endswith(x) for x in ("args[0]", "args[0])")), "R07.3", cb.f.file, cb.f.qual, "%s -> %s" % (r_, norm(r[0], 50) if r else "-"), "pass-through of the only child", "%s does not pass its child through unchanged" % r_)
    cb = cbs.get("array")
    if cb:
        r = ret_exprs(cb)
        rep.check(len(r) == 1 and norm(r[0]) in ("args", "list(args)"), "R07.3", cb.f.file, cb.f.qual, "array -> %s" % (norm(r[0], 30) if r else "-"), "all elements in order", "array literal does not keep all its elements in order")
    for r_, pre in (("unsigned_type", "u"), ("signed_type", "i")):
        cb = cbs.get(r_)
        if cb:
            t = norm(cb.f.node, 400)
            rep.check(("'%s' + ''.join(args)" % pre) in t, "R07.3", cb.f.file, cb.f.qual, "%s -> '%s' + digits" % (r_, pre), "width digits kept", "integer type name is not '%s' followed by all its digits" % pre)
    # the field-parameter table
    cp = prog.functions.get("fcp.parser._convert_params")
    if cp is None:
        rep.undecided("R07.3", "src/fcp/parser.py", "-", "_convert_params", "parameter table not found")
        return
    table = None
    for n in walk_local(cp.node):
        if isinstance(n, ast.Assign) and isinstance(n.value, ast.Dict) and all(isinstance(k, ast.Constant) for k in n.value.keys):
            table = n.value
    if table is None:
        rep.undecided("R07.3", cp.file, cp.qual, "conversion table", "not a dict literal")
        return
    want = {"unit": {"unit": 0}, "range": {"min_value": 0, "max_value": 1}}
    entries = {k.value: v for k, v in zip(table.keys, table.values)}
    for pname, keys in want.items():
        v = entries.get(pname)
        if v is None:
            rep.violation("R07.3", cp.file, cp.qual, "parameter '%s'" % pname, "field parameter is not in the conversion table: it cannot be parsed")
            continue
        got = table_entry_keys(eng, cp, v)
        if got is None:
            rep.undecided("R07.3", cp.file, cp.qual, "parameter '%s' -> %s" % (pname, norm(v, 60)), "entry form not recognised")
            continue
        gk, gidx = got
        if set(gk) != set(keys):
            extra = sorted(set(gk) - set(keys))
            rep.violation("R07.3", cp.file, cp.qual, "parameter '%s' -> keys %s" % (pname, sorted(gk)), "the entry for '%s' also sets %s: merged with dict.update, a later parameter resets what an earlier one declared" % (pname, extra) if extra else "the entry for '%s' does not set %s" % (pname, sorted(set(keys) - set(gk))))
        else:
            okidx = all(gidx.get(k) == i for k, i in keys.items())
            rep.check(okidx, "R07.3", cp.file, cp.qual, "parameter '%s' -> %s" % (pname, {k: "arg[%s]" % gidx.get(k) for k in gk}), "argument positions per the language (unit(x); range(min, max))", "arguments of '%s' are assigned to the wrong attributes: %s" % (pname, gidx))
    # merge starts empty and accumulates
    inits = [n for n in walk_local(cp.node) if isinstance(n, (ast.Assign, ast.AnnAssign)) and isinstance(getattr(n, "value", None), (ast.Dict, ast.Call)) and norm(n.targets[0] if isinstance(n, ast.Assign) else n.target) == "values"]
    for n in inits:
        v = n.value
        rep.check(isinstance(v, ast.Dict) and not v.keys, "R07.3", cp.file, cp.qual, norm(n, 50), "accumulator starts empty", "the accumulated parameters do not start from an empty mapping (undeclared attributes get explicit values)")


def table_entry_keys(eng, f: FuncInfo, v: ast.AST):
    """Entry `lambda x: {...}` / helper call -> (keys set by the entry, {key: index of x used})"""
    prog = eng.prog
    if not isinstance(v, ast.Lambda) or len(v.args.args) != 1:
        return None
    x = v.args.args[0].arg
    body = v.body

    def idx_of(e):
        if isinstance(e, ast.Subscript) and isinstance(e.value, ast.Name) and e.value.id == x and isinstance(e.slice, ast.Constant):
            return e.slice.value
        return None
    if isinstance(body, ast.Dict):
        ks = [k.value for k in body.keys if isinstance(k, ast.Constant)]
        return ks, {k.value: idx_of(val) for k, val in zip(body.keys, body.values) if isinstance(k, ast.Constant)}
    if isinstance(body, ast.Call):
        if dotted(body.func) == "dict":
            return [k.arg for k in body.keywords], {k.arg: idx_of(k.value) for k in body.keywords}
        r = prog.resolve_expr_symbol(f.module, f, body.func)
        if r and r[0] == "func":
            h = prog.functions[r[1]]
            rets = [n.value for n in walk_local(h.node) if isinstance(n, ast.Return) and isinstance(n.value, ast.Dict)]
            if len(rets) == 1:
                ks = [k.value for k in rets[0].keys if isinstance(k, ast.Constant)]
                hp = [p.arg for p in h.params]
                idx = {}
                for k_, val in zip(rets[0].keys, rets[0].values):
                    if isinstance(val, ast.Name) and val.id in hp:
                        a = next((kw.value for kw in body.keywords if kw.arg == val.id), None)
                        if a is None and hp.index(val.id) < len(body.args):
                            a = body.args[hp.index(val.id)]
                        idx[k_.value] = idx_of(a) if a is not None else None
                return ks, idx
    return None


def r074(eng, rep, cbs, tcls) -> None:
    prog = eng.prog
    cb = cbs.get("struct")
    if cb is None:
        return
    f = cb.f
    appends = [n for n in walk_local(f.node) if isinstance(n, ast.Call) and isinstance(n.func, ast.Attribute) and n.func.attr == "append" and norm(n.func.value) == "self.fcp.impls"]
    rep.check(len(appends) == 1, "R07.4", f.file, f.qual, "self.fcp.impls.append(Impl(...)) x%d" % len(appends), "exactly one default binding per struct", "a struct gets %d default bindings" % len(appends))
    if appends:
        cfg = eng.cfg(f)
        an = cfg.stmt_node_containing(appends[0])
        uncond = an is not None and cfg.exit not in cfg.reachable_avoiding(cfg.entry, {an})
        rep.check(uncond, "R07.4", f.file, f.qual, "default binding on every success path", "unconditional", "the default binding is added only on some paths")
        c = appends[0].args[0] if appends[0].args else None
        if isinstance(c, ast.Call):
            params = ctor_params(eng, S + "impl.Impl")
            defs = Defs(f.node)
            nm = [k for k, v in cb.binds.items() if v == ("idx", 0)]
            for p_ in ("name", "type"):
                a = arg_for(c, params, p_)
                rep.check(isinstance(a, ast.Name) and nm and a.id == nm[0], "R07.4", f.file, f.qual, "default Impl.%s <- %s" % (p_, norm(a, 30) if a is not None else "-"), "the struct's name", "default binding's %s is not the struct's name" % p_)
            a = arg_for(c, params, "protocol")
            rep.check(isinstance(a, ast.Constant) and a.value == "default", "R07.4", f.file, f.qual, "default Impl.protocol = %s" % (norm(a, 20) if a is not None else "-"), "'default'", "default binding's protocol is not 'default'")
    # declaration lists only appended to (source order)
    for mname, m in tcls.methods.items():
        for kind, tgt, st in stores_in(m.node):
            t = norm(tgt)
            if t.startswith("self.fcp.") and t.split(".")[2].split("[")[0] in ("structs", "enums", "impls", "services", "devices"):
                oka = kind == "mutcall" and isinstance(st, ast.Call) and st.func.attr == "append"
                rep.check(oka, "R07.4", m.file, m.qual, norm(st, 60), "append keeps source order", "declarations are not appended in source order (%s)" % norm(st, 50))


def r075(eng, rep, g: Grammar) -> None:
    """%ignore set and greediness of ignored terminals (regex ASTs via re._parser)."""
    import re._parser as sre
    ign = [str(t) for t in g.ignored]
    pats = {}
    for name in ign:
        t = g.terminals.get(name)
        if t is not None:
            try:
                pats[name] = t.pattern.to_regexp()
            except Exception:
                pats[name] = None
    def matches(name_or_text, sample):
        for n, p in pats.items():
            if p is not None and re.fullmatch(p, sample, flags=re.S) is not None:
                return True
        return False
    # membership by the terminal's own definition (the regex is data of the grammar, evaluated on 5 fixed probes)
    for label, sample in (("space", " "), ("tab", "\t"), ("newline", "\n"), ("block comment", "/* c */"), ("line comment", "// c")):
        rep.check(matches(None, sample), "R07.5", "src/fcp/parser.py", "grammar", "%%ignore covers %s" % label, "ignored between tokens", "%s is not ignored: the parse depends on this formatting" % label)
    for name, p in pats.items():
        if p is None:
            continue
        try:
            tree = sre.parse(p)
        except Exception:
            rep.undecided("R07.5", "src/fcp/parser.py", "grammar", "terminal %s" % name, "regex does not parse")
            continue
        bad = greedy_any(tree)
        rep.check(not bad, "R07.5", "src/fcp/parser.py", "grammar", "ignored terminal %s = /%s/" % (name, p[:60]), "no greedy wildcard before a closing delimiter",
                  "ignored terminal contains a greedy wildcard followed by a closing delimiter: on a line with two such comments everything between them, including schema text, is ignored")


def numeric_optional(ann) -> bool:
    """annotation is Optional[...]/Union[..., None]/`X | None` over int/float only"""
    if ann is None:
        return False
    t = ast.unparse(ann).replace("typing.", "")
    if not ("Optional[" in t or "None" in t):
        return False
    core = t.replace("Optional", "").replace("Union", "").replace("None", "")
    names = set(x for x in "".join(c if c.isalnum() or c == "_" else " " for c in core).split())
    return bool(names) and names <= {"int", "float"}


def r077(eng, rep) -> None:
    """A parameter declared Optional[number] is tested only against None: `if p`, `p or d`, `x if p else y`, `not p`
    also take 0 / 0.0 for absent."""
    n = 0
    for f in eng.prog.functions.values():
        if not (f.module.name.startswith("fcp.specs") or f.module.name == "fcp.parser"):
            continue
        ps = {a.arg: a.annotation for a in f.node.args.args + f.node.args.kwonlyargs if numeric_optional(a.annotation)}
        if not ps:
            continue
        n += len(ps)
        rebound = {t.id for x in walk_local(f.node) if isinstance(x, ast.Assign) for t in x.targets if isinstance(t, ast.Name)}
        for x in walk_local(f.node):
            tests = []
            if isinstance(x, (ast.If, ast.IfExp, ast.While)):
                tests.append(x.test)
            elif isinstance(x, ast.BoolOp):
                tests += x.values[:-1] if isinstance(x.op, ast.Or) else x.values
            elif isinstance(x, ast.comprehension):
                tests += x.ifs
            for t in tests:
                if isinstance(t, ast.UnaryOp) and isinstance(t.op, ast.Not):
                    t = t.operand
                if isinstance(t, ast.Name) and t.id in ps and t.id not in rebound:
                    rep.violation("R07.7", f.file, f.qual, norm(x, 70), "'%s' is declared %s and tested for truth: a declared 0 / 0.0 is taken for 'not given' and disappears from the tree" % (t.id, ast.unparse(ps[t.id])))
    rep.ok("R07.7", "-", "-", "optional numeric parameters of the spec classes and parser", "%d parameters, none tested by truth value" % n)


def greedy_any(tree, top=True) -> bool:
    """A greedy unbounded repeat of '.'/any-char class that is not the last element of its sequence."""
    import re._parser as sre
    from re._constants import MAX_REPEAT, ANY, SUBPATTERN, BRANCH, MAXREPEAT, NOT_LITERAL, IN
    items = list(tree)
    for i, (op, av) in enumerate(items):
        if op == MAX_REPEAT:
            lo, hi, sub = av
            if hi == MAXREPEAT and len(sub) == 1 and sub[0][0] == ANY and i < len(items) - 1:
                return True
            if greedy_any(sub, False):
                return True
        elif op == SUBPATTERN:
            if greedy_any(av[3], False):
                return True
        elif op == BRANCH:
            for alt in av[1]:
                if greedy_any(alt, False):
                    return True
    return False
