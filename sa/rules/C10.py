"""C10 - code generation is gated by verification; rejected schemas write nothing.

R10.1 must-pass-through in GeneratorManager.generate (CFG dominance)
R10.2 who-may-write (call graph)
R10.3 what is written is what the plug-in returned; all-or-nothing; CLI reports
"""

from __future__ import annotations

import ast
from typing import List, Optional, Set

from ..front_py import AnalysisError, FuncInfo, walk_local, norm, dotted
from ..dataflow import Defs, Provenance, is_terminating, names_in
from .common import fs_mutations, wrapper_reaches, unwrap_attempt_receiver

GATE = "fcp.codegen.GeneratorManager.generate"
GEN = "fcp.codegen.CodeGenerator.gen"
VERIFY = "fcp.verifier.Verifier.verify"
CLI = "fcp.__main__.generate_cmd"


def run(eng, rep) -> None:
    prog, cg = eng.prog, eng.cg
    rep.explanation = (
        "Static must-pass-through and who-may-write analysis. In the CFG of GeneratorManager.generate "
        "every path to the call that reaches CodeGenerator.gen must pass a statement that consumes the "
        "verdict of Verifier.verify (attempt()/is_err-return) under @catch; on the call graph from the CLI "
        "generate command no filesystem-mutating primitive is reachable without passing through gen; gen "
        "writes exactly the records returned by the plug-in's generate, which is not lazy."
    )
    rep.rule("R10.1", "every path to gen passes the consumed verify verdict; registration dominates verification; @catch present")
    rep.rule("R10.2", "no filesystem-mutating primitive reachable pre-gate; gen/handle_result/_handle_file have only the sanctioned callers")
    rep.rule("R10.3", "bytes written are result['contents'] to result['path'] for each returned record; no plug-in generate is lazy; CLI reports errors")
    rep.rule("R10.5", "the nodes that checks run over are not read back from a mapping keyed by an attribute (equal keys collapse)")
    from .lints import population_through_dict
    population_through_dict(eng, rep, "R10.5", ("fcp.verifier",), "nodes that share a name with a later one (an impl named like another protocol's impl) are never verified, so what the checks would reject reaches the generators")
    rep.rule("R10.4", "groups made by itertools.groupby over an unsorted registry are not stored by key with overwrite")
    rep.rule("R10.6", "the writer touches only the paths the generators returned: a scratch file is not named by replacing the target's extension")
    from .lints import scratch_by_suffix
    scratch_by_suffix(eng, rep, "R10.6", ("fcp.codegen",))
    from .lints import groupby_overwrite
    groupby_overwrite(eng, rep, "R10.4", ("fcp.verifier", "fcp.codegen"), "checks registered earlier under that category are never run, so a schema they would reject reaches the generators")
    rep.assume("filesystem-mutating primitives are those in the frozen table sa/rules/common.py:FS_*; writes through C extensions or subprocesses named otherwise are not seen")
    rep.assume("plug-ins are the packages under plugins/*/ (the installed generators of this repository)")

    gate = prog.func(GATE)
    gen = prog.func(GEN)
    verify = prog.func(VERIFY)
    cli = prog.func(CLI)
    cfg = eng.cfg(gate)
    file, fn = gate.file, gate.qual

    gen_quals = {m.qual for m in prog.all_overrides(gen.cls, "gen")}
    regc_quals = {m.qual for m in prog.all_overrides(gen.cls, "register_checks")}

    # ---- R10.1 --------------------------------------------------------------
    rep.check(gate.has_decorator("catch"), "R10.1", file, fn, "@catch on generate",
              "attempt() failures become the returned Err", "generate is not wrapped by @catch: a rejected verdict escapes as an exception")

    # the gated region starts at any call that runs plug-in code: gen itself, or anything that reaches a
    # plug-in's generate (plug-ins' generate() may have side effects of their own)
    plug_quals = gen_quals | {m.qual for m in prog.all_overrides(gen.cls, "generate")}
    gen_sites, verify_sites, reg_sites = [], [], []
    for cs in cg.sites_in(gate):
        if set(cs.callees) & plug_quals:
            gen_sites.append(cs)
        elif wrapper_reaches(eng, cs, plug_quals, bound=3):
            gen_sites.append(cs)
        if VERIFY in cs.callees or wrapper_reaches(eng, cs, {VERIFY}, bound=3 if eng.tier == "quick" else 6):
            verify_sites.append(cs)
        if set(cs.callees) & regc_quals:
            reg_sites.append(cs)
    if not gen_sites:
        raise AnalysisError("anchor vanished: no call reaching CodeGenerator.gen or a plug-in generate in %s" % GATE)
    rep.floor("R10.1", "gate functions", 1, 1)
    if not verify_sites:
        rep.violation("R10.1", file, fn, "call reaching Verifier.verify", "no call in generate reaches Verifier.verify: generation is not gated")
    # gate statements
    gate_nodes: Set[int] = set()
    defs = Defs(gate.node)
    for vs in verify_sites:
        kinds = consumed(eng, gate, cfg, vs, defs)
        for nid, how in kinds:
            gate_nodes.add(nid)
            rep.ok("R10.1", file, fn, norm(cfg.nodes[nid].ast if not isinstance(cfg.nodes[nid].ast, ast.If) else cfg.nodes[nid].ast.test), "verdict consumed by " + how)
        if not kinds:
            rep.violation("R10.1", file, fn, norm(vs.node), "result of verification is not consumed (no attempt() / is_err()-return on it): a rejected schema continues to generation")
    for gs in gen_sites:
        gnode = cfg.stmt_node_containing(gs.node)
        if gnode is None:
            rep.undecided("R10.1", file, fn, norm(gs.node), "gen call not in a plain statement")
            continue
        if verify_sites and gate_nodes:
            okp = cfg.every_path_passes(gnode, gate_nodes)
            rep.check(okp, "R10.1", file, fn, norm(gs.node), "every path from entry passes the gate",
                      "a path from the entry of generate reaches gen without passing the consumed verification verdict")
        # same schema object verified and generated
        if verify_sites and gs.node.args:
            a_gen = gs.node.args[0]
            for vs in verify_sites:
                a_ver = vs.node.args[0] if vs.node.args else None
                if isinstance(a_gen, ast.Name) and isinstance(a_ver, ast.Name):
                    same = a_gen.id == a_ver.id
                    rebound = [b for b in defs.values(a_gen.id)]
                    rep.check(same and not rebound, "R10.1", file, fn, "verify(%s) / gen(%s)" % (a_ver.id, a_gen.id),
                              "the object verified is the object generated from", "the schema passed to gen is not the one that was verified (different name or rebound)")
    # the verdict is recomputed on every call (no memoised verdicts / check results)
    from .C09 import stateless, verification_path
    stateless(eng, rep, "R10.1", verification_path(eng))
    # registration dominates verification, on the same verifier object
    for vs in verify_sites:
        vnode = cfg.stmt_node_containing(vs.node)
        rnodes = {cfg.stmt_node_containing(r.node) for r in reg_sites} - {None}
        if not reg_sites:
            rep.violation("R10.1", file, fn, "register_checks(...) before verify", "plug-in checks are never registered before verification")
        elif vnode is not None:
            rep.check(cfg.every_path_passes(vnode, rnodes), "R10.1", file, fn, norm(reg_sites[0].node),
                      "registration dominates verification", "verification can run before the plug-in's checks are registered")
            recv = vs.node.func.value if isinstance(vs.node.func, ast.Attribute) and VERIFY in vs.callees else None
            for r in reg_sites:
                if recv is not None and r.node.args:
                    rep.check(norm(recv) == norm(r.node.args[0]), "R10.1", file, fn,
                              "register_checks(%s) / %s.verify" % (norm(r.node.args[0]), norm(recv)),
                              "checks are registered on the verifier that runs", "checks are registered on a different object than the verifier that runs")
    # the verifier the CLI hands over is the general verifier
    for cs in cg.sites_in(cli):
        if any(c.startswith("fcp.codegen.GeneratorManager.__init__") for c in cs.callees):
            a0 = cs.node.args[0] if cs.node.args else None
            okv = isinstance(a0, ast.Call) and cg.site_of.get(id(a0)) and "fcp.verifier.make_general_verifier" in cg.site_of[id(a0)].callees
            if not okv and isinstance(a0, ast.Name):
                for k, v, _ in Defs(cli.node).values(a0.id):
                    if isinstance(v, ast.Call) and cg.site_of.get(id(v)) and "fcp.verifier.make_general_verifier" in cg.site_of[id(v)].callees:
                        okv = True
            rep.check(bool(okv), "R10.1", cli.file, cli.qual, norm(cs.node), "CLI gates with the general verifier",
                      "the generate command does not hand make_general_verifier() to the GeneratorManager")

    # ---- R10.2 --------------------------------------------------------------
    # pre-gate region: everything reachable from the command, where inside the gate function only the call
    # sites NOT dominated by the consumed verdict are followed
    post_sites = set()
    for cs in cg.sites_in(gate):
        sn = cfg.stmt_node_containing(cs.node)
        if gate_nodes and sn is not None and sn not in gate_nodes and cfg.every_path_passes(sn, gate_nodes):
            post_sites.add(id(cs.node))
    pred = cg.reachable([CLI], stop={GATE})
    if GATE in pred:
        roots2 = sorted({c for cs in cg.sites_in(gate) if id(cs.node) not in post_sites for c in cs.callees} - set(pred))
        for q, pq in cg.reachable(roots2, stop={GATE}).items():
            if q not in pred:
                pred[q] = pq if pq is not None else GATE
    pre_gate = [q for q in pred]
    n_prim = 0
    for q in sorted(pre_gate):
        f = prog.functions[q]
        for site, what in fs_mutations(eng, f):
            n_prim += 1
            rep.violation("R10.2", f.file, f.qual, norm(site), "filesystem-mutating primitive (%s) reachable before/without the verification gate" % what,
                          path=cg.path_to(pred, q))
    rep.ok("R10.2", cli.file, CLI, "pre-gate region: %d functions reachable from the generate command without entering gen" % len(pre_gate),
           "%d filesystem-mutating primitives" % n_prim)
    rep.extra["pre_gate_functions"] = sorted(pre_gate)
    # plug-in module top-level code runs at import (pre-gate)
    for m in prog.modules.values():
        if not m.name.startswith("fcp_"):
            continue
        for st in m.tree.body:
            if isinstance(st, (ast.FunctionDef, ast.AsyncFunctionDef, ast.ClassDef, ast.Import, ast.ImportFrom)):
                continue
            for n in ast.walk(st):
                if isinstance(n, ast.Call):
                    w = fs_call_kind_simple(n)
                    if w:
                        rep.violation("R10.2", m.relpath, "<module>", norm(n), "filesystem-mutating primitive (%s) at plug-in import time (pre-gate)" % w)
    def behind_gate(cs) -> bool:
        """the call site can only execute after the consumed verdict"""
        if cs.caller.qual == GATE:
            return id(cs.node) in post_sites
        return cs.caller.qual not in pred and cs.caller.qual in post

    post = cg.reachable(sorted({c for cs in cg.sites_in(gate) if id(cs.node) in post_sites for c in cs.callees}))
    # post-gate inventory (informational) + positive fixture: the sanctioned writer must match
    writers = []
    for q in sorted(cg.reachable(sorted(gen_quals))):
        f = prog.functions[q]
        for site, what in fs_mutations(eng, f):
            writers.append((f, site, what))
    sanctioned = [w for w in writers if w[0].qual == "fcp.codegen._handle_file"]
    rep.floor("R10.2", "filesystem-mutating primitives reachable from gen (positive fixture)", len(writers), 2)
    for f, site, what in writers:
        if f.qual != "fcp.codegen._handle_file":
            rep.info("R10.2", f.file, f.qual, norm(site), "post-gate filesystem mutation outside the sanctioned writer (%s)" % what)
    # callers
    for q, allowed in (("fcp.codegen._handle_file", {"fcp.codegen.handle_result"}), ("fcp.codegen.handle_result", gen_quals)):
        if q not in prog.functions:
            continue
        for cs in cg.callers_of(q):
            rep.check(cs.caller.qual in allowed or behind_gate(cs), "R10.2", cs.caller.file, cs.caller.qual, norm(cs.node),
                      "sanctioned caller of %s" % q.split(".")[-1], "%s is called from outside the gated path" % q.split(".")[-1])
    for gq in sorted(gen_quals):
        for cs in cg.callers_of(gq):
            rep.check((cs.caller.qual == GATE and id(cs.node) in post_sites) or behind_gate(cs), "R10.2", cs.caller.file, cs.caller.qual, norm(cs.node),
                      "gen called from the gated site", "gen is called from a site that is not behind the verification gate")
    for m in prog.all_overrides(gen.cls, "gen"):
        if m.qual != GEN:
            rep.info("R10.2", m.file, m.qual, "def gen", "plug-in overrides gen (documented as 'do not override'); the override is analysed as post-gate")
    # plug-in generate()s are only called from gen
    generates = prog.all_overrides(gen.cls, "generate")
    rep.floor("R10.3", "plug-in generate() implementations", len([g for g in generates if g.cls.qual != gen.cls.qual]), 2)
    for g in generates:
        for cs in cg.callers_of(g.qual):
            if cs.how == "by-name":
                continue  # ambiguous receiver: not evidence of a call
            rep.check(cs.caller.qual in gen_quals or behind_gate(cs), "R10.2", cs.caller.file, cs.caller.qual, norm(cs.node),
                      "generate called from gen", "a plug-in's generate is invoked outside gen (its records could be written ungated)")

    # ---- R10.3 --------------------------------------------------------------
    r103_gen(eng, rep, gen, generates)
    r103_cli(eng, rep, cli)


def fs_call_kind_simple(n: ast.Call) -> Optional[str]:
    from .common import FS_METHODS, FS_FUNCS, open_mode_writes
    d = dotted(n.func) or ""
    if d in FS_FUNCS or d.split(".")[-1] in ("rmtree",):
        return d
    if isinstance(n.func, ast.Attribute) and n.func.attr in FS_METHODS:
        return "." + n.func.attr
    if d == "open" and open_mode_writes(n):
        return "open(w)"
    return None


def consumed(eng, gate: FuncInfo, cfg, vs, defs: Defs):
    """How the verdict returned at call site `vs` is consumed. -> [(cfg node id, how)]"""
    out = []
    pm = {}
    for n in ast.walk(gate.node):
        for c in ast.iter_child_nodes(n):
            pm[id(c)] = n
    node = vs.node
    # does the callee (wrapper) itself raise on rejection?  (helper without @catch that attempts)
    from .common import wrapper_raises_on_reject
    if VERIFY not in vs.callees and wrapper_raises_on_reject(eng, vs, VERIFY):
        nid = cfg.stmt_node_containing(node)
        if nid is not None:
            out.append((nid, "helper that attempt()s the verdict (exception propagates to @catch)"))
            return out
    par = pm.get(id(node))
    # verify(...).attempt()
    if isinstance(par, ast.Attribute) and par.attr in ("attempt", "unwrap", "expect") and isinstance(pm.get(id(par)), ast.Call):
        nid = cfg.stmt_node_containing(node)
        if nid is not None:
            out.append((nid, ".%s() on the verdict" % par.attr))
        return out
    # r = verify(...);  r.attempt()  |  if r.is_err(): return r
    if isinstance(par, (ast.Assign, ast.AnnAssign)):
        tgt = par.targets[0] if isinstance(par, ast.Assign) else par.target
        if isinstance(tgt, ast.Name):
            name = tgt.id
            for n in walk_local(gate.node):
                if isinstance(n, ast.Call) and isinstance(n.func, ast.Attribute) and n.func.attr in ("attempt", "unwrap", "expect") and isinstance(n.func.value, ast.Name) and n.func.value.id == name:
                    nid = cfg.stmt_node_containing(n)
                    if nid is not None:
                        out.append((nid, "%s.%s()" % (name, n.func.attr)))
                if isinstance(n, ast.If):
                    t = n.test
                    pos = isinstance(t, ast.Call) and isinstance(t.func, ast.Attribute) and t.func.attr == "is_err" and isinstance(t.func.value, ast.Name) and t.func.value.id == name
                    neg = isinstance(t, ast.UnaryOp) and isinstance(t.op, ast.Not) and isinstance(t.operand, ast.Call) and isinstance(t.operand.func, ast.Attribute) and t.operand.func.attr == "is_ok" and isinstance(t.operand.func.value, ast.Name) and t.operand.func.value.id == name
                    if (pos or neg) and is_terminating(n.body):
                        # the gate is the set of nodes on the non-error continuation: use the test
                        # node but require gen not to be inside the error branch
                        nid = cfg.node_for(n)
                        inside = any(isinstance(x, ast.Call) and x is not t for b in n.body for x in ast.walk(b) if isinstance(x, ast.Call) and eng.cg.site_of.get(id(x)) and set(eng.cg.site_of[id(x)].callees) & {GEN})
                        if nid is not None and not inside:
                            out.append((nid, "if %s: <return>" % norm(t)))
    return out


def r103_gen(eng, rep, gen: FuncInfo, generates: List[FuncInfo]) -> None:
    prog, cg = eng.prog, eng.cg
    # in gen: for r in self.generate(...): handle_result(r)
    found = False
    for n in walk_local(gen.node):
        if isinstance(n, (ast.For,)) and isinstance(n.iter, ast.Call):
            cs = cg.site_of.get(id(n.iter))
            if cs and any(c in {g.qual for g in generates} for c in cs.callees) and isinstance(n.target, ast.Name):
                found = True
                calls = [c for b in n.body for c in ast.walk(b) if isinstance(c, ast.Call)]
                hr = [c for c in calls if cg.site_of.get(id(c)) and "fcp.codegen.handle_result" in cg.site_of[id(c)].callees]
                okh = len(hr) == 1 and len(hr[0].args) == 1 and isinstance(hr[0].args[0], ast.Name) and hr[0].args[0].id == n.target.id
                plain = all(isinstance(b, ast.Expr) for b in n.body) and len(n.body) == 1
                rep.check(okh and plain, "R10.3", gen.file, gen.qual, norm(n.iter) + " -> handle_result(%s)" % n.target.id,
                          "each returned record handled exactly once, unconditionally", "records returned by generate are not each passed once and unconditionally to handle_result")
                # fcp passed on unchanged
                if n.iter.args and isinstance(n.iter.args[0], ast.Name):
                    p0 = gen.params[1].arg if len(gen.params) > 1 else None
                    rep.check(n.iter.args[0].id == p0 and not Defs(gen.node).values(p0), "R10.3", gen.file, gen.qual, "generate(%s, ...)" % n.iter.args[0].id,
                              "the verified schema is the one handed to the plug-in", "gen hands the plug-in a different schema object than it received")
    if not found:
        rep.undecided("R10.3", gen.file, gen.qual, "for result in self.generate(...)", "iteration idiom over generate() not recognised")
    # handle_result -> _handle_file(result) on type == 'file'
    hf = prog.functions.get("fcp.codegen._handle_file")
    if hf is None:
        raise AnalysisError("anchor vanished: fcp.codegen._handle_file")
    pv = Provenance(hf.node)
    pname = hf.params[0].arg
    sinks = write_sinks(eng, hf)
    if not sinks:
        rep.undecided("R10.3", hf.file, hf.qual, "write of contents", "writer idiom not recognised")
    for path_e, cont_e, trunc, site in sinks:
        recv = pv.of(path_e) if path_e is not None else set()
        arg = pv.of(cont_e) if cont_e is not None else set()
        ok_path = any(a.startswith("%s['path']" % pname) for a in recv) and not any(a.startswith(pname) and not a.startswith("%s['path']" % pname) for a in recv)
        ok_cont = any(a.startswith("%s['contents']" % pname) for a in arg) and not any(a.startswith(pname) and not a.startswith("%s['contents']" % pname) for a in arg)
        rep.check(ok_path, "R10.3", hf.file, hf.qual, norm(path_e, 50) + " <- path", "written path derives from result['path'] only: " + ",".join(sorted(recv)),
                  "the path written does not derive from the record's 'path' only: " + ",".join(sorted(recv)))
        rep.check(ok_cont, "R10.3", hf.file, hf.qual, norm(site, 60) + " <- contents", "written bytes derive from result['contents'] only",
                  "the bytes written do not derive from the record's 'contents' only: " + ",".join(sorted(arg)))
        if trunc is True:
            rep.ok("R10.3", hf.file, hf.qual, norm(site, 60) + " truncates", "an existing file is replaced, not overlaid")
        elif trunc is False:
            rep.violation("R10.3", hf.file, hf.qual, norm(site, 60), "the file is opened without truncation: a longer pre-existing file keeps its old tail, so the file on disk is not the returned contents")
        else:
            rep.undecided("R10.3", hf.file, hf.qual, norm(site, 60), "cannot tell whether the open truncates")
    # exactly one write per record on every path of _handle_file
    cfgh = eng.cfg(hf)
    wt = [site for _, _, _, site in sinks]
    if wt:
        wn = {cfgh.stmt_node_containing(s) for s in wt} - {None}
        reach_exit_without = cfgh.exit in cfgh.reachable_avoiding(cfgh.entry, wn)
        rep.check(not reach_exit_without, "R10.3", hf.file, hf.qual, "every path writes", "every normal path of the writer performs the write",
                  "a normal path through the file writer returns without writing the record")
    hr = prog.functions.get("fcp.codegen.handle_result")
    if hr is not None:
        # the 'file' branch must call _handle_file(result)
        okb = False
        for n in walk_local(hr.node):
            if isinstance(n, ast.If):
                t = n.test
                if isinstance(t, ast.Compare) and len(t.ops) == 1 and isinstance(t.ops[0], ast.Eq):
                    sides = [t.left, t.comparators[0]]
                    consts = [s.value for s in sides if isinstance(s, ast.Constant)]
                    if "file" in consts:
                        for c in ast.walk(ast.Module(body=n.body, type_ignores=[])):
                            if isinstance(c, ast.Call) and cg.site_of.get(id(c)) and hf.qual in cg.site_of[id(c)].callees:
                                if c.args and isinstance(c.args[0], ast.Name) and c.args[0].id == hr.params[0].arg:
                                    okb = True
        rep.check(okb, "R10.3", hr.file, hr.qual, "type == 'file' -> _handle_file(result)", "file records are routed to the writer",
                  "records of type 'file' are not routed (unchanged) to the file writer")
    # all-or-nothing: no plug-in generate is lazy
    for g in generates:
        if g.cls.qual == "fcp.codegen.CodeGenerator":
            continue
        if g.is_generator():
            rep.violation("R10.3", g.file, g.qual, "yield in generate", "generate is a generator function: records are computed lazily, interleaved with writes (an exception after the first write leaves partial output)")
            continue
        lazy = False
        rets = [n for n in walk_local(g.node) if isinstance(n, ast.Return) and n.value is not None]
        verdicts = []
        for r in rets:
            v = r.value
            k = classify_eager(v, Defs(g.node))
            verdicts.append(k)
        if any(k == "lazy" for k in verdicts):
            rep.violation("R10.3", g.file, g.qual, "return " + norm(rets[verdicts.index("lazy")].value, 80), "generate returns a lazy iterable: records are computed interleaved with writes")
        elif all(k == "eager" for k in verdicts) and verdicts:
            rep.ok("R10.3", g.file, g.qual, "return <list>", "all records (and all exceptions) are produced before the first write")
        else:
            rep.undecided("R10.3", g.file, g.qual, "return value of generate", "cannot classify the returned iterable as eager")


def write_sinks(eng, hf: FuncInfo):
    """(path expr, content expr, truncates?, site call) for the recognised writer idioms."""
    out = []
    defs = Defs(hf.node)
    fds = {}    # name -> (path expr, truncates?) for os.open results
    files = {}  # name -> (path expr, truncates?) for file objects

    def mode_trunc(mode):
        if mode is None:
            return None
        if isinstance(mode, ast.Constant) and isinstance(mode.value, str):
            m = mode.value
            if m.startswith("w") or m.startswith("x"):
                return True
            return False if (m.startswith("a") or m.startswith("r")) else None
        return None

    def flags_trunc(flags):
        names = {dotted(x).split(".")[-1] for x in ast.walk(flags) if isinstance(x, (ast.Name, ast.Attribute)) and dotted(x)}
        if "O_TRUNC" in names or ("O_EXCL" in names and "O_CREAT" in names):
            return True
        if names & {"O_WRONLY", "O_RDWR", "O_CREAT", "O_APPEND"}:
            return False
        return None

    for n in walk_local(hf.node):
        if isinstance(n, ast.Call) and isinstance(n.func, ast.Attribute) and n.func.attr in ("write_text", "write_bytes") and n.args:
            out.append((n.func.value, n.args[0], True, n))
    binds = []
    for n in walk_local(hf.node):
        if isinstance(n, ast.Assign) and isinstance(n.targets[0], ast.Name) and isinstance(n.value, ast.Call):
            binds.append((n.targets[0].id, n.value))
        if isinstance(n, (ast.With, ast.AsyncWith)):
            for it in n.items:
                if isinstance(it.optional_vars, ast.Name) and isinstance(it.context_expr, ast.Call):
                    binds.append((it.optional_vars.id, it.context_expr))
    for name, c in binds:
        d = dotted(c.func) or ""
        if d in ("os.open",) and len(c.args) >= 2:
            fds[name] = (c.args[0], flags_trunc(c.args[1]))
        elif d in ("open", "io.open", "codecs.open") and c.args:
            mode = c.args[1] if len(c.args) > 1 else next((k.value for k in c.keywords if k.arg == "mode"), None)
            files[name] = (c.args[0], mode_trunc(mode) if mode is not None else False)
        elif isinstance(c.func, ast.Attribute) and c.func.attr == "open":
            mode = c.args[0] if c.args else next((k.value for k in c.keywords if k.arg == "mode"), None)
            files[name] = (c.func.value, mode_trunc(mode) if mode is not None else False)
    for name, c in binds:
        d = dotted(c.func) or ""
        if d == "os.fdopen" and c.args and isinstance(c.args[0], ast.Name) and c.args[0].id in fds:
            files[name] = fds[c.args[0].id]
    for n in walk_local(hf.node):
        if isinstance(n, ast.Call) and isinstance(n.func, ast.Attribute) and n.func.attr in ("write", "writelines") and isinstance(n.func.value, ast.Name) and n.func.value.id in files and n.args:
            pe, tr = files[n.func.value.id]
            out.append((pe, n.args[0], tr, n))
        if isinstance(n, ast.Call) and dotted(n.func) == "os.write" and len(n.args) == 2 and isinstance(n.args[0], ast.Name) and n.args[0].id in fds:
            pe, tr = fds[n.args[0].id]
            out.append((pe, n.args[1], tr, n))
    return out


def classify_eager(v: ast.AST, defs: Defs, depth: int = 0) -> str:
    if isinstance(v, (ast.List, ast.ListComp, ast.Tuple, ast.Dict)):
        return "eager"
    if isinstance(v, ast.GeneratorExp):
        return "lazy"
    if isinstance(v, ast.Call):
        d = dotted(v.func) or ""
        if d in ("list", "sorted", "tuple"):
            return "eager"
        if d in ("map", "filter", "iter", "zip", "itertools.chain", "chain"):
            return "lazy"
        return "unknown"
    if isinstance(v, ast.BinOp) and isinstance(v.op, ast.Add):
        a, b = classify_eager(v.left, defs, depth), classify_eager(v.right, defs, depth)
        return a if a == b else "unknown"
    if isinstance(v, ast.Name) and depth < 3:
        ks = [classify_eager(val, defs, depth + 1) for k, val, _ in defs.values(v.id) if val is not None and k == "assign"]
        if ks and all(k == "eager" for k in ks):
            return "eager"
        if any(k == "lazy" for k in ks):
            return "lazy"
    return "unknown"


def r103_cli(eng, rep, cli: FuncInfo) -> None:
    cg = eng.cg
    cfg = eng.cfg(cli)
    defs = Defs(cli.node)
    gsite = None
    for cs in cg.sites_in(cli):
        if GATE in cs.callees:
            gsite = cs
    if gsite is None:
        raise AnalysisError("anchor vanished: generate_cmd does not call GeneratorManager.generate")
    gnode = cfg.stmt_node_containing(gsite.node)
    # parse failure returns before generation
    parse_names = []
    for name, bs in defs.binds.items():
        for k, v, st in bs:
            if isinstance(v, ast.Call) and cg.site_of.get(id(v)) and any(c.startswith("fcp.parser.get_fcp") for c in cg.site_of[id(v)].callees):
                parse_names.append(name)
    guards = set()
    for n in walk_local(cli.node):
        if isinstance(n, ast.If) and isinstance(n.test, ast.Call) and isinstance(n.test.func, ast.Attribute) and n.test.func.attr == "is_err" and isinstance(n.test.func.value, ast.Name) and n.test.func.value.id in parse_names and is_terminating(n.body):
            guards.add(cfg.node_for(n))
    rep.check(bool(guards) and gnode is not None and cfg.every_path_passes(gnode, guards), "R10.3", cli.file, cli.qual, "if <parse result>.is_err(): ...; return",
              "a failed parse returns before generation", "generation can be reached although parsing returned an error")
    # the result of generate is examined and reported
    par = None
    for n in walk_local(cli.node):
        if isinstance(n, ast.Assign) and n.value is gsite.node and isinstance(n.targets[0], ast.Name):
            par = n.targets[0].id
    reported = False
    if par:
        for n in walk_local(cli.node):
            if isinstance(n, ast.If) and par in names_in(n.test) and "is_err" in norm(n.test):
                if any(isinstance(c, ast.Call) and dotted(c.func) in ("print", "logging.error", "click.echo", "sys.exit") for b in n.body for c in ast.walk(b)):
                    reported = True
    rep.check(reported, "R10.3", cli.file, cli.qual, "if result.is_err(): print(...)", "a rejected schema is reported to the user",
              "the verdict returned by GeneratorManager.generate is not examined/reported by the generate command")
