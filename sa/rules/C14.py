"""C14 - CAN messages that do not fit a frame are rejected, never truncated.

R14.1 DBC writer: a raising size test on the layout's total bit length (> 64) dominates every signal
      construction and every return of the signal builder
R14.2 the type-length function raises for every class without a static length
R14.3 the C plug-in registers a size check with the same threshold on the layout size, and the command
      path registers and verifies before generating
R14.5 the size/length exception propagates out of the plug-in's generate (nothing swallows it), and no
      plug-in generate is lazy (nothing has been written at that point)
"""

from __future__ import annotations

import ast
from typing import Dict, List, Optional, Set

from ..front_py import AnalysisError, FuncInfo, walk_local, norm, dotted
from ..dataflow import Defs, Provenance, is_terminating
from ..excflow import ExcFlow
from ..report import Report
from .codec_py import lin, lin_eq, fmt_lin


def ordering_vs_const(op, const, limit=64):
    """truth of `size OP const` for size in (limit-1, limit, limit+1)"""
    f = {ast.Gt: lambda a, b: a > b, ast.GtE: lambda a, b: a >= b, ast.Lt: lambda a, b: a < b, ast.LtE: lambda a, b: a <= b, ast.Eq: lambda a, b: a == b, ast.NotEq: lambda a, b: a != b}.get(type(op))
    if f is None:
        return None
    return tuple(f(s, const) for s in (limit - 1, limit, limit + 1, 10 * limit))


def guard_truth(size_e: ast.AST, op, const, limit=64):
    """truth of `f(size) OP const` for size in (63, 64, 65, 640), where size_e = f(S) is arithmetic (+ - * / // >> with constants,
    ceil / floor / int) over ONE non-arithmetic sub-expression S taken for the size in bits; None when not of that form"""
    import math
    cmpf = {ast.Gt: lambda a, b: a > b, ast.GtE: lambda a, b: a >= b, ast.Lt: lambda a, b: a < b, ast.LtE: lambda a, b: a <= b, ast.Eq: lambda a, b: a == b, ast.NotEq: lambda a, b: a != b}.get(type(op))
    if cmpf is None:
        return None
    leaves = []

    def ev(e, S):
        if isinstance(e, ast.Constant) and isinstance(e.value, (int, float)) and not isinstance(e.value, bool):
            return e.value
        if isinstance(e, ast.BinOp) and (isinstance(e.left, ast.Constant) or isinstance(e.right, ast.Constant)) and isinstance(e.op, (ast.Add, ast.Sub, ast.Mult, ast.Div, ast.FloorDiv, ast.RShift, ast.LShift)):
            a, b = ev(e.left, S), ev(e.right, S)
            if a is None or b is None:
                return None
            try:
                return {ast.Add: lambda: a + b, ast.Sub: lambda: a - b, ast.Mult: lambda: a * b, ast.Div: lambda: a / b, ast.FloorDiv: lambda: a // b,
                        ast.RShift: lambda: int(a) >> int(b), ast.LShift: lambda: int(a) << int(b)}[type(e.op)]()
            except Exception:
                return None
        if isinstance(e, ast.Call) and len(e.args) == 1 and not e.keywords and (dotted(e.func) or "").split(".")[-1] in ("ceil", "floor", "int", "round"):
            a = ev(e.args[0], S)
            if a is None:
                return None
            return {"ceil": math.ceil, "floor": math.floor, "int": int, "round": round}[(dotted(e.func) or "").split(".")[-1]](a)
        if isinstance(e, ast.UnaryOp) and isinstance(e.op, ast.USub):
            a = ev(e.operand, S)
            return -a if a is not None else None
        leaves.append(norm(e))
        return S
    out = []
    for S in (limit - 1, limit, limit + 1, 10 * limit):
        del leaves[:]
        v = ev(size_e, S)
        if v is None or len(set(leaves)) != 1:
            return None
        out.append(bool(cmpf(v, const)))
    return tuple(out)


def run(eng, rep) -> None:
    prog, cg = eng.prog, eng.cg
    rep.explanation = (
        "Guard dominance and exception propagation: in the DBC signal builder a raising test `total bits > 64` (decided on the "
        "orderings 63/64/65/640 against the constant) over the layout's last leaf extent must dominate every CanSignal construction "
        "and every return; the layout's type-length function must raise for every type class without a static size; the C plug-in's "
        "registered size check must be the layout size > 64 (C09 row 11) behind the verification gate (C10 R10.1); no handler between "
        "the raise sites and the plug-in's generate() may swallow the exception, and generate() is not lazy."
    )
    rep.rule("R14.1", "DBC: raising test total-bits > 64 dominates signal construction and returns")
    rep.rule("R14.2", "type-length function raises for String/DynamicArray/Optional and unknown classes")
    rep.rule("R14.3", "C: registered size check == layout size > 64; registration and verification dominate generation")
    rep.rule("R14.4", "signal extents in both writers are the leaf's own (bitstart, bitlength) of the tiling layout (no override from options): signals cannot overlap or leave the message")
    rep.rule("R14.5", "the rejection exception is not swallowed before the plug-in's generate() exits; generate() is eager")
    rep.rule("R14.7", "the nodes that checks run over are not read back from a mapping keyed by an attribute (equal keys collapse)")
    from .lints import population_through_dict
    population_through_dict(eng, rep, "R14.7", ("fcp.verifier",), "nodes that share a name with a later one (an impl named like another protocol's impl) are never verified, so what the checks would reject reaches the generators")
    rep.rule("R14.6", "groups made by itertools.groupby over an unsorted registry are not stored by key with overwrite")
    rep.rule("R14.8", "a cycle guard in a check forgets an element when the walk leaves it (reject-on-revisit with a grow-only set rejects diamonds)")
    from .lints import grow_only_cycle_guard
    grow_only_cycle_guard(eng, rep, "R14.8", ("fcp.verifier", "fcp_dbc", "fcp_can_c"), "a valid schema is refused")
    from .lints import groupby_overwrite
    groupby_overwrite(eng, rep, "R14.6", ("fcp.verifier", "fcp_dbc", "fcp_can_c"), "checks registered earlier under that category are never run, so an oversized message they would reject is generated")
    rep.assume("leaf extents and dlc come from the tiling cursor (C04/C05/C06); cantools is not re-checked")
    r144(eng, rep)
    # ---- R14.1 -------------------------------------------------------------------------
    dbc = prog.modules.get("fcp_dbc.dbc_writer")
    if dbc is None:
        raise AnalysisError("anchor vanished: fcp_dbc.dbc_writer")
    builder = None
    ctor_sites = []
    for f in dbc.functions.values():
        sites = [cs for cs in cg.sites_in(f) if any(x.endswith("signal.Signal") or x.endswith("CanSignal") for x in cs.externals)]
        if sites:
            builder, ctor_sites = f, sites
    if builder is None:
        raise AnalysisError("anchor vanished: no CanSignal construction in fcp_dbc.dbc_writer")
    cfg = eng.cfg(builder)
    enc_param = builder.params[0].arg
    guards = []
    for n in walk_local(builder.node):
        if isinstance(n, ast.If) and is_terminating(n.body) and any(isinstance(x, ast.Raise) for x in n.body):
            t = n.test
            if isinstance(t, ast.Compare) and len(t.ops) == 1:
                l, op, r = t.left, t.ops[0], t.comparators[0]
                if isinstance(l, ast.Constant) and not isinstance(r, ast.Constant):
                    l, r = r, l
                    op = {ast.Gt: ast.Lt, ast.GtE: ast.LtE, ast.Lt: ast.Gt, ast.LtE: ast.GtE}.get(type(op), type(op))()
                if isinstance(r, ast.Constant) and isinstance(r.value, int):
                    guards.append((n, l, op, r.value))
    good_nodes = set()
    pv = Provenance(builder.node)
    for n, size_e, op, const in guards:
        atoms = {a for a in pv.of(size_e) if not a.startswith(("const:", "call:"))}
        about_size = any("bitlength" in a for a in atoms) and any("bitstart" in a or "bitlength" in a for a in atoms)
        if not about_size:
            continue
        tt = guard_truth(size_e, op, const)
        site = norm(n.test, 60)
        # size expression: last leaf extent or sum of lengths
        last_ok = any(a.startswith("%s[-1].bitstart" % enc_param) for a in atoms) and any(a.startswith("%s[-1].bitlength" % enc_param) for a in atoms)
        sum_ok = "call:sum" in pv.of(size_e) and any("bitlength" in a for a in atoms)
        if tt is None:
            rep.undecided("R14.1", builder.file, builder.qual, site, "a raising test on a size-like value whose arithmetic is not evaluated")
        elif not (last_ok or sum_ok) and tt is not None and tt != (False, False, True, True) and not (tt[0] or tt[1]):
            rep.undecided("R14.1", builder.file, builder.qual, site, "a raising test on a value that is not recognised as the layout's total bit length")
        elif not (last_ok or sum_ok) and tt == (False, False, True, True):
            rep.undecided("R14.1", builder.file, builder.qual, site, "raises for sizes above 64, on a value that is not recognised as the layout's total bit length (not counted as the guard)")
        elif tt == (False, False, True, True):
            # size expression: last leaf extent or sum of lengths
            last_ok = any(a.startswith("%s[-1].bitstart" % enc_param) for a in atoms) and any(a.startswith("%s[-1].bitlength" % enc_param) for a in atoms)
            sum_ok = "call:sum" in pv.of(size_e) and any("bitlength" in a for a in atoms)
            if last_ok or sum_ok:
                rep.ok("R14.1", builder.file, builder.qual, site, "raises exactly for total bits > 64 (%s)" % ("last leaf start+length" if last_ok else "sum of leaf lengths"))
                good_nodes.add(cfg.node_for(n))
            else:
                rep.violation("R14.1", builder.file, builder.qual, site, "the size tested (%s) is not the layout's total bit length (last leaf start+length / sum of lengths): a message can pass the test and still exceed the frame" % ",".join(sorted(atoms)))
        elif tt is not None:
            rep.violation("R14.1", builder.file, builder.qual, site, "size test raises for sizes (63,64,65,640) -> %s; it must raise exactly for sizes above 64 bits" % (tt,))
    good_nodes -= {None}
    if not good_nodes:
        rep.violation("R14.1", builder.file, builder.qual, "if <total bits> > 64: raise", "no raising size test on the layout's total bit length: a message wider than a CAN frame is emitted (truncated by the consumer)")
    else:
        for cs in ctor_sites:
            nid = cfg.stmt_node_containing(cs.node)
            if nid is None:
                # inside a loop body statement (append(CanSignal(...))): find enclosing statement
                for st in walk_local(builder.node):
                    if isinstance(st, ast.stmt) and any(x is cs.node for x in ast.walk(st)) and cfg.node_for(st) is not None:
                        nid = cfg.node_for(st)
            rep.check(nid is not None and cfg.every_path_passes(nid, good_nodes), "R14.1", builder.file, builder.qual, "signal construction after the size test", "guard dominates construction",
                      "signals can be constructed on a path that does not pass the size test")
        for n in walk_local(builder.node):
            if isinstance(n, ast.Return):
                rn = cfg.node_for(n)
                rep.check(rn is not None and cfg.every_path_passes(rn, good_nodes), "R14.1", builder.file, builder.qual, norm(n, 40), "guard dominates the return", "the signal builder can return without having tested the size")
    # the builder is what write_dbc uses for every CAN binding, unconditionally
    wd = prog.functions.get("fcp_dbc.dbc_writer.write_dbc")
    if wd is not None:
        calls = [cs for cs in cg.sites_in(wd) if builder.qual in cs.callees]
        msgs = [cs for cs in cg.sites_in(wd) if any(x.endswith("message.Message") or x.endswith("CanMessage") for x in cs.externals)]
        cfgw = eng.cfg(wd)
        for m in msgs:
            mn = None
            for st in walk_local(wd.node):
                if isinstance(st, ast.stmt) and not isinstance(st, (ast.For, ast.If, ast.While, ast.With, ast.Try)) and any(x is m.node for x in ast.walk(st)):
                    mn = cfgw.node_for(st)
            bn = {cfgw.stmt_node_containing(c.node) for c in calls} - {None}
            rep.check(bool(bn) and mn is not None and cfgw.every_path_passes(mn, bn), "R14.1", wd.file, wd.qual, "CanMessage(...) after %s(...)" % builder.name, "every message goes through the size-tested builder",
                      "a CAN message can be created without going through the size-tested signal builder")
            sig_arg = next((k.value for k in m.node.keywords if k.arg == "signals"), None)
            if sig_arg is not None and isinstance(sig_arg, ast.Name):
                okp = any(v is c.node or (isinstance(v, ast.Call) and v is c.node) for c in calls for k, v, st in Defs(wd.node).values(sig_arg.id))
                rep.check(okp, "R14.1", wd.file, wd.qual, "signals=%s" % sig_arg.id, "the message's signals are the builder's", "the message's signals are not the ones returned by the size-tested builder")
    # ---- R14.2 -------------------------------------------------------------------------
    from .C04 import r043, ENCODER
    enc = prog.cls(ENCODER)
    tlf = None
    for f in enc.methods.values():
        tests = [x for x in walk_local(f.node) if isinstance(x, ast.Call) and dotted(x.func) == "isinstance"]
        if len(tests) >= 3 and "length" in f.name:
            tlf = f
    if tlf is None:
        rep.undecided("R14.2", enc.file, enc.qual, "type-length function", "not found")
    else:
        sub = Report(rep.pid, rep.tier, rep.root, quiet=True)
        r043(eng, sub, tlf)
        for o in sub.obls:
            if "raise" in o["construct"] or "variable-size" in o["detail"] or "static length" in o["detail"] or o["verdict"] == "undecided":
                rep._add(o["verdict"], "R14.2", o["file"], o["function"], o["construct"], o["detail"])
        # no leaf without a length: every leaf emission's length is that function's result (C04 R04.3)
    # Type.get_length of variable-size classes raises too (used by nothing on this path, sibling agreement)
    for cname in ("DynamicArrayType", "OptionalType"):
        ci = prog.classes.get("fcp.specs.type." + cname)
        if ci and "get_length" in ci.methods:
            m = ci.methods["get_length"]
            rep.check(any(isinstance(x, ast.Raise) for x in walk_local(m.node)) and not any(isinstance(x, ast.Return) for x in walk_local(m.node)), "R14.2", m.file, m.qual, "get_length raises", "no static length", "%s.get_length returns a length for a variable-size type" % cname)
    # ---- R14.3 -------------------------------------------------------------------------
    from . import C09, C10
    sub = Report("C09", rep.tier, rep.root, quiet=True)
    C09.run(eng, sub)
    n3 = 0
    for o in sub.obls:
        if o["rule"] == "R09.1" and ("fcp_can_c" in o["file"] or "row 11" in o["construct"]) and ("size" in o["function"] or "row 11" in o["detail"] or "row 11" in o["construct"]):
            n3 += 1
            rep._add(o["verdict"], "R14.3", o["file"], o["function"], o["construct"], o["detail"])
    rep.floor("R14.3", "C size-check obligations", n3, 1)
    sub = Report("C10", rep.tier, rep.root, quiet=True)
    C10.run(eng, sub)
    for o in sub.obls:
        if o["rule"] == "R10.1" and o["verdict"] in ("violation", "undecided"):
            rep._add(o["verdict"], "R14.3", o["file"], o["function"], o["construct"], "verification gate: " + o["detail"])
        if o["rule"] == "R10.3" and "generate" in o["function"] and ("lazy" in o["detail"] or "yield" in o["construct"] or "return <list>" in o["construct"]):
            rep._add(o["verdict"], "R14.5", o["file"], o["function"], o["construct"], o["detail"])
    rep.ok("R14.3", "src/fcp/codegen.py", "fcp.codegen.GeneratorManager.generate", "R10.1 obligations re-evaluated", "registration and verification dominate generation")
    # ---- R14.5 -------------------------------------------------------------------------
    gen = prog.functions.get("fcp_dbc.generator.Generator.generate")
    if gen is None:
        raise AnalysisError("anchor vanished: fcp_dbc Generator.generate")
    xf = ExcFlow(eng, [gen.qual])
    raise_sites = []
    for n in walk_local(builder.node):
        if isinstance(n, ast.Raise):
            raise_sites.append((builder, n))
    if tlf is not None:
        for n in walk_local(tlf.node):
            if isinstance(n, ast.Raise):
                raise_sites.append((tlf, n))
    VE = ("ext", ValueError)
    for f, n in raise_sites:
        swallowed = swallow_sites(eng, xf, f, n, VE, gen.qual)
        rep.check(not swallowed, "R14.5", f.file, f.qual, norm(n, 60), "propagates to the plug-in's generate()", "the rejection is swallowed by a handler at %s: generation continues and a description of the oversize/variable-size message is emitted" % (swallowed[0] if swallowed else ""))
    # and generate itself does not catch it
    for t in [x for x in walk_local(gen.node) if isinstance(x, ast.Try)]:
        for h in t.handlers:
            if any(xf.covers(ht, VE) for ht in xf.handler_types(gen, h)):
                rep.violation("R14.5", gen.file, gen.qual, "except %s" % (norm(h.type) if h.type else ""), "generate() catches the rejection exception: a partial set of files can be returned")


def r144(eng, rep) -> None:
    """Re-uses the attribute-provenance decisions of C05 (DBC writer) and C06 (C writer) for start and length."""
    from . import C05, C06
    for mod, rule, keys in ((C05, "R05.2", ("start <-", "length <-")), (C06, "R06.1", ("start_bit <-", "bit_length <-"))):
        sub = type(rep)(rep.pid, rep.tier, rep.root, quiet=True)
        try:
            mod.run(eng, sub)
        except AnalysisError as e:
            rep.undecided("R14.4", "-", mod.__name__.split(".")[-1], "extent provenance", "sibling analysis failed: %s" % str(e)[:120])
            continue
        n = 0
        for o in sub.obls:
            if o["rule"] == rule and o["construct"].startswith(keys):
                n += 1
                rep._add(o["verdict"], "R14.4", o["file"], o["function"], o["construct"], o["detail"])
        if n == 0:
            rep.undecided("R14.4", "-", mod.__name__.split(".")[-1], "extent provenance", "no start/length obligation produced by the sibling analysis")


def swallow_sites(eng, xf: ExcFlow, f: FuncInfo, node: ast.AST, exc, root: str, seen=None, depth=0) -> List[str]:
    """Handlers that catch `exc` on some call path between the raise and `root`."""
    seen = set() if seen is None else seen
    if (f.qual, id(node)) in seen or depth > 15:
        return []
    seen.add((f.qual, id(node)))
    c, h = xf.caught_locally(f, node, exc)
    if c:
        return ["%s (except %s)" % (f.qual, norm(h.type) if h is not None and h.type is not None else "")]
    if f.qual == root:
        return []
    out = []
    for cs in eng.cg.callers_of(f.qual):
        if cs.caller.qual in xf.reach:
            out += swallow_sites(eng, xf, cs.caller, cs.node, exc, root, seen, depth + 1)
    return out
