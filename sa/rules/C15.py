"""C15 - field ids, not declaration order, fix the wire order in every back end.

R15.1 every wire-order-relevant iteration over a struct's field list is in ascending field_id
      (Python: loop body reaches a cursor method / a layout leaf / a TypeVisitor struct hook, or it
      builds the reflected field list; Jinja: loop emits Encode/Decode calls on the buffer)
R15.2 no site reverses or re-keys the order; the run-time C++ codec iterates the reflected order
"""

from __future__ import annotations

import ast
import re
from typing import Dict, List, Optional, Set, Tuple

from jinja2 import nodes as J

from ..front_py import AnalysisError, FuncInfo, walk_local, norm, dotted
from ..dataflow import Defs, stores_in, parent_map
from ..front_jinja import JinjaBinding, JTemplate
from ..types_lite import members

SF = "fcp.specs.struct_field.StructField"
STRUCT = "fcp.specs.struct.Struct"
RELEVANT_J = re.compile(r"(Encode|Decode)\s*\(\s*buffer")


def order_of(eng, f: FuncInfo, it: ast.AST, defs: Defs, depth: int = 0) -> Tuple[str, ast.AST]:
    """Classify an iterable expression: ('sorted', base) / ('declared', base) / ('other:<why>', base)."""
    if isinstance(it, ast.Call):
        d = dotted(it.func) or ""
        if d == "sorted" and it.args:
            key = None
            rev = False
            for k in it.keywords:
                if k.arg == "key":
                    key = k.value
                if k.arg == "reverse" and not (isinstance(k.value, ast.Constant) and not k.value.value):
                    rev = True
            inner_order, base = order_of(eng, f, it.args[0], defs, depth)
            if rev:
                return "other:reverse=True", base
            if key is None:
                return "other:sorted without key", base
            if key_is_field_id(key, eng, f):
                return "sorted", base
            ck = const_key_for_fields(key, eng)
            if ck:
                return "constkey:" + ck, base
            return "other:sort key %s is not field_id" % norm(key, 50), base
        if d in ("list", "tuple", "iter") and it.args:
            return order_of(eng, f, it.args[0], defs, depth)
        if d == "enumerate" and it.args:
            return order_of(eng, f, it.args[0], defs, depth)
        if d == "reversed" and it.args:
            o, base = order_of(eng, f, it.args[0], defs, depth)
            return "other:reversed", base
    if isinstance(it, ast.Name) and depth < 3:
        vals = [v for k, v, st in defs.values(it.id) if k == "assign" and v is not None]
        if len(vals) > 1:
            # memo idiom: `x = self.D.get(k)` / `self.D[k]`, computed and stored back (`self.D[k] = x`) when missing: the cached
            # values are exactly the computed ones, so the order is the computed binding's
            def cache_read(v):
                c = v.func.value if isinstance(v, ast.Call) and isinstance(v.func, ast.Attribute) and v.func.attr == "get" and len(v.args) in (1, 2) else (v.value if isinstance(v, ast.Subscript) else None)
                if c is None:
                    return False
                stores = [n for n in walk_local(f.node) if isinstance(n, ast.Assign) and len(n.targets) == 1 and isinstance(n.targets[0], ast.Subscript) and norm(n.targets[0].value) == norm(c)]
                return bool(stores) and all(isinstance(n.value, ast.Name) and n.value.id == it.id for n in stores)
            vals = [v for v in vals if not cache_read(v)] or vals
        if len(vals) == 1:
            o, base = order_of(eng, f, vals[0], defs, depth + 1)
            sorts = inplace_sorts(f, it.id)
            if sorts:
                # xs = list(<fields>); xs.sort(key=...): the iteration order is the in-place sort's
                v0 = vals[0]
                is_copy = (isinstance(v0, ast.Call) and (dotted(v0.func) or "").split(".")[-1] in ("list", "copy", "sorted")) or isinstance(v0, (ast.ListComp, ast.Subscript))
                if len(sorts) != 1:
                    return "other:sorted in place more than once", base
                c = sorts[0]
                key = next((k.value for k in c.keywords if k.arg == "key"), None)
                rev = any(k.arg == "reverse" and not (isinstance(k.value, ast.Constant) and not k.value.value) for k in c.keywords)
                if rev:
                    return "other:reverse=True", base
                if key is None:
                    return "other:sorted without key", base
                if key_is_field_id(key, eng, f):
                    return "sorted", base
                return "other:sort key %s is not field_id" % norm(key, 50), base
            return o, base
    if isinstance(it, ast.Subscript) and isinstance(it.slice, ast.Slice):
        step = it.slice.step
        if step is not None:
            return "other:sliced with a step", it.value
    if isinstance(it, ast.Call) and not (dotted(it.func) or "") in ("sorted", "list", "tuple", "iter", "enumerate", "reversed"):
        # produced by a call (a helper, a memo, a method of a layout object): the order is whatever that call returns
        ho = helper_order(eng, f, it)
        if ho is not None and ho[0] in ("sorted", "declared"):
            return ho[0], it
        return "unknown:the list comes from %s, whose order is not decided" % norm(it.func, 40), it
    if isinstance(it, ast.Subscript) and not isinstance(it.slice, ast.Slice):
        # an element of a container (a memo of field lists ...): its order is whatever was stored
        stored = [n.value for n in walk_local(f.node) if isinstance(n, ast.Assign) and len(n.targets) == 1 and isinstance(n.targets[0], ast.Subscript) and norm(n.targets[0].value) == norm(it.value)]
        if stored and depth < 3:
            os_ = {order_of(eng, f, v, defs, depth + 1)[0] for v in stored}
            if len(os_) == 1:
                return next(iter(os_)), it
        return "unknown:the list is read from %s, whose contents are not followed" % norm(it.value, 40), it
    return "declared", it


def const_key_for_fields(key: ast.AST, eng) -> Optional[str]:
    """key = lambda n: getattr(n, "<attr>", <default>) where a struct field has no such attribute: the key is the default for
    every field, the (stable) sort leaves them as they were"""
    if not (isinstance(key, ast.Lambda) and len(key.args.args) == 1):
        return None
    b, p = key.body, key.args.args[0].arg
    if isinstance(b, ast.Call) and dotted(b.func) == "getattr" and len(b.args) == 3 and isinstance(b.args[0], ast.Name) and b.args[0].id == p and isinstance(b.args[1], ast.Constant) and isinstance(b.args[2], ast.Constant):
        attr = str(b.args[1].value)
        ci = eng.prog.classes.get(SF)
        if ci is not None and attr not in ci.ann_fields and attr not in ci.methods:
            return "the sort key getattr(.., %r, %r) is the same constant for every struct field (%s has no attribute %r): the stable sort leaves the fields in declaration order" % (attr, b.args[2].value, ci.name, attr)
    return None


def helper_order(eng, f: FuncInfo, it: ast.AST):
    """`for x in helper(struct)`: the helper is a repository function whose returned value is built from
    `<param>.fields` -> (order, helper qual); order in {'sorted','declared','unknown: ...'}; None if the
    call is not such a helper."""
    if not isinstance(it, ast.Call):
        return None
    cs = eng.cg.site_of.get(id(it))
    if not cs or len(cs.callees) != 1 or cs.how == "by-name":
        return None
    g = eng.prog.functions.get(cs.callees[0])
    if g is None or g.cls is not None and g.name == "__init__":
        return None
    rets = [n.value for n in walk_local(g.node) if isinstance(n, ast.Return) and n.value is not None]
    if not rets:
        return None
    if not any(isinstance(x, ast.Attribute) and x.attr == "fields" for r in rets for x in ast.walk(r)) and \
       not any(isinstance(x, ast.Attribute) and x.attr == "fields" for x in ast.walk(g.node)):
        return None
    gt = eng.T.fn(g)
    gdefs = Defs(g.node)
    orders = set()
    for r in rets:
        o, base = order_of(eng, g, r, gdefs)
        if is_field_list(gt.of(base)) or (isinstance(base, ast.Attribute) and base.attr == "fields"):
            orders.add(o if o in ("sorted", "declared") else "unknown: " + o)
        else:
            orders.add("unknown: returns %s" % norm(r, 50))
    if len(orders) == 1:
        return orders.pop(), g.qual
    return "unknown: returns differ", g.qual


def key_is_field_id(key: ast.AST, eng=None, f: Optional[FuncInfo] = None) -> bool:
    """key function returns its argument's field_id: lambda p: p.field_id | attrgetter('field_id') | a named
    function / method whose body is `return <param>.field_id` (resolved when eng and f are given)"""
    if isinstance(key, ast.Lambda) and len(key.args.args) == 1:
        p = key.args.args[0].arg
        b = key.body
        return isinstance(b, ast.Attribute) and b.attr == "field_id" and isinstance(b.value, ast.Name) and b.value.id == p
    if isinstance(key, ast.Call) and (dotted(key.func) or "").split(".")[-1] == "attrgetter":
        return len(key.args) == 1 and isinstance(key.args[0], ast.Constant) and key.args[0].value == "field_id"
    if eng is not None and f is not None and isinstance(key, (ast.Name, ast.Attribute)):
        r = eng.prog.resolve_expr_symbol(f.module, f, key)
        g = None
        if r and r[0] in ("func", "localfunc"):
            g = eng.prog.functions.get(r[1])
        elif isinstance(key, ast.Attribute) and isinstance(key.value, ast.Name) and key.value.id in ("self", "cls") and f.cls is not None:
            g = eng.prog.find_method(f.cls, key.attr)
        elif isinstance(key, ast.Name) and f.module is not None:
            v = f.module.assigns.get(key.id)
            if v is not None and not isinstance(v, ast.Name):
                return key_is_field_id(v, eng, f)
        if g is not None:
            body = [st for st in g.node.body if not (isinstance(st, ast.Expr) and isinstance(st.value, ast.Constant))]
            ps = [p.arg for p in g.params if p.arg not in ("self", "cls")]
            if len(body) == 1 and isinstance(body[0], ast.Return) and len(ps) == 1:
                b = body[0].value
                return isinstance(b, ast.Attribute) and b.attr == "field_id" and isinstance(b.value, ast.Name) and b.value.id == ps[0]
    return False


def inplace_sorts(f: FuncInfo, name: str) -> List[ast.Call]:
    """`name.sort(...)` calls in f"""
    return [n for n in walk_local(f.node) if isinstance(n, ast.Call) and isinstance(n.func, ast.Attribute) and n.func.attr == "sort" and isinstance(n.func.value, ast.Name) and n.func.value.id == name]


def is_field_list(t) -> bool:
    ms = members(t)
    return bool(ms) and all(u[0] == "list" and u[1] == ("inst", SF) for u in ms)


def sinks(eng) -> Set[str]:
    prog, cg = eng.prog, eng.cg
    out: Set[str] = set()
    # cursor classes of the Python codec: classes instantiated by the public entry points
    for root in ("fcp.serde.encode", "fcp.serde.decode"):
        f = prog.func(root)
        for cs in cg.sites_in(f):
            if cs.how == "ctor":
                for c in cs.callees:
                    cq = c.rsplit(".", 1)[0]
                    if cq in prog.classes and prog.classes[cq].module.name.startswith("fcp.") and not prog.is_subclass(cq, "fcp.specs.type.Type"):
                        out |= {m.qual for m in prog.classes[cq].methods.values()}
    if not out:
        raise AnalysisError("anchor vanished: no cursor class instantiated in fcp.serde.encode/decode")
    v = prog.classes.get("fcp.encoding.Value")
    if v is None:
        raise AnalysisError("anchor vanished: fcp.encoding.Value")
    out.add("fcp.encoding.Value.__init__")
    tv = prog.cls("fcp.type_visitor.TypeVisitor")
    out |= {m.qual for m in prog.all_overrides(tv, "struct")}
    return out


def run(eng, rep) -> None:
    prog, cg, T = eng.prog, eng.cg, eng.T
    rep.explanation = (
        "Every iteration over a List[StructField] (types-lite) in the analysed Python units and every {% for %} over "
        "<Struct>.fields in the C++ templates is enumerated; an iteration is wire-order-relevant when its body reaches "
        "(call graph) a cursor method of the Python codec, the construction of a layout leaf, a TypeVisitor struct hook, "
        "or builds the reflected field list, resp. emits Encode/Decode calls on the buffer. Each relevant iteration must "
        "be sorted by field_id (sorted(key=lambda f: f.field_id) / attrgetter / | sort(attribute='field_id'))."
    )
    rep.rule("R15.1", "every wire-order-relevant iteration over a struct's fields is in ascending field_id")
    rep.rule("R15.3", "the order of a struct's fields is computed from that struct on every use (no module-level cache keyed by name)")
    rep.rule("R15.5", "a sort applied to struct fields has a key that the fields actually carry (a getattr default that every field falls back to sorts nothing)")
    rep.rule("R15.6", "no wire-relevant iteration takes a struct's fields in plain declaration order")
    rep.rule("R15.2", "the run-time C++ codec iterates the reflected field vector front to back, unsorted (order = Struct.reflection's)")
    rep.rule("R15.4", "generated C++ struct codec, typed AST of the instance for a model struct declared fb@1, fa@0, fc@2: Encode/Decode (and a decoding constructor, in member declaration order) touch the buffer in ascending field id; no unsequenced buffer accesses")
    rep.assume("dict-insertion order, list order and sorted() stability as specified by Python; jinja2's sort filter sorts ascending by the named attribute")
    S = sinks(eng)
    # functions that can reach a sink
    can_reach: Set[str] = set(S)
    changed = True
    while changed:
        changed = False
        for a, bs in cg.edges.items():
            if a not in can_reach and bs & can_reach:
                can_reach.add(a)
                changed = True
    refl_reach = cg.reachable(["fcp.specs.v2.FcpV2.reflection"]) if "fcp.specs.v2.FcpV2.reflection" in prog.functions else {}

    n_rel = 0
    seen_cache = set()
    inventory = []
    # parameters that receive a struct's field list at some call site (a shared helper that lists "nodes" of any kind)
    field_params: Dict[str, Dict[str, List[Tuple[FuncInfo, ast.AST]]]] = {}
    for f0 in prog.functions.values():
        ft0 = None
        for cs in cg.sites_in(f0):
            if len(cs.callees) != 1 or cs.how == "by-name" or cs.callees[0] not in prog.functions:
                continue
            g0 = prog.functions[cs.callees[0]]
            gps = [p.arg for p in g0.params]
            off = 1 if (g0.cls is not None and gps and gps[0] in ("self", "cls") and isinstance(cs.node.func, ast.Attribute)) else 0
            for i_, a_ in enumerate(cs.node.args):
                if isinstance(a_, ast.Starred) or i_ + off >= len(gps):
                    break
                ft0 = ft0 or T.fn(f0)
                if is_field_list(ft0.of(a_)):
                    field_params.setdefault(g0.qual, {}).setdefault(gps[i_ + off], []).append((f0, a_))
    for f in prog.functions.values():
        ft = T.fn(f)
        defs = None
        nodes = list(walk_local(f.node))
        for n in nodes:
            iters = []
            if isinstance(n, (ast.For, ast.AsyncFor)):
                iters.append((n.iter, n.body, "for"))
            elif isinstance(n, (ast.ListComp, ast.SetComp, ast.GeneratorExp)):
                for g in n.generators:
                    iters.append((g.iter, [ast.Expr(value=n.elt)] + [ast.Expr(value=c) for c in g.ifs], "comprehension"))
            elif isinstance(n, ast.DictComp):
                for g in n.generators:
                    iters.append((g.iter, [ast.Expr(value=n.key), ast.Expr(value=n.value)], "comprehension"))
            elif isinstance(n, ast.Call) and dotted(n.func) == "iter" and len(n.args) == 1 and not any(isinstance(y, (ast.Yield, ast.YieldFrom)) for y in walk_local(f.node)):
                # an explicit iterator walked with next() in this function (a work-list / frame-stack walk): its elements can reach
                # whatever the function calls
                iters.append((n.args[0], list(f.node.body), "iterator"))
            elif isinstance(n, ast.Call) and dotted(n.func) == "iter" and len(n.args) == 1:
                # an explicit iterator inside a generator (a work-list / frame-stack walk): what the generator yields goes to the
                # loops that consume it, so their bodies are what the elements reach
                cons_body = []
                for cs in cg.callers_of(f.qual):
                    pmc = parent_map(cs.caller.node)
                    par = pmc.get(id(cs.node))
                    if isinstance(par, (ast.For, ast.AsyncFor)) and par.iter is cs.node:
                        cons_body += par.body
                    elif isinstance(par, ast.comprehension) and par.iter is cs.node:
                        owner = pmc.get(id(par))
                        if isinstance(owner, (ast.ListComp, ast.GeneratorExp, ast.SetComp)):
                            cons_body.append(ast.Expr(value=owner.elt))
                if cons_body:
                    iters.append((n.args[0], cons_body, "iterator"))
            for it, body, kind in iters:
                if defs is None:
                    defs = Defs(f.node)
                order, base = order_of(eng, f, it, defs)
                bt = ft.of(base)
                hv = helper_order(eng, f, it) if (not is_field_list(bt) and not is_field_list(ft.of(it))) or (isinstance(it, ast.Call) and base is it) else None
                if hv is not None:
                    horder, hq = hv
                    g = prog.functions[hq]
                    for k_, tgt, st in stores_in(g.node):
                        root = tgt
                        while isinstance(root, (ast.Attribute, ast.Subscript)):
                            root = root.value
                        if isinstance(root, ast.Name) and root.id in g.module.assigns and root.id not in g.local_names() and (hq, norm(st, 70)) not in seen_cache:
                            seen_cache.add((hq, norm(st, 70)))
                            rep.violation("R15.3", g.file, g.qual, norm(st, 70), "the field order is kept in module-level object '%s' between calls: a struct of the same name (another schema, or the same schema with its declarations permuted) is serialised in the order remembered from the earlier one" % root.id)
                    relevant = any(isinstance(c, ast.Call) and cg.site_of.get(id(c)) and set(cg.site_of[id(c)].callees) & can_reach for b in body for c in ast.walk(b))
                    if relevant:
                        n_rel += 1
                        site = "%s %s" % (kind, norm(it, 80))
                        if horder == "sorted":
                            rep.ok("R15.1", f.file, f.qual, site, "ascending field_id (ordered by helper %s)" % hq)
                        elif horder == "declared":
                            rep.violation("R15.1", f.file, f.qual, site, "fields are serialised in declaration order, not ascending field_id (helper %s returns them unsorted)" % hq)
                        else:
                            rep.undecided("R15.1", f.file, f.qual, site, "iteration order is produced by helper %s in a form not decided (%s)" % (hq, horder))
                    continue
                via = field_params.get(f.qual, {}).get(base.id) if isinstance(base, ast.Name) else None
                if not is_field_list(bt) and not via:
                    # sorted(...) result assigned to a local first
                    if not (isinstance(base, ast.Name) and is_field_list(ft.of(it))):
                        if not is_field_list(ft.of(it)):
                            continue
                # relevance
                why = None
                for b in body:
                    for c in ast.walk(b):
                        if isinstance(c, ast.Call):
                            cs = cg.site_of.get(id(c))
                            if cs and set(cs.callees) & can_reach:
                                hit = sorted(set(cs.callees) & can_reach)[0]
                                why = "body reaches a wire sink via %s" % hit
                                break
                    if why:
                        break
                if why is None and f.name == "reflection" and f.qual in refl_reach:
                    why = "builds the reflected field list iterated by the run-time C++ codec"
                if why is None and via and any(c_.name == "reflection" and c_.qual in refl_reach for c_, _a in via):
                    why = "lists the struct fields handed over by %s, which builds the reflected field list iterated by the run-time C++ codec" % via[0][0].qual
                if via and order == "declared":
                    # the list is a parameter: its order is what the callers hand over
                    cos = {order_of(eng, c_, a_, Defs(c_.node))[0] for c_, a_ in via}
                    if cos == {"sorted"}:
                        order = "sorted"
                    elif "declared" not in cos or any(c_.startswith("unknown:") for c_ in cos):
                        order = "other:the order of the list is decided by the callers in a form not decided (%s)" % ", ".join(sorted(cos))[:80]
                site = "%s %s over %s" % (kind, norm(it, 80), norm(base, 40))
                inventory.append({"function": f.qual, "iter": norm(it, 80), "order": order, "relevant": bool(why)})
                if why is None:
                    rep.info("R15.1", f.file, f.qual, site, "not wire-relevant (lookup/count); order=%s" % order)
                    continue
                n_rel += 1
                if order == "sorted":
                    rep.ok("R15.1", f.file, f.qual, site, "ascending field_id; " + why)
                elif order.startswith("constkey:"):
                    rep.violation("R15.5", f.file, f.qual, site, "%s, not ascending field_id (%s)" % (order[9:], why))
                elif order == "declared":
                    rep.violation("R15.6", f.file, f.qual, site, "fields are serialised in declaration order, not ascending field_id (%s)" % why)
                elif "decided by the callers" in order or order.startswith("unknown:"):
                    rep.undecided("R15.1", f.file, f.qual, site, "%s (%s)" % (order.split(":", 1)[1], why))
                else:
                    rep.violation("R15.1", f.file, f.qual, site, "%s (%s)" % (order[6:], why))
    rep.floor("R15.1", "wire-relevant Python iterations over struct fields", n_rel, 2)
    rep.extra["python_field_iterations"] = inventory

    # ---- Jinja --------------------------------------------------------------------
    jb = JinjaBinding(eng)
    n_j = 0
    seen_templates = set()
    for rs in jb.sites:
        if rs.path is None or rs.path in seen_templates or not rs.path.endswith((".j2", ".jinja")):
            continue
        seen_templates.add(rs.path)
        t = jb.template(rs.path)
        assigns = t.assigns()
        for lp in t.loops():
            b = lp.base
            gfo = global_fields_order(eng, jb, b) if isinstance(b, J.Call) else None
            if gfo is not None and name_is_struct(eng, jb, t, assigns, gfo[0]) and RELEVANT_J.search(lp.body_text) and not lp.filters:
                # the iterable is produced by a Python helper registered as a template global
                n_j += 1
                what = "Encode" if "Encode" in lp.body_text else "Decode"
                site = "for %s in %s  [%s loop]" % (lp.target, lp.iter_src, what)
                if gfo[1] == "sorted":
                    rep.ok("R15.1", t.relpath, "struct block", site, "ascending field_id (ordered by the template global %s)" % b.node.name)
                elif gfo[1] == "declared":
                    rep.violation("R15.1", t.relpath, "struct block", site, "generated C++ %ss fields in declaration order (template global %s returns them unsorted), not ascending field_id" % (what.lower(), b.node.name))
                else:
                    rep.undecided("R15.1", t.relpath, "struct block", site, "order produced by the template global %s is not decided (%s)" % (b.node.name, gfo[1]))
                continue
            if not (isinstance(b, J.Getattr) and b.attr == "fields" and isinstance(b.node, J.Name)):
                continue
            if not name_is_struct(eng, jb, t, assigns, b.node.name):
                continue
            if not RELEVANT_J.search(lp.body_text):
                rep.info("R15.1", t.relpath, "line %d" % lp.lineno, "for %s in %s" % (lp.target, lp.iter_src), "not wire-relevant (no Encode/Decode on the buffer in the loop body)")
                continue
            n_j += 1
            what = "Encode" if "Encode" in lp.body_text else "Decode"
            site = "for %s in %s  [%s loop]" % (lp.target, lp.iter_src, what)
            before = t.text_before(lp.node)
            if re.search(r"\)\s*(noexcept\s*)?:\s*$", before) and ";" not in lp.body_text:
                # the loop writes a constructor's member-initialiser list: C++ runs the initialisers in the order the members
                # are DECLARED, whatever the order of the list
                decl = [l2 for l2 in t.loops() if l2 is not lp and isinstance(l2.base, J.Getattr) and l2.base.attr == "fields" and JTemplate.src(l2.base) == JTemplate.src(b)
                        and "(" not in l2.body_text and "=" not in l2.body_text and not re.search(r"\b(using|typedef|return)\b", l2.body_text) and l2.body_text.strip().endswith(";") and not RELEVANT_J.search(l2.body_text)]
                if len(decl) == 1:
                    d = decl[0]
                    if d.sort_attr == "field_id" and not d.sort_reverse:
                        rep.ok("R15.1", t.relpath, "struct block", site + " in a member-initialiser list", "members are declared in ascending field_id (line %d), which is the order initialisers run" % d.lineno)
                    else:
                        rep.violation("R15.1", t.relpath, "struct block", site + " in a member-initialiser list",
                                      "the loop writes a constructor's member-initialiser list, and C++ runs member initialisers in the order the members are declared (`for %s in %s`, line %d: %s), not in the order of the list: the buffer is %sd in declaration order" % (d.target, d.iter_src, d.lineno, "declaration order" if d.sort_attr is None else "by " + str(d.sort_attr), what.lower()))
                else:
                    rep.undecided("R15.1", t.relpath, "struct block", site + " in a member-initialiser list", "member declaration loop not identified (%d candidates)" % len(decl))
                continue
            if lp.sort_attr == "field_id" and not lp.sort_reverse:
                rep.ok("R15.1", t.relpath, "struct block", site, "ascending field_id")
            elif lp.sort_attr is None and not lp.sort_reverse:
                rep.violation("R15.1", t.relpath, "struct block", site, "generated C++ %ss fields in declaration order, not ascending field_id" % what.lower())
            else:
                rep.violation("R15.1", t.relpath, "struct block", site, "order is %s%s, not ascending field_id" % (lp.sort_attr, " reversed" if lp.sort_reverse else ""))
    rep.floor("R15.1", "wire-relevant template loops over struct fields", n_j, 2)
    # ---- R15.4: typed reading of the struct codec on a permuted model struct ----------------------
    from .struct_codec import run_struct_rules
    run_struct_rules(eng, rep, "R15.4", None)

    # ---- R15.2: dynamic codec follows the reflected order -------------------------
    dyn = None
    for rs in jb.sites:
        if rs.template.startswith("dynamic.h"):
            dyn = rs.path
    if dyn is None:
        rep.undecided("R15.2", "-", "-", "dynamic.h.j2", "render site of the run-time codec template not found")
    else:
        src = eng.read(dyn)
        loops = re.findall(r"for\s*\(([^;)]*?):\s*([^)]*?\bfields\b[^)]*)\)", src)
        bad = [l for l in re.findall(r"[^\n]*\bfields\b[^\n]*", src) if re.search(r"std::(sort|reverse|stable_sort)|rbegin|rend", l)]
        rep.check(not bad and len(loops) >= 2, "R15.2", dyn, "-", "range-for over fields x%d" % len(loops), "reflected field vectors are iterated front to back, never sorted/reversed",
                  "the run-time codec reorders or reverses the reflected field list: %s" % (bad[:1] or "loops not found"))


def global_fields_order(eng, jb: JinjaBinding, call) -> Optional[Tuple[str, str]]:
    """`{% for f in G(struct) %}` with G a Python function registered as a template global that returns the fields of its
    struct argument: -> (name of the struct argument, 'sorted' | 'declared' | 'unknown: ...'); None when G is not such a function"""
    if not (isinstance(call, J.Call) and isinstance(call.node, J.Name)):
        return None
    g = jb.global_func(call.node.name)
    if g is None:
        return None
    rets = [n.value for n in walk_local(g.node) if isinstance(n, ast.Return) and n.value is not None]
    if not rets:
        return None
    gdefs = Defs(g.node)
    orders, arg = set(), None
    for r in rets:
        o, base = order_of(eng, g, r, gdefs)
        if not (isinstance(base, ast.Attribute) and base.attr == "fields" and isinstance(base.value, ast.Name)):
            return None
        ps = [p.arg for p in g.params]
        if base.value.id not in ps:
            return None
        i = ps.index(base.value.id)
        if i < len(call.args) and isinstance(call.args[i], J.Name):
            arg = call.args[i].name
        orders.add(o if o in ("sorted", "declared") else "unknown: " + o)
    if arg is None:
        return None
    return arg, (orders.pop() if len(orders) == 1 else "unknown: returns differ")


def name_is_struct(eng, jb: JinjaBinding, t: JTemplate, assigns, name: str) -> bool:
    for a in assigns.get(name, []):
        if isinstance(a.node, J.Call) and isinstance(a.node.node, J.Name):
            g = jb.global_func(a.node.node.name)
            if g is not None:
                rt = eng.T.return_type(g)
                if rt == ("inst", STRUCT):
                    return True
    return False
