"""C02 - the Python codec emits and accepts exactly the canonical FCP wire format.

R02.1 effect grammar of encoder and decoder == canonical grammar table, for all 10 constructors
R02.2 canonical bit mapping of the primitives (LSB-first, byte = addr div 8, bit = addr mod 8, zero growth)
R02.3 oracle self-check: the canonical table, interpreted by the checker, reproduces the project's vectors
R02.4 every word written is limited to its declared width (no unmasked flow from the value to the store)
R02.5 sign reconstruction is two's complement (shared with R01.5)
Thorough tier: the same grammar/bit-mapping comparison on the C++ headers through clang (see C03).
"""

from __future__ import annotations

import ast
import json
import math
import os
import struct as pystruct
from typing import Dict, List

from ..front_py import AnalysisError, walk_local, norm, dotted
from ..effects import Unsupported
from ..dataflow import Provenance
from ..front_lark import Grammar, mini_schema
from .codec_py import (ENC, DEC, find_cursor_class, Prims, parser_type_classes, find_dispatcher, grammar_of, canon_effects, CANON, CANON_DEC, dispatcher_bypasses, validation_guards)
from .C01 import r015


def run(eng, rep) -> None:
    prog = eng.prog
    rep.explanation = (
        "The effect grammars extracted from the Python encoder and decoder (see C01) are compared with the canonical wire grammar "
        "frozen from the property text (DESIGN.md Appendix A.1) for all ten type constructors, and the primitives' bit mapping with the "
        "canonical one. A symmetric deviation (both sides MSB-first, both sides a u16 prefix) passes round-trip tests and fails here. "
        "The frozen table is itself validated on every run by interpreting it (checker code, not repository code) over the project's "
        "cross-language vectors."
    )
    rep.rule("R02.1", "Eff_enc(K) and Eff_dec(K) equal the canonical grammar of K")
    rep.rule("R02.2", "bit i of a word goes to address cursor+i; address a is bit (a mod 8), placed by <<, of byte (a div 8); store grows with zero bytes")
    rep.rule("R02.3", "canonical table reproduces tests/standardized/fcp_tests.json (guards the oracle, not the repo)")
    rep.rule("R02.4", "values merged into the store by a word write are masked to the word's width")
    rep.rule("R02.5", "two's complement sign reconstruction")
    rep.rule("R02.6", "C++ side (clang AST of requested instantiations): wrapper Encode/Decode grammars == canonical; fcp::Buffer per-bit LSB-first mapping, cursor advance by width, no lossy sub-byte shift")
    rep.rule("R02.7", "a test of the consumed bit count against the input length that raises rounds the bits up to whole bytes (zero padding in the last byte is canonical)")
    rep.rule("R02.9", "a key that stands for a schema type on the codec path reads every field that tells two types apart")
    from .lints import type_identity_keys
    type_identity_keys(eng, rep, "R02.9", ("fcp.serde",))
    rep.rule("R02.8", "a smallest-size function used in a rejecting guard is a true lower bound (absent Optional: 8 bits, empty string / dynamic array: 32 bits)")
    rep.rule("R02.10", "a work-list walk of the codec puts every expansion back at the end it takes from (one order for all constructors)")
    from .lints import mixed_worklist_ends
    mixed_worklist_ends(eng, rep, "R02.10", ("fcp.serde",), "its bytes are written (or read) after the fields that follow it, which is not the canonical order")
    rep.assume("struct native 'f'/'d' = IEEE-754 little-endian on the host; ASCII restriction of strings is not checked")
    cc = find_cursor_class(eng)
    pr = Prims(eng, cc)
    pr.check_bit_prims(); pr.check_word_prims(); pr.check_composites()
    P = parser_type_classes(eng)
    rep.floor("R02.1", "type classes produced by the parser", len(P), 10)
    disp = {}
    for side, root, table in (("enc", ENC, CANON), ("dec", DEC, CANON_DEC)):
        d = find_dispatcher(eng, root)
        if d is None:
            raise AnalysisError("anchor vanished: no type dispatcher reachable from %s" % root)
        disp[side] = d
        for K in P:
            kn = K.split(".")[-1]
            want = table.get(kn)
            if want is None:
                rep.undecided("R02.1", d.file, d.qual, "Eff_%s(%s)" % (side, kn), "no canonical grammar for this constructor")
                continue
            try:
                effs, it = grammar_of(eng, pr, d, K, side)
                g = canon_effects(effs, side)
            except Unsupported as u:
                rep.undecided("R02.1", d.file, d.qual, "Eff_%s(%s)" % (side, kn), str(u))
                continue
            if dispatcher_bypasses(effs):
                rep.undecided("R02.1", d.file, d.qual, "Eff_%s(%s)" % (side, kn), "handler reads/writes elements directly for some element classes (dispatcher bypass): [%s]; value effect decided by C01 R01.8" % g[:120])
                continue
            rep.check(g == want, "R02.1", d.file, d.qual, "Eff_%s(%s)" % (side, kn), "= canonical %s" % want, "%s performs [%s], canonical wire format is [%s]" % ("encoder" if side == "enc" else "decoder", g, want))
            for vg in validation_guards(effs):
                rep.undecided("R02.1", d.file, d.qual, "Eff_%s(%s): guard that only raises: %s" % (side, kn, vg), "input validation is not part of the wire grammar; that it never rejects a canonical encoding / an in-range value is decided only for the forms of R02.7 and C16")
    for v, tag, m, construct, detail in pr.findings:
        if tag == "bitmap":
            (rep.ok if v == "ok" else rep.violation if v == "violation" else rep.undecided)("R02.2", m.file, m.qual, construct, detail)
        elif tag == "cursor" and v == "violation":
            rep.violation("R02.2", m.file, m.qual, construct, detail)
    r024(eng, rep, pr)
    r027(eng, rep, cc)
    r028(eng, rep)
    r023(eng, rep)
    # R02.5 re-uses the R01.5 decision under this property's id
    sub = type(rep)(rep.pid, rep.tier, rep.root, quiet=True)
    r015(eng, sub, disp["dec"], pr)
    for o in sub.obls:
        rep._add(o["verdict"], "R02.5", o["file"], o["function"], o["construct"], o["detail"])
    from .cpp_codec import run_cpp_wire
    run_cpp_wire(eng, rep, "R02.6")


def bits_to_bytes_rounding(e: ast.AST, cattr: str):
    """e mentions the bit cursor: -> 'floor' | 'ceil' | 'bits' (not converted) | None (not recognised)"""
    def has_cur(x):
        return any(isinstance(n, ast.Attribute) and n.attr == cattr for n in ast.walk(x))

    def off(x):  # cursor + k -> k
        if isinstance(x, ast.Attribute) and x.attr == cattr:
            return 0
        if isinstance(x, ast.BinOp) and isinstance(x.op, ast.Add):
            for a, b in ((x.left, x.right), (x.right, x.left)):
                if isinstance(b, ast.Constant) and isinstance(b.value, int) and off(a) is not None:
                    return off(a) + b.value
        return None
    if isinstance(e, ast.Call) and dotted(e.func) == "int" and len(e.args) == 1:
        e = e.args[0]
    if isinstance(e, ast.Attribute) and e.attr == cattr:
        return "bits"
    if isinstance(e, ast.BinOp) and isinstance(e.right, ast.Constant) and ((isinstance(e.op, ast.FloorDiv) and e.right.value == 8) or (isinstance(e.op, ast.RShift) and e.right.value == 3)):
        k = off(e.left)
        if k == 0:
            return "floor"
        if k == 7:
            return "ceil"
        if isinstance(e.left, ast.UnaryOp) and isinstance(e.left.op, ast.USub) and off(e.left.operand) == 0:
            return "negfloor"
        return None
    if isinstance(e, ast.UnaryOp) and isinstance(e.op, ast.USub) and bits_to_bytes_rounding(e.operand, cattr) == "negfloor":
        return "ceil"
    if isinstance(e, ast.Call) and (dotted(e.func) or "").split(".")[-1] == "ceil" and len(e.args) == 1:
        a = e.args[0]
        if isinstance(a, ast.BinOp) and isinstance(a.op, ast.Div) and isinstance(a.right, ast.Constant) and a.right.value == 8 and off(a.left) == 0:
            return "ceil"
    return None


# which comparisons `bytes(consumed) OP len(input)` are true for some canonical input (whose length is ceil(bits / 8))
RAISES_ON_CANONICAL = {"floor": {"NotEq": "whenever the message does not end on a byte boundary", "Lt": "whenever the message does not end on a byte boundary", "LtE": "always",
                                 "Eq": "whenever the message ends on a byte boundary", "GtE": "whenever the message ends on a byte boundary"},
                       "ceil": {"LtE": "always", "Eq": "always", "GtE": "always"}}
FLIP = {"Lt": "Gt", "Gt": "Lt", "LtE": "GtE", "GtE": "LtE", "Eq": "Eq", "NotEq": "NotEq"}


def r027(eng, rep, cc) -> None:
    from ..dataflow import deep_resolve
    cattr = cc.C.split(".")[-1]
    entry = eng.prog.functions.get(DEC)
    mod = entry.module.name if entry else None
    n = 0
    for q in sorted(eng.cg.reachable([DEC])):
        f = eng.prog.functions[q]
        if f.module.name != mod:
            continue
        for st in walk_local(f.node):
            if not (isinstance(st, ast.If) and any(isinstance(b, ast.Raise) for b in st.body)):
                continue
            t = st.test
            if not (isinstance(t, ast.Compare) and len(t.ops) == 1):
                continue
            l, r = deep_resolve(f.node, t.left), deep_resolve(f.node, t.comparators[0])
            op = type(t.ops[0]).__name__
            def is_len(x):
                return isinstance(x, ast.Call) and dotted(x.func) == "len"
            def cur(x):
                return any(isinstance(y, ast.Attribute) and y.attr == cattr for y in ast.walk(x))
            if is_len(l) and cur(r):
                l, r, op = r, l, FLIP.get(op, op)
            if not (cur(l) and is_len(r)) or f.cls is not None and f.cls.qual in cc.quals:
                continue
            n += 1
            rd = bits_to_bytes_rounding(l, cattr)
            site = "if %s: raise" % norm(t, 70)
            if rd in ("floor", "ceil"):
                why = RAISES_ON_CANONICAL[rd].get(op)
                if why:
                    rep.violation("R02.7", f.file, f.qual, site, "the consumed bits are rounded %s to bytes and the test rejects a canonical encoding %s (the zero-padded last byte is part of the canonical encoding)" % ("down" if rd == "floor" else "up", why))
                else:
                    rep.ok("R02.7", f.file, f.qual, site, "never true for a canonical encoding (consumed bits rounded %s)" % rd)
            elif rd == "bits":
                rep.violation("R02.7", f.file, f.qual, site, "a bit count is compared with a byte length")
            else:
                rep.undecided("R02.7", f.file, f.qual, site, "conversion of the bit count to bytes not recognised")
    rep.ok("R02.7", "-", "-", "consumed-length tests outside the buffer class", "%d found" % n)


def r028(eng, rep) -> None:
    """A function that gives the smallest wire size of a type, used in a guard that rejects input (`count * min_size(T) > bits left`),
    must really be a lower bound: an absent Optional takes 8 bits, an empty string / dynamic array 32 - a branch that adds the
    element's size over-estimates, and the guard then rejects canonical encodings that contain absent / empty values."""
    prog, cg = eng.prog, eng.cg
    n = 0
    for q in sorted(cg.reachable([DEC])):
        f = prog.functions.get(q)
        if f is None or not f.module.name.startswith("fcp.serde"):
            continue
        # per-class branches of an isinstance dispatch that return sizes
        tparam = None
        branches = []
        for st in walk_local(f.node):
            if isinstance(st, ast.If) and isinstance(st.test, ast.Call) and dotted(st.test.func) == "isinstance" and len(st.test.args) == 2 and isinstance(st.test.args[0], ast.Name):
                rets = [r for r in st.body if isinstance(r, ast.Return) and r.value is not None]
                if rets:
                    cl = st.test.args[1]
                    names = [(dotted(c) or "").split(".")[-1] for c in (cl.elts if isinstance(cl, ast.Tuple) else [cl])]
                    branches.append((names, rets[0].value))
                    tparam = st.test.args[0].id
        if len(branches) < 3 or not any("OptionalType" in nm for nm, _ in branches):
            continue
        # is its result used in a raising comparison somewhere on the decode path?
        used_in_guard = None
        for q2 in cg.reachable([DEC]):
            g = prog.functions.get(q2)
            if g is None:
                continue
            gdefs = None
            for st in walk_local(g.node):
                if isinstance(st, ast.If) and any(isinstance(b, ast.Raise) for b in st.body) and isinstance(st.test, ast.Compare):
                    for c in ast.walk(st.test):
                        if isinstance(c, ast.Call) and cg.site_of.get(id(c)) and f.qual in cg.site_of[id(c)].callees:
                            used_in_guard = (g, st)
                        elif isinstance(c, ast.Name):
                            # a local bound to the bound function's result, or a parameter that receives it at a call site
                            from ..dataflow import Defs as _Defs
                            gdefs = gdefs or _Defs(g.node)
                            for k_, v_, st_ in gdefs.values(c.id):
                                if isinstance(v_, ast.Call) and cg.site_of.get(id(v_)) and f.qual in cg.site_of[id(v_)].callees:
                                    used_in_guard = (g, st)
                            gps = [p.arg for p in g.params]
                            if c.id in gps:
                                for cs in cg.callers_of(g.qual):
                                    off = 1 if (g.cls is not None and gps and gps[0] in ("self", "cls") and isinstance(cs.node.func, ast.Attribute)) else 0
                                    ai = gps.index(c.id) - off
                                    a_ = cs.node.args[ai] if 0 <= ai < len(cs.node.args) else next((k.value for k in cs.node.keywords if k.arg == c.id), None)
                                    if isinstance(a_, ast.Call) and cg.site_of.get(id(a_)) and f.qual in cg.site_of[id(a_)].callees:
                                        used_in_guard = (g, st)
        if used_in_guard is None:
            continue
        n += 1
        g, gst = used_in_guard
        for names, rv in branches:
            for k, lim in (("OptionalType", 8), ("StringType", 32), ("DynamicArrayType", 32)):
                if k not in names:
                    continue
                rec = [c for c in ast.walk(rv) if isinstance(c, ast.Call) and any(isinstance(a, ast.Attribute) and a.attr == "underlying_type" for a in ast.walk(c))]
                site = "%s: %s  (used in `if %s: raise` of %s)" % (k, norm(rv, 50), norm(gst.test, 50), g.name)
                if rec:
                    rep.violation("R02.8", f.file, f.qual, site, "the bound counts the %s's element (%s) although an %s takes only %d bits on the wire: the guard rejects canonical encodings that contain such values" % (k[:-4], norm(rec[0], 40), "absent Optional" if k == "OptionalType" else "empty sequence", lim))
                elif isinstance(rv, ast.Constant) and isinstance(rv.value, int):
                    rep.check(rv.value <= lim, "R02.8", f.file, f.qual, site, "<= smallest encoding (%d bits)" % lim, "the bound is %d bits, more than the smallest encoding of %s (%d bits): the guard rejects canonical encodings" % (rv.value, k[:-4], lim))
                else:
                    rep.undecided("R02.8", f.file, f.qual, site, "size expression not recognised")
    rep.ok("R02.8", "-", "-", "size-bound functions used in rejecting guards on the decode path", "%d found" % n)


def r024(eng, rep, pr: Prims) -> None:
    """In push-kind methods that write the store directly (not via the per-bit primitive): the value
    merged must be masked with something derived from the width parameter."""
    cc = pr.cc
    for name, m in pr.word_push.items():
        ps = [p.arg for p in m.params][1:]
        if len(ps) < 2:
            continue
        word, bits = ps[0], ps[1]
        writes = [n for k, n in cc.store_writes(m) if k == "elem"]
        if not writes:
            continue  # goes through the bit primitive; covered by R02.2
        txt = [norm(n, 200) for n in walk_local(m.node) if isinstance(n, (ast.Assign, ast.AugAssign))]
        masked = False
        for n in ast.walk(m.node):
            if isinstance(n, ast.BinOp) and isinstance(n.op, (ast.BitAnd, ast.Mod)):
                for side in (n.left, n.right):
                    if any(isinstance(x, ast.Name) and x.id == bits for x in ast.walk(side)) and ("<<" in norm(side) or "**" in norm(side)):
                        masked = True
        prov = Provenance(m.node)
        # callers that already reduce the value to the width (value & mask / value % 2**bits) make the
        # write safe whatever the method does
        callers = [cs for cs in eng.cg.callers_of(m.qual)]
        def arg_masked(cs):
            a = cs.node.args[0] if cs.node.args else None
            return isinstance(a, ast.BinOp) and isinstance(a.op, (ast.BitAnd, ast.Mod))
        if callers and all(arg_masked(cs) for cs in callers):
            masked = True
        for w in writes:
            uses_word = any(isinstance(x, ast.Name) and x.id == word for x in ast.walk(w.value)) or any(a == word or a.startswith(word + ".") or a.startswith(word + "[") for a in prov.of(w.value))
            if uses_word and not masked:
                rep.violation("R02.4", m.file, m.qual, norm(w, 70), "the value is merged into the store without being masked to `%s` bits: a negative (sign-extended) or out-of-range value sets bits of the following field / the padding" % bits)
            elif uses_word:
                rep.undecided("R02.4", m.file, m.qual, norm(w, 70), "arithmetic word write (masked); bit placement not in the recognised per-bit form")


# ---------------------------------------------------------------- oracle self check
def canon_encode(shape, value, enums, structs, bits: List[int]):
    k = shape[0]
    def put(v, n):
        v &= (1 << n) - 1
        for i in range(n):
            bits.append((v >> i) & 1)
    if k in ("u", "i"):
        sym = {"ULONG_MAX": 2**64 - 1, "LONG_MAX": 2**63 - 1, "LLONG_MAX": 2**63 - 1, "LLONG_MIN": -2**63, "LONG_MIN": -2**63, "UINT_MAX": 2**32 - 1, "INT_MAX": 2**31 - 1, "INT_MIN": -2**31}
        put(sym[value] if value in sym else int(str(value), 0), shape[1])
    elif k == "f32":
        for b in pystruct.pack("<f", float(value)):
            put(b, 8)
    elif k == "f64":
        for b in pystruct.pack("<d", float(value)):
            put(b, 8)
    elif k == "str":
        put(len(value), 32)
        for ch in value:
            put(ord(ch), 8)
    elif k == "array":
        for x in value:
            canon_encode(shape[1], x, enums, structs, bits)
    elif k == "dyn":
        put(len(value), 32)
        for x in value:
            canon_encode(shape[1], x, enums, structs, bits)
    elif k == "opt":
        put(0 if value is None else 1, 8)
        if value is not None:
            canon_encode(shape[1], value, enums, structs, bits)
    elif k == "named":
        if shape[1] in enums:
            e = enums[shape[1]]
            mx = max(e.values())
            p = 1 if mx in (0, 1) else mx.bit_length()
            put(e[value] if value in e else int(value), p)
        else:
            for fname, fid, ft in sorted(structs[shape[1]], key=lambda t: t[1]):
                canon_encode(ft, value[fname], enums, structs, bits)


def r023(eng, rep) -> None:
    import lark
    p = eng.path("tests", "standardized", "fcp_tests.json")
    if not os.path.exists(p):
        rep.undecided("R02.3", "tests/standardized/fcp_tests.json", "-", "vectors", "file not present")
        return
    suites = json.load(open(p))
    g = Grammar(eng.prog)
    n = bad = 0
    for s in suites:
        text = eng.read("tests", "standardized", s["schema"])
        structs = mini_schema(g, text)
        enums: Dict[str, Dict[str, int]] = {}
        tree = g.parse(text)
        for en in tree.find_data("enum"):
            name = str(en.children[0].children[0])
            vals = {}
            for ef in en.children[1:]:
                vals[str(ef.children[0].children[0])] = int(float(str(ef.children[1].children[0].children[0])))
            enums[name] = vals
        for t in s["tests"]:
            n += 1
            dt = t["datatype"]
            value = {k.split(":", 1)[1]: v for k, v in t["decoded"].items()}
            bits: List[int] = []
            try:
                canon_encode(("named", dt), value, enums, structs, bits)
            except Exception as e:  # oracle problem
                bad += 1
                rep.error("oracle self-check failed on vector %s: %r" % (t["name"], e))
                continue
            while len(bits) % 8:
                bits.append(0)
            got = [sum(bits[i * 8 + j] << j for j in range(8)) for i in range(len(bits) // 8)]
            want = [int(x, 0) if isinstance(x, str) else int(x) for x in t["encoded"]]
            if got != want:
                bad += 1
                rep.error("canonical table disagrees with project vector %s: table gives %s, vector says %s" % (t["name"], got, want))
    rep.floor("R02.3", "project wire vectors interpreted", n, 20)
    rep.ok("R02.3", "tests/standardized/fcp_tests.json", "-", "%d vectors" % n, "canonical table reproduces every vector" if not bad else "%d disagreements" % bad)
