"""C09 - verifier verdict equals the well-formedness specification (both ways).

R09.1 registered-check inventory == specification table (DESIGN.md Appendix A.2)
R09.2 category tables agree (Verifier.categories, FcpV2.get, register sites); populations right
R09.3 verdict propagation: every check/category verdict is attempt()ed under @catch, unconditionally
R09.4 checks are read-only on the schema
"""

from __future__ import annotations

import ast
import copy
from typing import Dict, List, Optional, Tuple

from ..front_py import AnalysisError, FuncInfo, walk_local, norm, dotted
from ..dataflow import stores_in, Defs
from ..predicates import Extractor, Undecided, Path, canon, fmt_atom
from ..excflow import ExcFlow, RESULT_ATTEMPT, MAYBE_ATTEMPT

GENERAL = "fcp.verifier.make_general_verifier"


# ---------------------------------------------------------------- spec (frozen from the property text)
def m_dup(pop_opts, key, nodekey):
    def match(paths: List[Path]):
        if len(paths) != 1:
            return None, "expected one error condition, found %d" % len(paths)
        p = paths[0]
        if p.binds:
            return None, "unexpected quantifier"
        want = [("dup", "[%s for _ in %s]" % (key, po), nodekey) for po in pop_opts]
        pos = [a for s, a in p.lits if s]
        neg = [a for s, a in p.lits if not s]
        hit = [a for a in pos if a in want]
        if not hit:
            near = [a for a in pos if a[0] in ("dup", "count-cmp")]
            if near:
                return False, "duplicate test is %s, specification requires %s" % (fmt_atom(near[0]), fmt_atom(want[0]))
            return None, "no duplicate-count test"
        extra = [a for a in pos if a not in hit] + [("not",) + a for a in neg]
        if extra:
            return False, "check is weakened by extra condition(s): %s" % "; ".join(fmt_atom(x) for x in extra)
        return True, ""
    return match


def m_exists_dup(pop, key):
    def match(paths: List[Path]):
        if len(paths) != 1:
            return None, "expected one error condition, found %d" % len(paths)
        p = paths[0]
        if len(p.binds) != 1 or p.binds[0][1] != pop:
            # non-quantified variant: DUP over NODE-free key is not expressible; undecided
            return None, "expected one loop over %s" % pop
        v = p.binds[0][0]
        want = ("dup", "[%s for _ in %s]" % (key, pop), key.replace("_", v))
        pos = [a for s, a in p.lits if s]
        neg = [a for s, a in p.lits if not s]
        if want not in pos:
            near = [a for a in pos if a[0] in ("dup", "count-cmp")]
            if near:
                return False, "duplicate test is %s, specification requires %s" % (fmt_atom(near[0]), fmt_atom(want))
            return None, "no duplicate-count test"
        extra = [a for a in pos if a != want] + [("not",) + a for a in neg]
        if extra:
            return False, "check is weakened by extra condition(s): %s" % "; ".join(fmt_atom(x) for x in extra)
        return True, ""
    return match


def m_single(atom_opts):
    def match(paths: List[Path]):
        if len(paths) != 1:
            return None, "expected one error condition, found %d" % len(paths)
        p = paths[0]
        pos = [a for s, a in p.lits if s]
        neg = [a for s, a in p.lits if not s]
        if p.binds:
            return None, "unexpected quantifier"
        hit = [a for a in pos if a in atom_opts]
        if not hit:
            same_kind = [a for a in pos if a[0] == atom_opts[0][0] or a[0].endswith("-cmp")]
            if same_kind:
                return False, "test is %s, specification requires %s" % (fmt_atom(same_kind[0]), fmt_atom(atom_opts[0]))
            return None, "no %s test" % atom_opts[0][0]
        extra = [a for a in pos if a not in hit] + [("not",) + a for a in neg]
        if extra:
            return False, "check is weakened by extra condition(s): %s" % "; ".join(fmt_atom(x) for x in extra)
        return True, ""
    return match


def m_device_services(paths: List[Path]):
    if len(paths) != 1:
        return None, "expected one error condition, found %d" % len(paths)
    p = paths[0]
    svc_lists = ["[_.name for _ in FCP.get('service').unwrap()]", "[_.name for _ in FCP.services]"]
    dev_iters = ["FCP.get('device').unwrap()", "FCP.devices"]
    binds = list(p.binds)
    dev = "NODE"
    if binds and binds[0][1] in dev_iters:
        dev = binds[0][0]
        binds = binds[1:]
    listed = ["%s.fields.get('services')" % dev, "%s.fields['services']" % dev]
    if len(binds) != 1 or binds[0][1] not in listed:
        return None, "expected a loop over the device's 'services' entry"
    s = binds[0][0]
    pos = [a for sg, a in p.lits if sg]
    neg = [a for sg, a in p.lits if not sg]
    want = [("notin", s, sl) for sl in svc_lists]
    if not any(a in want for a in pos):
        near = [a for a in pos if a[0] == "notin"]
        if near:
            return False, "membership test is %s, specification requires %s" % (fmt_atom(near[0]), fmt_atom(want[0]))
        return None, "no membership test"
    extra = [a for a in pos if a not in want] + [("not",) + a for a in neg if not (a[0] == "isnone" and a[1] in listed)]
    if extra:
        return False, "check is weakened by extra condition(s): %s" % "; ".join(fmt_atom(x) for x in extra)
    return True, ""


def m_unknown_struct(paths: List[Path]):
    ok_atoms = [("nothing", "FCP.get_struct(NODE.type)"), ("notin", "NODE.type", "[_.name for _ in FCP.structs]")]
    res, msg = m_single(ok_atoms)(paths)
    if res is not None:
        return res, msg
    if len(paths) == 1 and not paths[0].binds:
        for sg, a in paths[0].lits:
            if sg and a[0] in ("notin", "nothing") and "NODE.type" in " ".join(str(x) for x in a[1:]):
                pop = " ".join(str(x) for x in a[1:])
                if "get_types" in pop or "enums" in pop or "get_type(" in pop or "get_enum" in pop:
                    return False, "binding target is looked up among %s, i.e. not among structs only: a binding to an enum name is accepted" % pop[:80]
    return res, msg


ID_KEYS = ["_.fields.get('id')", "_.fields['id']"]
NODE_IDS = ["NODE.fields.get('id')", "NODE.fields['id']"]


def m_exists_other(p: Path):
    """`clashes = [.. for _ in POP if COND]; if clashes: error`  ==  exists another binding with the same id.
    -> (verdict, msg) or None when the path is not of that form."""
    import re as _re
    neg_empty = [a for s, a in p.lits if not s and a[0] == "empty" and isinstance(a[1], str) and a[1].startswith("[")]
    if len(neg_empty) != 1:
        return None
    m_ = _re.fullmatch(r"\[(.+?) for _ in (.+?) if (.+)\]", neg_empty[0][1])
    if not m_:
        return None
    pop, cond = m_.group(2), m_.group(3)
    conj = [c.strip() for c in _re.split(r"\s+and\s+", cond)]
    key_eq = excl = pop_can = False
    extra = []
    for c in conj:
        c0 = c.replace('"', "'")
        if any(c0 in ("%s == %s" % (a, b), "%s == %s" % (b, a)) for a in ID_KEYS for b in NODE_IDS):
            key_eq = True
        elif c0 in ("_ is not NODE", "NODE is not _", "_ != NODE", "NODE != _", "not _ is NODE", "id(_) != id(NODE)"):
            excl = True
        elif c0 in ("_.protocol == 'can'", "'can' == _.protocol"):
            pop_can = True
        else:
            extra.append(c0)
    if pop in ("FCP.get_matching_impls('can')",):
        pop_can = True
    if not key_eq:
        return None
    others = [a for s, a in p.lits if s and a != ("eq", "NODE.protocol", "'can'")] + [a for s, a in p.lits if not s and a is not neg_empty[0] and not (a[0] == "isnone" and a[1] in NODE_IDS)]
    if extra:
        return False, "the search for another binding with the same id is narrowed by %s: bindings it excludes (e.g. two bindings of the same struct) may share a frame id undetected" % "; ".join(extra)
    if others:
        return False, "check is weakened by extra condition(s): %s" % "; ".join(fmt_atom(x) for x in others)
    if not excl:
        return False, "the binding under test is not excluded from the search: every CAN binding with an id clashes with itself"
    if not pop_can:
        return False, "the search runs over all bindings, not the CAN bindings"
    return True, ""


def m_dbc_dup_ids(paths: List[Path]):
    if len(paths) != 1:
        return None, "expected one error condition, found %d" % len(paths)
    p = paths[0]
    if p.binds:
        return None, "unexpected quantifier"
    eo = m_exists_other(p)
    if eo is not None:
        return eo
    pos = [a for s, a in p.lits if s]
    neg = [a for s, a in p.lits if not s]
    dups = [a for a in pos if a[0] in ("dup", "count-cmp")]
    if len(dups) != 1:
        return None, "no single duplicate-count test"
    d = dups[0]
    if d[0] != "dup":
        return False, "duplicate test is %s" % fmt_atom(d)
    X, K = d[1], d[2]
    if K not in NODE_IDS:
        return False, "counted key %s is not the binding's frame id" % K
    pop_can = False
    none_excluded = False
    ok_shape = False
    for key in ID_KEYS:
        for pop in ("FCP.get_matching_impls('can')",):
            if X == "[%s for _ in %s]" % (key, pop):
                ok_shape = pop_can = True
        for filt, pc, ne in (("_.protocol == 'can'", True, False), ("_.protocol == 'can' and %s is not None" % key, True, True), ("%s is not None and _.protocol == 'can'" % key, True, True)):
            for base in ("FCP.impls", "FCP.get_matching_impls('can')"):
                if X == "[%s for _ in %s if %s]" % (key, base, filt):
                    ok_shape, pop_can, none_excluded = True, pc, ne
        if X == "[%s for _ in FCP.impls]" % key:
            ok_shape = True
    if not ok_shape:
        return None, "population %s not recognised" % X
    # guards on the node
    guards_pos = [a for a in pos if a is not d]
    for s_, a in [(False, a) for a in neg] + [(True, a) for a in guards_pos]:
        pass
    node_can = ("eq", "NODE.protocol", "'can'") in guards_pos
    node_has_id = any(a[0] == "isnone" and a[1] in NODE_IDS for a in neg)
    other = [a for a in guards_pos if a != ("eq", "NODE.protocol", "'can'")] + [("not",) + a for a in neg if not (a[0] == "isnone" and a[1] in NODE_IDS)]
    if other:
        return False, "check is weakened by extra condition(s): %s" % "; ".join(fmt_atom(x) for x in other)
    if not (pop_can or False):
        return False, "duplicate-id population is all bindings, not the CAN bindings: two non-CAN bindings (every struct has a default binding without an id) are counted as duplicates"
    if not (none_excluded or node_has_id):
        return False, "bindings without an id are counted (None == None): two CAN bindings lacking an id are reported as duplicate ids"
    return True, ""


def m_c_size(eng):
    def match(paths: List[Path]):
        if not paths:
            return None, "no error condition"
        sizes = []
        for p in paths:
            pos = [a for s, a in p.lits if s]
            g = [a for a in pos if a[0] in ("gt", "ge")]
            sizes += g
        if not sizes:
            return None, "no size comparison"
        gt = sizes[0]
        if gt[0] != "gt" or gt[2] != 64:
            return False, "size threshold is '%s %s', specification requires '> 64'" % (gt[0], gt[2])
        S = gt[1]
        layout = ("generate(" in S or ".bitlength" in S or "bitstart" in S) and ("bitlength" in S)
        if not layout:
            return False, "size expression %s is not the packed layout size (sum of type.get_length() raises on enum/struct fields and ignores nesting)" % S[:120]
        # every error path must be either the size test or a conversion of a layout failure
        for p in paths:
            pos = [a for s, a in p.lits if s]
            neg = [a for s, a in p.lits if not s]
            if gt in pos:
                allowed_neg = [("nothing", "FCP.get_struct(NODE.type)"), ("eq", "NODE.protocol", "'can'")]
                extra = [a for a in pos if a != gt and a != ("eq", "NODE.protocol", "'can'")] + [("not",) + a for a in neg if a not in allowed_neg and a[0] != "raises"]
                bad = [a for a in extra if not (a[0] == "eq" and a[1] == "NODE.protocol")]
                if bad:
                    return False, "size check is weakened by extra condition(s): %s" % "; ".join(fmt_atom(x) for x in bad)
        return True, ""
    return match


def spec_rows(eng):
    return [
        # (row, verifier, category, description, matcher)
        (1, "general", "type", "type names unique across structs and enums",
         m_dup(["FCP.structs + FCP.enums", "FCP.get_types()", "FCP.get('type').unwrap()"], "_.name", "NODE.name")),
        (2, "general", "impl", "(binding name, protocol) pairs unique",
         m_dup(["FCP.impls", "FCP.get('impl').unwrap()"], "(_.name, _.protocol)", "(NODE.name, NODE.protocol)")),
        (3, "general", "field", "field names unique within each struct",
         m_dup(["NODE[0].fields"], "_.name", "NODE[1].name")),
        (4, "general", "struct", "every struct has a field", m_single([("empty", "NODE.fields")])),
        (5, "general", "enum", "enumerator names unique within each enum", m_exists_dup("NODE.enumeration", "_.name")),
        (6, "general", "enum", "enumerator values unique within each enum", m_exists_dup("NODE.enumeration", "_.value")),
        (7, "general", "device", "every service listed by a device exists", m_device_services),
        (8, "fcp_dbc", "impl", "binding to an unknown struct", m_unknown_struct),
        (9, "fcp_dbc", "impl", "two CAN bindings with the same frame id", m_dbc_dup_ids),
        (10, "fcp_can_c", "impl", "binding to an unknown struct", m_unknown_struct),
        (11, "fcp_can_c", "impl", "CAN message wider than 64 bits", m_c_size(eng)),
    ]


# ---------------------------------------------------------------- helpers
def registered_checks(eng):
    """-> list of (FuncInfo, verifier-arg expr, category or None, owner) for @register(...)"""
    out = []
    for f, d in eng.cg.registered:
        cat = None
        if len(d.args) > 1 and isinstance(d.args[1], ast.Constant):
            cat = d.args[1].value
        for k in d.keywords:
            if k.arg == "category" and isinstance(k.value, ast.Constant):
                cat = k.value.value
        owner = "general" if f.module.name == "fcp.verifier" else f.module.name.split(".")[0]
        out.append((f, d.args[0] if d.args else None, cat, owner))
    # also direct verifier.register(fn, cat) calls
    for g, cs in getattr(eng.cg, "registered_direct", []):
        cat = cs.node.args[1].value if len(cs.node.args) > 1 and isinstance(cs.node.args[1], ast.Constant) else None
        for k in cs.node.keywords:
            if k.arg == "category" and isinstance(k.value, ast.Constant):
                cat = k.value.value
        owner = "general" if cs.caller.module.name == "fcp.verifier" else cs.caller.module.name.split(".")[0]
        out.append((g, cs.node.func.value if isinstance(cs.node.func, ast.Attribute) else None, cat, owner))
    return out


def extract(eng, f: FuncInfo):
    prog = eng.prog

    def resolves(e, quals):
        if isinstance(e, ast.Call):
            r = prog.resolve_expr_symbol(f.module, f, e.func)
            return bool(r) and r[0] in ("func", "class") and r[1] in quals
        return False

    is_err = lambda v: resolves(v, {"fcp.error.error", "fcp.result.Err"})
    is_ok = lambda v: resolves(v, {"fcp.result.Ok"})
    ps = [p.arg for p in f.params]
    rename = {}
    if len(ps) >= 3:
        rename = {ps[0]: "SELF", ps[1]: "FCP", ps[2]: "NODE"}
    ex = Extractor(f.node, is_err, is_ok, rename)
    paths = ex.run()
    return paths, ex


def run(eng, rep) -> None:
    prog, cg = eng.prog, eng.cg
    rep.explanation = (
        "The set of functions registered with @register (registry edges of the call graph) is compared with the "
        "specification table frozen from the property text: each check function is reduced to its error paths "
        "(local substitution, alpha-renaming, comparator normalisation on the ordering domain {0,1,>=2}) and must equal "
        "exactly one specification row (population, key, predicate); no row may be unmatched and no registered function "
        "may lie outside the table (the verdict must equal the specification both ways). Category tables of the verifier, "
        "FcpV2.get and the register sites must agree; every verdict is attempt()ed unconditionally under @catch."
    )
    rep.rule("R09.1", "registered checks == specification rows (population, key, predicate; count>=2 decided on {0,1,>=2})")
    rep.rule("R09.2", "category tables agree; FcpV2.get returns the right population for every category with a check")
    rep.rule("R09.3", "every check and category verdict is consumed by attempt() unconditionally inside @catch; registration appends")
    rep.rule("R09.4", "checks do not write the schema; predicates are order-symmetric by form")
    rep.rule("R09.5", "the size check measures the layout its plug-in emits: same encoder configuration as the writer (an array of structs raises in the non-unrolled layout and would be rejected although it fits)")
    rep.rule("R09.7", "an identity key is not one string glued from several identifier texts with a separator identifiers may contain")
    from .lints import composite_text_keys
    composite_text_keys(eng, rep, "R09.7", ("fcp.verifier", "fcp_dbc", "fcp_can_c"), "two distinct declarations are reported as duplicates (a valid schema is rejected)")
    rep.rule("R09.6", "a by-name struct/enum lookup in a check is fed with the name the node refers to (.type), not the node's own name")
    rep.rule("R09.8", "a cycle guard in a check forgets an element when the walk leaves it (reject-on-revisit with a grow-only set rejects diamonds)")
    from .lints import grow_only_cycle_guard
    grow_only_cycle_guard(eng, rep, "R09.8", ("fcp.verifier", "fcp_dbc", "fcp_can_c"), "a valid schema is refused")
    from .lints import name_kind_sinks
    name_kind_sinks(eng, rep, "R09.6", ("fcp.verifier", "fcp_dbc", "fcp_can_c", "fcp_cpp"), "the check looks for a struct called like the binding, so a binding whose name differs from its struct is rejected (or a dangling one accepted when a struct happens to be called like it)")
    rep.assume("list.count / len / in as specified by Python; order independence follows from the symmetric predicate forms (count, emptiness, membership)")
    prog.func(GENERAL)
    regs = registered_checks(eng)
    rep.floor("R09.1", "registered general checks", len([r for r in regs if r[3] == "general"]), 4)
    rep.floor("R09.1", "registered plug-in checks", len([r for r in regs if r[3] != "general"]), 2)

    rows = spec_rows(eng)
    extracted = {}
    for f, varg, cat, owner in regs:
        try:
            paths, ex = extract(eng, f)
            extracted[f.qual] = (paths, None)
        except Undecided as u:
            extracted[f.qual] = (None, str(u))
    matched_rows: Dict[int, str] = {}
    func_row: Dict[str, int] = {}
    verdicts = {}
    for f, varg, cat, owner in regs:
        paths, why = extracted[f.qual]
        if paths is None:
            rep.undecided("R09.1", f.file, f.qual, "def %s" % f.name, "check outside the recognised predicate forms: %s" % why)
            continue
        cands = [r for r in rows if r[1] == owner and r[2] == cat]
        best = None
        for row in cands:
            res, msg = row[4](paths)
            if res is True and row[0] not in matched_rows:
                best = (row, True, msg)
                break
            if res is False and best is None:
                best = (row, False, msg)
        desc = "; ".join(p.describe() for p in paths) or "<never errors>"
        if best is None:
            if not paths:
                rep.violation("R09.1", f.file, f.qual, "def %s [%s]" % (f.name, cat), "registered check can never return an error")
            elif cands:
                # same owner/category but no row recognises it -> could be an equivalent rewrite
                rep.undecided("R09.1", f.file, f.qual, "def %s [%s]" % (f.name, cat), "error condition '%s' matches no specification row of (%s, %s) in a recognised form" % (desc[:200], owner, cat))
            else:
                rep.violation("R09.1", f.file, f.qual, "def %s [%s]" % (f.name, cat), "registered check '%s' is outside the specification: the verifier rejects schemas the specification accepts" % desc[:200])
            continue
        row, ok, msg = best
        if ok:
            matched_rows[row[0]] = f.qual
            func_row[f.qual] = row[0]
            rep.ok("R09.1", f.file, f.qual, "def %s [%s]" % (f.name, cat), "= spec row %d (%s): %s" % (row[0], row[3], desc[:160]))
        else:
            matched_rows.setdefault(row[0], f.qual)
            rep.violation("R09.1", f.file, f.qual, "def %s [%s]" % (f.name, cat), "spec row %d (%s): %s" % (row[0], row[3], msg))
    undecided_owners = {(o, c) for f, _, c, o in regs if extracted[f.qual][0] is None}
    for row in rows:
        if row[0] not in matched_rows:
            if (row[1], row[2]) in undecided_owners or any(o["verdict"] == "undecided" and o["rule"] == "R09.1" for o in rep.obls if "[%s]" % row[2] in o["construct"]):
                rep.undecided("R09.1", "-", row[1], "spec row %d" % row[0], "no recognised check for '%s' (an unrecognised check exists in this category)" % row[3])
            else:
                rep.violation("R09.1", "-", row[1], "spec row %d: %s" % (row[0], row[3]), "no registered check implements this condition: the verifier accepts schemas the specification rejects")

    # verifier object identity
    gen = prog.func(GENERAL)
    rets = [n.value for n in walk_local(gen.node) if isinstance(n, ast.Return) and n.value is not None]
    for f, varg, cat, owner in regs:
        if owner == "general" and f.parent is gen:
            okv = varg is not None and rets and all(norm(r) == norm(varg) for r in rets)
            rep.check(bool(okv), "R09.1", f.file, f.qual, "@register(%s, ...)" % (norm(varg) if varg is not None else "?"), "registered on the verifier that make_general_verifier returns",
                      "check is registered on an object other than the verifier returned by make_general_verifier")
        elif owner != "general" and f.parent is not None and f.parent.name == "register_checks":
            pname = f.parent.params[1].arg if len(f.parent.params) > 1 else None
            rep.check(isinstance(varg, ast.Name) and varg.id == pname and not Defs(f.parent.node).values(pname), "R09.1", f.file, f.qual, "@register(%s, ...)" % (norm(varg) if varg is not None else "?"),
                      "registered on the verifier handed to register_checks", "plug-in check is not registered on the verifier it was given")

    r092(eng, rep, regs)
    r093(eng, rep)
    r095(eng, rep, regs, func_row)
    # itertools.groupby only groups *adjacent* equal keys
    seen_g = set()
    for f0, varg, cat, owner in regs:
        for q in sorted(cg.reachable([f0.qual])):
            g = prog.functions.get(q)
            if g is None or q in seen_g or not (g.module.name.startswith(("fcp.verifier", "fcp_dbc", "fcp_can_c", "fcp_cpp")) or g is f0):
                continue
            seen_g.add(q)
            for n in ast.walk(g.node):
                if isinstance(n, ast.Call) and (dotted(n.func) or "").split(".")[-1] == "groupby" and n.args:
                    a0 = n.args[0]
                    srt = isinstance(a0, ast.Call) and dotted(a0.func) == "sorted"
                    if isinstance(a0, ast.Name):
                        vs_ = [v for k, v, st in Defs(g.node).values(a0.id) if v is not None]
                        srt = bool(vs_) and all(isinstance(v, ast.Call) and dotted(v.func) == "sorted" for v in vs_)
                    rep.check(srt, "R09.4", g.file, g.qual, norm(n, 60), "groupby over a sorted sequence",
                              "itertools.groupby groups only adjacent equal keys and the sequence is not sorted by that key: a repeated value that is not next to its twin is not found, so the verdict depends on declaration order")
    # ---- R09.4 -----------------------------------------------------------------------
    stateless(eng, rep, "R09.4", verification_path(eng))
    for f, varg, cat, owner in regs:
        ps = {p.arg for p in f.params}
        bad = []
        for kind, tgt, st in stores_in(f.node):
            root = tgt
            while isinstance(root, (ast.Attribute, ast.Subscript)):
                root = root.value
            if isinstance(root, ast.Call):
                continue
            if isinstance(root, ast.Name) and root.id in ps and not (kind == "aug" and isinstance(tgt, ast.Name)):
                bad.append(norm(st, 70))
        rep.check(not bad, "R09.4", f.file, f.qual, "def %s: stores" % f.name, "reads only", "check mutates its arguments: %s" % "; ".join(bad))


def encoder_configs(eng, f: FuncInfo):
    """make_encoder(...) call sites in `f` -> [(call, unroll: True/False/None)]: the array-unrolling flag of the
    context expression, resolved through one local binding and the context class' constructor default."""
    prog = eng.prog
    out = []
    defs = Defs(f.node)

    def default_of(cls_q):
        ci = prog.classes.get(cls_q)
        init = ci.methods.get("__init__") if ci else None
        if init is None:
            return None
        a = init.node.args
        names = [x.arg for x in a.args]
        if "unroll_arrays" in names:
            k = names.index("unroll_arrays") - (len(names) - len(a.defaults))
            if 0 <= k < len(a.defaults) and isinstance(a.defaults[k], ast.Constant):
                return bool(a.defaults[k].value)
        return None

    def flag(e, depth=0):
        if isinstance(e, ast.Name) and depth < 3:
            vs = defs.values(e.id)
            if len(vs) == 1 and vs[0][0] == "assign" and vs[0][1] is not None:
                return flag(vs[0][1], depth + 1)
            return None
        if isinstance(e, ast.Call):
            if isinstance(e.func, ast.Attribute) and e.func.attr == "with_unroll_arrays":
                a = e.args[0] if e.args else next((k.value for k in e.keywords if k.arg == "unroll_arrays"), None)
                return bool(a.value) if isinstance(a, ast.Constant) else None
            r = prog.resolve_expr_symbol(f.module, f, e.func)
            if r and r[0] == "class" and r[1].endswith("EncoderContext"):
                a = e.args[0] if e.args else next((k.value for k in e.keywords if k.arg == "unroll_arrays"), None)
                if a is None:
                    return default_of(r[1])
                return bool(a.value) if isinstance(a, ast.Constant) else None
        return None

    for n in walk_local(f.node):
        if isinstance(n, ast.Call):
            r = prog.resolve_expr_symbol(f.module, f, n.func)
            if r and r[0] == "func" and r[1] == "fcp.encoding.make_encoder":
                ctx = n.args[2] if len(n.args) > 2 else next((k.value for k in n.keywords if k.arg == "ctx"), None)
                out.append((n, flag(ctx) if ctx is not None else None))
    return out


def r095(eng, rep, regs, func_row) -> None:
    prog = eng.prog
    for f, varg, cat, owner in regs:
        if func_row.get(f.qual) != 11:
            continue
        mine = encoder_configs(eng, f)
        if not mine:
            rep.undecided("R09.5", f.file, f.qual, "make_encoder(...)", "size check does not build its layout through make_encoder")
            continue
        emit = []
        for g in prog.functions.values():
            if g.module.name.split(".")[0] == owner and g is not f and not (g.parent is not None and g.parent.name == "register_checks"):
                emit += [(g, c, u) for c, u in encoder_configs(eng, g)]
        if not emit:
            rep.undecided("R09.5", f.file, f.qual, "make_encoder(...)", "no emitting encoder site found in %s" % owner)
            continue
        want = {u for _, _, u in emit}
        for c, u in mine:
            if u is None or None in want or len(want) != 1:
                rep.undecided("R09.5", f.file, f.qual, norm(c, 80), "encoder configuration not resolved to a constant")
            elif u in want:
                rep.ok("R09.5", f.file, f.qual, norm(c, 80), "unroll_arrays=%s, as at %s" % (u, "; ".join("%s" % g.qual for g, _, _ in emit)))
            else:
                rep.violation("R09.5", f.file, f.qual, norm(c, 80), "size check lays the message out with unroll_arrays=%s but the writer (%s) emits with unroll_arrays=%s: with arrays kept whole an array of structs has no computable length (ValueError -> verification error), so messages that fit in 64 bits are rejected" % (u, emit[0][0].qual, next(iter(want))))


def stateless(eng, rep, rule: str, funcs) -> None:
    """No function in `funcs` writes an object that outlives the call (self.*, closure or module state)."""
    # state that is scoped to one pass: `self.A` is rebound to a fresh empty container before a `try:` whose `finally:` rebinds
    # it again (restore / clear).  What is stored there cannot be seen by a later pass.
    scoped = set()
    for f in funcs:
        body = list(walk_local(f.node))
        for i_, st in enumerate(body):
            if not isinstance(st, ast.Try) or not st.finalbody:
                continue
            fin = {norm(t) for b in st.finalbody for n in ast.walk(b) if isinstance(n, ast.Assign) for t in n.targets}
            for a in fin:
                if not a.startswith("self."):
                    continue
                # a fresh binding of the same attribute somewhere before the try in this function
                for n in body:
                    if isinstance(n, ast.Assign) and n.lineno <= st.lineno:
                        tg, vs = n.targets[0], n.value
                        pairs = list(zip(tg.elts, vs.elts)) if isinstance(tg, ast.Tuple) and isinstance(vs, ast.Tuple) and len(tg.elts) == len(vs.elts) else [(tg, vs)]
                        for t_, v_ in pairs:
                            if norm(t_) == a and (isinstance(v_, (ast.Dict, ast.List, ast.Set)) and not getattr(v_, "keys", None) and not getattr(v_, "elts", None) or (isinstance(v_, ast.Call) and dotted(v_.func) in ("dict", "list", "set") and not v_.args)):
                                scoped.add(a)
    for f in funcs:
        loc = f.local_names()
        ps = {p.arg for p in f.params}
        bad = []
        for kind, tgt, st in stores_in(f.node):
            root = tgt
            while isinstance(root, (ast.Attribute, ast.Subscript)):
                root = root.value
            if not isinstance(root, ast.Name):
                continue
            if kind == "aug" and isinstance(tgt, ast.Name):
                continue
            if root.id == "self" or (root.id not in loc and root.id not in ps):
                bad.append((norm(st, 70), root.id))
        for n in walk_local(f.node):
            if isinstance(n, (ast.Global, ast.Nonlocal)):
                bad.append((norm(n, 40), ",".join(n.names)))
        pass_scoped = [(txt, root) for txt, root in bad if any(txt.startswith(a + "[") or txt.startswith(a + " =") or (", " + a + " =") in txt or ("= (" + a) in txt or txt.startswith(a + ".") for a in scoped)]
        for txt, root in pass_scoped:
            rep.undecided(rule, f.file, f.qual, txt, "state on the verifier that is made fresh at the start of a pass and rebound in a `finally:`; that nothing reads it outside that pass is not decided")
        bad = [b for b in bad if b not in pass_scoped]
        for txt, root in bad:
            rep.violation(rule, f.file, f.qual, txt, "verification keeps state between calls ('%s' outlives the call): a verdict can be computed from an earlier state of the schema or of the check set" % root)
        if not bad:
            rep.ok(rule, f.file, f.qual, "no retained state", "writes only locals")


def verification_path(eng):
    """Verifier.verify, what it reaches inside fcp.verifier, and all registered checks."""
    prog, cg = eng.prog, eng.cg
    out = []
    reach = cg.reachable(["fcp.verifier.Verifier.verify"])
    for q in sorted(reach):
        f = prog.functions[q]
        if f.module.name == "fcp.verifier" and f.name not in ("register", "__init__", "decorator", "make_general_verifier"):
            out.append(f)
    for f, _ in list(cg.registered) + list(getattr(cg, "registered_direct", [])):
        if f not in out:
            out.append(f)
    return out


def r092(eng, rep, regs) -> None:
    prog = eng.prog
    v = prog.cls("fcp.verifier.Verifier")
    init = v.methods.get("__init__")
    cats = None
    for n in walk_local(init.node):
        if isinstance(n, ast.Assign) and norm(n.targets[0]) == "self.categories" and isinstance(n.value, (ast.List, ast.Tuple)):
            cats = [e.value for e in n.value.elts if isinstance(e, ast.Constant)]
    if cats is None:
        rep.undecided("R09.2", init.file, init.qual, "self.categories", "category list is not a literal")
        return
    used = sorted({c for _, _, c, _ in regs if c is not None})
    get = prog.func("fcp.specs.v2.FcpV2.get")
    # branches of FcpV2.get: category == 'x' -> return Some(E)
    branches: Dict[str, ast.AST] = {}
    pname = get.params[1].arg

    def scan(stmts):
        for st in stmts:
            if isinstance(st, ast.If):
                t = st.test
                if isinstance(t, ast.Compare) and len(t.ops) == 1 and isinstance(t.ops[0], ast.Eq) and isinstance(t.left, ast.Name) and t.left.id == pname and isinstance(t.comparators[0], ast.Constant):
                    r = [x for x in st.body if isinstance(x, ast.Return)]
                    if r and r[-1].value is not None:
                        branches[t.comparators[0].value] = r[-1].value
                else:
                    scan(st.body)  # a guard around the chain (e.g. a type test of the argument)
                scan(st.orelse)
    scan(get.node.body)
    want_pop = {
        "struct": ["self.structs"], "enum": ["self.enums"], "impl": ["self.impls"], "device": ["self.devices"], "service": ["self.services"],
        "type": ["self.get_types()", "self.structs + self.enums"],
        "field": ["_flatten([[(_1, _) for _ in _1.fields] for _1 in self.structs])", "[(_, _1) for _ in self.structs for _1 in _.fields]", "_flatten([[(_, _1) for _1 in _.fields] for _ in self.structs])", "_flatten([[(_, _2) for _2 in _.fields] for _ in self.structs])", "[(_, _2) for _ in self.structs for _2 in _.fields]"],
        "signal_block": ["_flatten([_.signals for _ in self.impls])", "[_1 for _ in self.impls for _1 in _.signals]"],
    }
    for c in used:
        rep.check(c in cats, "R09.2", init.file, init.qual, "category '%s' in Verifier.categories" % c, "iterated by verify", "checks are registered under '%s' but verify never iterates that category" % c)
        if c not in branches:
            rep.violation("R09.2", get.file, get.qual, "category == '%s'" % c, "FcpV2.get has no branch for a category that has registered checks: run_checks gets Nothing and the verifier returns Nothing instead of a verdict")
            continue
        e = branches[c]
        okS = isinstance(e, ast.Call) and dotted(e.func) == "Some" and len(e.args) == 1
        if not okS:
            rep.violation("R09.2", get.file, get.qual, "category == '%s' -> %s" % (c, norm(e, 60)), "branch does not return Some(<population>)")
            continue
        got = canon(e.args[0])
        if c in want_pop:
            if got in want_pop[c]:
                rep.ok("R09.2", get.file, get.qual, "category == '%s' -> Some(%s)" % (c, got[:70]), "population is the specified node set")
            elif any(k in got for k in ("[:", "[1:", "[:-1", " if ")):
                rep.violation("R09.2", get.file, get.qual, "category == '%s' -> Some(%s)" % (c, got[:90]), "population handed to the checks is a filtered/sliced subset of the specified node set")
            else:
                rep.undecided("R09.2", get.file, get.qual, "category == '%s' -> Some(%s)" % (c, got[:90]), "population expression not in a recognised form")
    rep.floor("R09.2", "categories with registered checks", len(used), 3)


def r093(eng, rep) -> None:
    prog, cg = eng.prog, eng.cg
    v = prog.cls("fcp.verifier.Verifier")
    verify = v.methods.get("verify")
    runc = v.methods.get("run_checks")
    reg = v.methods.get("register")
    if not (verify and runc and reg):
        raise AnalysisError("anchor vanished: Verifier.verify/run_checks/register")
    for m in (verify, runc):
        uses_attempt = any(isinstance(n, ast.Call) and isinstance(n.func, ast.Attribute) and n.func.attr == "attempt" for n in ast.walk(m.node))
        if uses_attempt:
            rep.check(m.has_decorator("catch"), "R09.3", m.file, m.qual, "@catch", "propagation frame present", "no @catch: a rejecting check raises ResultAttemptError out of the verifier instead of returning an error")
        else:
            rep.ok("R09.3", m.file, m.qual, "no attempt() in the body", "verdicts are propagated by explicit returns; no propagation frame needed")
    # verify: for category in self.categories: self.run_checks(category, fcp).attempt()
    def loop_calls_attempt(m: FuncInfo, iter_pred, callee_pred, what):
        fors = [n for n in walk_local(m.node) if isinstance(n, ast.For)]
        cfg = eng.cfg(m)
        good = False
        for fo in fors:
            if not iter_pred(fo):
                continue
            # inside the innermost body: an Expr statement `<call>.attempt()` not under an if
            for st in ast.walk(fo):
                if isinstance(st, ast.Call) and isinstance(st.func, ast.Attribute) and st.func.attr == "attempt" and isinstance(st.func.value, ast.Call) and callee_pred(st.func.value):
                    # unconditional within the loop nest: no If/Try/Break/Continue/Return between `fo` and st
                    chain = path_to(fo, st)
                    cond = [x for x in chain if isinstance(x, (ast.If, ast.Try, ast.While, ast.IfExp, ast.BoolOp, ast.Lambda))]
                    esc = [x for x in ast.walk(fo) if isinstance(x, (ast.Break, ast.Continue, ast.Return))]
                    if not cond and not esc:
                        good = True
                        rep.ok("R09.3", m.file, m.qual, norm(st, 80), what + " consumed unconditionally for every element")
                    else:
                        rep.violation("R09.3", m.file, m.qual, norm(st, 80), what + " is consumed only conditionally (%s): some verdicts are skipped" % ", ".join(type(x).__name__ for x in cond + esc))
                        good = True
        if not good:
            # explicit propagation: `x = <call>` immediately followed by `if <x is not Ok>: return x`, directly in the loop body
            for fo in fors:
                if not iter_pred(fo):
                    continue
                for i, st in enumerate(fo.body):
                    if isinstance(st, ast.Assign) and len(st.targets) == 1 and isinstance(st.targets[0], ast.Name) and isinstance(st.value, ast.Call) and callee_pred(st.value) and i + 1 < len(fo.body):
                        x = st.targets[0].id
                        nx = fo.body[i + 1]
                        if isinstance(nx, ast.If) and not nx.orelse and len(nx.body) == 1 and isinstance(nx.body[0], ast.Return) and isinstance(nx.body[0].value, ast.Name) and nx.body[0].value.id == x:
                            t = norm(nx.test)
                            rejecting = t in ("not isinstance(%s, Ok)" % x, "%s.is_err()" % x, "not %s.is_ok()" % x, "isinstance(%s, Err)" % x)
                            if t in ("not isinstance(%s, Ok)" % x, "not %s.is_ok()" % x):
                                good = True
                                rep.ok("R09.3", m.file, m.qual, "%s; if %s: return %s" % (norm(st, 50), t, x), what + " returned as it is whenever it is not Ok")
                            elif rejecting:
                                good = True
                                rep.undecided("R09.3", m.file, m.qual, "%s; if %s: return %s" % (norm(st, 50), t, x), what + " is returned when it is an error; a Nothing verdict (category without population) is not propagated the way attempt() did")
            if good:
                return
            # is there a call at all whose verdict is dropped?
            dropped = [n for n in walk_local(m.node) if isinstance(n, ast.Expr) and isinstance(n.value, ast.Call) and callee_pred(n.value)]
            if dropped:
                rep.violation("R09.3", m.file, m.qual, norm(dropped[0], 80), what + " is computed and dropped (no attempt()): rejections are ignored")
            else:
                rep.undecided("R09.3", m.file, m.qual, "loop consuming " + what, "idiom not recognised")

    loop_calls_attempt(
        verify,
        lambda fo: norm(fo.iter) in ("self.categories",),
        lambda c: cg.site_of.get(id(c)) is not None and runc.qual in cg.site_of[id(c)].callees,
        "per-category verdict",
    )
    # the category loop must iterate the full list
    fors = [n for n in walk_local(verify.node) if isinstance(n, ast.For)]
    if fors and not any(norm(fo.iter) == "self.categories" for fo in fors):
        rep.violation("R09.3", verify.file, verify.qual, "for ... in %s" % norm(fors[0].iter, 60), "verify does not iterate the full category list")
    loop_calls_attempt(
        runc,
        lambda fo: True,
        lambda c: isinstance(c.func, ast.Name) and c.func.id in {x.target.id for x in walk_local(runc.node) if isinstance(x, ast.For) and isinstance(x.target, ast.Name)},
        "check verdict",
    )
    # node population: fcp.get(category).attempt()
    got = [n for n in ast.walk(runc.node) if isinstance(n, ast.For) and "get(" in norm(n.iter) and norm(n.iter).endswith(".attempt()")]
    rep.check(bool(got), "R09.3", runc.file, runc.qual, "for node in fcp.get(category).attempt()", "every node of the category is visited", "run_checks does not iterate fcp.get(category).attempt()")
    # registered list lookup uses the same category key
    chk = [n for n in ast.walk(runc.node) if isinstance(n, ast.For) and "self.checks" in norm(n.iter)]
    rep.check(bool(chk) and all("[:" not in norm(n.iter) and "[1:" not in norm(n.iter) for n in chk), "R09.3", runc.file, runc.qual, "for check in self.checks[category]", "every registered check runs", "run_checks does not iterate all checks registered for the category")
    # register appends
    apps = [n for n in walk_local(reg.node) if isinstance(n, ast.Call) and isinstance(n.func, ast.Attribute) and n.func.attr == "append" and "self.checks" in norm(n.func.value)]
    stores = [n for n in walk_local(reg.node) if isinstance(n, ast.Assign) and "self.checks" in norm(n.targets[0])]
    rep.check(len(apps) >= 2 and not stores, "R09.3", reg.file, reg.qual, "self.checks[category].append(function)", "registration accumulates", "registering a check replaces (or does not store) earlier checks")
    # decorator registers and returns f
    d = prog.functions.get("fcp.verifier.register.<locals>.decorator")
    if d is not None:
        calls = [cs for cs in cg.sites_in(d) if reg.qual in cs.callees]
        rep.check(bool(calls), "R09.3", d.file, d.qual, "verifier.register(f, category)", "decorator registers", "@register no longer registers the function")
    # escape analysis for the propagation exceptions
    xf = ExcFlow(eng, [verify.qual])
    for m in (verify, runc):
        for n in ast.walk(m.node):
            if isinstance(n, ast.Call) and isinstance(n.func, ast.Attribute) and n.func.attr == "attempt":
                for exc in (RESULT_ATTEMPT, MAYBE_ATTEMPT):
                    paths = xf.escapes(m, n, exc)
                    if paths:
                        rep.violation("R09.3", m.file, m.qual, norm(n, 70), "attempt() propagation exception escapes verify", path=paths[0])


def path_to(root: ast.AST, target: ast.AST) -> List[ast.AST]:
    """Nodes strictly between root and target on the ast path (root excluded)."""
    out: List[ast.AST] = []

    def rec(n, acc):
        if n is target:
            out.extend(acc)
            return True
        for c in ast.iter_child_nodes(n):
            if rec(c, acc + [c]):
                return True
        return False

    rec(root, [])
    return out[:-1] if out else out
