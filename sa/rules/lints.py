"""Construct-level rules that hold whatever the surrounding structure looks like.

Each function inspects one kind of construct wherever it occurs in the files a property is anchored in and reports a
violation only on positive evidence (the construct is there and is harmful by itself); anything else is silence or UNDECIDED.
They exist because restructured code (new helpers, tables, caches, records) takes the shape rules of the property modules out
of their depth: what remains decidable there are slips of recurring kinds, each visible in one construct.

  type_identity_keys    a function that turns a schema type object into a hashable key, used to index a mapping, reads every
                        field that distinguishes two type objects (name, element type, array size)
  swapped_record_args   a record (NamedTuple / dataclass) built positionally from variables named like ITS OWN fields gets each
                        of them in the position of the field of that name
  raw_lark_meta         lark's own `tree.meta` (which has no file name) is read only where the repository's located meta-data
                        is made from it
  name_kind_sinks       the argument of a by-name schema lookup (get_struct / get_enum ...) is not the `.name` of a node of
                        another kind when that node also carries the name that is meant (`impl.type`)
"""

from __future__ import annotations

import ast
from typing import Dict, Iterable, List, Optional, Set, Tuple

from ..front_py import FuncInfo, dotted, walk_local, norm

TYPE_BASE = "fcp.specs.type.Type"


def _funcs_in(eng, modules: Iterable[str]) -> List[FuncInfo]:
    ms = tuple(modules)
    return [f for f in eng.prog.functions.values() if f.module.name in ms or any(f.module.name.startswith(m + ".") for m in ms)]


def varying_fields(eng, base: str = TYPE_BASE) -> Dict[str, Set[str]]:
    """class qual -> attributes its constructor fills from a constructor parameter (what tells two objects of the class apart)"""
    prog = eng.prog
    out: Dict[str, Set[str]] = {}
    for ci in prog.subclasses(base, strict=True):
        init = prog.find_method(ci, "__init__")
        if init is None:
            continue
        ps = {p.arg for p in init.params}
        vs = set()
        for n in walk_local(init.node):
            if isinstance(n, ast.Assign) and len(n.targets) == 1 and isinstance(n.targets[0], ast.Attribute) and isinstance(n.targets[0].value, ast.Name) and n.targets[0].value.id == "self":
                if any(isinstance(x, ast.Name) and x.id in ps for x in ast.walk(n.value)):
                    vs.add(n.targets[0].attr)
        if vs:
            out[ci.qual] = vs
    return out


def _is_type_ann(eng, f: FuncInfo, ann: Optional[ast.AST]) -> bool:
    if ann is None:
        return False
    r = eng.prog.resolve_expr_symbol(f.module, f, ann) if isinstance(ann, (ast.Name, ast.Attribute)) else None
    return bool(r and r[0] == "class" and r[1] == TYPE_BASE)


def _key_uses(eng, g: FuncInfo) -> List[str]:
    """places where the result of g indexes a mapping: d[g(x)], g(x) in d, d.get(g(x)), or via a local bound to g(x)"""
    from ..dataflow import parent_map
    uses = []
    for cs in eng.cg.callers_of(g.qual):
        if cs.caller.qual == g.qual:
            continue
        pm = parent_map(cs.caller.node)
        par = pm.get(id(cs.node))
        names = set()
        if isinstance(par, ast.Assign) and len(par.targets) == 1 and isinstance(par.targets[0], ast.Name):
            names.add(par.targets[0].id)
        elif isinstance(par, ast.Subscript) and par.slice is cs.node:
            uses.append(norm(par, 50))
        elif isinstance(par, ast.Compare) and any(isinstance(o, (ast.In, ast.NotIn)) for o in par.ops) and par.left is cs.node:
            uses.append(norm(par, 50))
        elif isinstance(par, ast.Call) and isinstance(par.func, ast.Attribute) and par.func.attr in ("get", "setdefault", "pop") and par.args and par.args[0] is cs.node:
            uses.append(norm(par, 50))
        for nm in names:
            for n in walk_local(cs.caller.node):
                if isinstance(n, ast.Subscript) and isinstance(n.slice, ast.Name) and n.slice.id == nm:
                    uses.append(norm(n, 50))
                elif isinstance(n, ast.Compare) and isinstance(n.left, ast.Name) and n.left.id == nm and any(isinstance(o, (ast.In, ast.NotIn)) for o in n.ops):
                    uses.append(norm(n, 50))
    return uses


def type_identity_keys(eng, rep, rule: str, modules: Iterable[str]) -> int:
    """-> number of key functions judged"""
    prog = eng.prog
    vf = varying_fields(eng)
    need: Dict[str, List[str]] = {}
    for K, vs in vf.items():
        for a in vs:
            need.setdefault(a, []).append(K.split(".")[-1])
    n = 0
    for g in _funcs_in(eng, modules):
        ps = [p for p in g.params if p.arg not in ("self", "cls")]
        if len(ps) != 1 or not _is_type_ann(eng, g, ps[0].annotation):
            continue
        p = ps[0].arg
        rets = [r.value for r in walk_local(g.node) if isinstance(r, ast.Return) and r.value is not None]
        if not rets or not all(isinstance(r, (ast.Tuple, ast.JoinedStr, ast.Attribute)) or (isinstance(r, ast.Call) and dotted(r.func) in ("tuple", "str", "repr", "hash")) for r in rets):
            continue
        read: Set[str] = set()
        whole = False  # the object itself (repr / str / dataclass astuple) goes into the key
        for x in ast.walk(g.node):
            if isinstance(x, ast.Attribute) and isinstance(x.value, ast.Name) and x.value.id == p:
                read.add(x.attr)
            elif isinstance(x, ast.Call) and dotted(x.func) == "getattr" and len(x.args) >= 2 and isinstance(x.args[0], ast.Name) and x.args[0].id == p and isinstance(x.args[1], ast.Constant):
                read.add(str(x.args[1].value))
            elif isinstance(x, ast.Call) and dotted(x.func) in ("repr", "str", "astuple", "asdict", "dataclasses.astuple", "dataclasses.asdict", "vars", "to_dict", "to_json") and x.args and isinstance(x.args[0], ast.Name) and x.args[0].id == p:
                whole = True
            elif isinstance(x, ast.FormattedValue) and isinstance(x.value, ast.Name) and x.value.id == p:
                whole = True
        uses = _key_uses(eng, g)
        if not uses:
            continue
        n += 1
        site = "%s(%s) used as %s" % (g.name, p, uses[0])
        if whole:
            rep.undecided(rule, g.file, g.qual, site, "the key is made from the whole object's text; whether that text tells every two types apart is not decided")
            continue
        missing = sorted(a for a in need if a not in read)
        if missing:
            rep.violation(rule, g.file, g.qual, site, "the key that stands for a schema type leaves out %s (set per object by %s): two different types get the same key, and whatever the mapping holds for the first one met (size, layout, reader) is used for the other" % (", ".join("'%s'" % a for a in missing), ", ".join(sorted({k for a in missing for k in need[a]}))))
        else:
            rep.ok(rule, g.file, g.qual, site, "the key reads every distinguishing field (%s)" % ", ".join(sorted(need)))
    # the same key built in place: `k = (p.__class__, p.name, ...)` as a statement of the function body itself (so it stands for
    # ANY schema type the function is given, not for one kind already selected by a class test), with the class of the object
    # as one component, then used to index a mapping
    for g in _funcs_in(eng, modules):
        for prm in [q for q in g.params if q.arg not in ("self", "cls") and _is_type_ann(eng, g, q.annotation)]:
            p = prm.arg
            for st in getattr(g.node, "body", []):
                if not (isinstance(st, ast.Assign) and len(st.targets) == 1 and isinstance(st.targets[0], ast.Name) and isinstance(st.value, ast.Tuple)):
                    continue
                k = st.targets[0].id
                read = set()
                tagged = False
                clean = True
                for el in st.value.elts:
                    if isinstance(el, ast.Attribute) and isinstance(el.value, ast.Name) and el.value.id == p:
                        if el.attr == "__class__":
                            tagged = True
                        else:
                            read.add(el.attr)
                    elif isinstance(el, ast.Call) and dotted(el.func) == "type" and len(el.args) == 1 and isinstance(el.args[0], ast.Name) and el.args[0].id == p:
                        tagged = True
                    elif isinstance(el, ast.Call) and dotted(el.func) == "getattr" and len(el.args) >= 2 and isinstance(el.args[0], ast.Name) and el.args[0].id == p and isinstance(el.args[1], ast.Constant):
                        read.add(str(el.args[1].value))
                    else:
                        clean = False  # a component computed some other way (a recursive key, the object itself, ...): not judged
                if not (tagged and clean):
                    continue
                uses = []
                for x in walk_local(g.node):
                    if isinstance(x, ast.Subscript) and isinstance(x.slice, ast.Name) and x.slice.id == k:
                        uses.append(norm(x, 50))
                    elif isinstance(x, ast.Compare) and isinstance(x.left, ast.Name) and x.left.id == k and any(isinstance(o, (ast.In, ast.NotIn)) for o in x.ops):
                        uses.append(norm(x, 50))
                if not uses:
                    continue
                n += 1
                site = "%s = %s used as %s" % (k, norm(st.value, 60), uses[0])
                missing = sorted(a for a in need if a not in read)
                if missing:
                    rep.violation(rule, g.file, g.qual, site, "the key that stands for a schema type (its class plus %s) leaves out %s (set per object by %s): two different types get the same key, and whatever the mapping holds for the first one met (size, layout, reader) is used for the other" % (", ".join("'%s'" % a for a in sorted(read)) or "nothing", ", ".join("'%s'" % a for a in missing), ", ".join(sorted({c for a in missing for c in need[a]}))))
                else:
                    rep.ok(rule, g.file, g.qual, site, "the key reads every distinguishing field (%s)" % ", ".join(sorted(need)))
    rep.ok(rule, "-", "-", "type-identity key functions", "%d judged" % n)
    return n


def groupby_overwrite(eng, rep, rule: str, modules: Iterable[str], what: str) -> int:
    """itertools.groupby over a sequence that is not sorted by the key, whose (key, group) pairs are then stored BY KEY with
    overwrite semantics: a key that comes back later replaces its earlier group"""
    from ..dataflow import groupby_unsorted, keyed_pairs_use
    n = 0
    for f in _funcs_in(eng, modules):
        for g in groupby_unsorted(f.node):
            n += 1
            use, how = keyed_pairs_use(eng, f, g)
            if use == "overwrite":
                rep.violation(rule, f.file, f.qual, norm(g, 60), "itertools.groupby groups only ADJACENT equal keys and its input is not sorted by that key; the groups are stored by key (%s), so when a key comes back later its earlier group is replaced: %s" % (how, what))
            elif use == "merge":
                rep.ok(rule, f.file, f.qual, norm(g, 60), "groupby over an unsorted sequence, the runs of one key are merged (%s)" % how)
            else:
                rep.undecided(rule, f.file, f.qual, norm(g, 60), "groupby over an unsorted sequence; %s" % how)
    rep.ok(rule, "-", "-", "groupby calls over unsorted input", "%d judged" % n)
    return n


def _record_fields(eng, ci) -> Optional[List[str]]:
    """positional field order of a NamedTuple / dataclass-like class (class-body annotations in order), None for other classes"""
    is_nt = any((dotted(b) or "").split(".")[-1] == "NamedTuple" for b in ci.base_exprs)
    is_dc = any((dotted(d.func if isinstance(d, ast.Call) else d) or "").split(".")[-1] in ("dataclass", "serde") for d in ci.node.decorator_list)
    if not (is_nt or is_dc) or "__init__" in ci.methods:
        return None
    return list(ci.field_order) or None


def swapped_record_args(eng, rep, rule: str, modules: Iterable[str], consequence: str) -> int:
    """Rec(a, b, c) where Rec's fields are named and an argument is a variable called like ANOTHER field of Rec"""
    prog = eng.prog
    n = 0
    for f in _funcs_in(eng, modules):
        for c in walk_local(f.node):
            if not isinstance(c, ast.Call) or not c.args:
                continue
            ci = None
            if isinstance(c.func, ast.Name) and c.func.id == "cls" and f.cls is not None and f.params and f.params[0].arg == "cls":
                ci = f.cls
            elif isinstance(c.func, (ast.Name, ast.Attribute)):
                r = prog.resolve_expr_symbol(f.module, f, c.func)
                if r and r[0] == "class" and r[1] in prog.classes:
                    ci = prog.classes[r[1]]
            if ci is None:
                continue
            fields = _record_fields(eng, ci)
            if not fields:
                continue
            n += 1
            for i, a in enumerate(c.args):
                if isinstance(a, ast.Starred) or i >= len(fields):
                    break
                if isinstance(a, ast.Name) and a.id in fields and fields[i] != a.id:
                    rep.violation(rule, f.file, f.qual, norm(c, 60), "%s declares its fields as (%s); this positional construction passes the variable '%s' for the field '%s': %s" % (ci.name, ", ".join(fields), a.id, fields[i], consequence))
                    break
            else:
                rep.ok(rule, f.file, f.qual, norm(c, 60), "positional arguments agree with the declared field order of %s" % ci.name)
    rep.ok(rule, "-", "-", "positional record constructions", "%d judged" % n)
    return n


def raw_lark_meta(eng, rep, rule: str, modules: Iterable[str]) -> int:
    """`<lark tree>.meta` read outside the function that makes the repository's located meta-data from it"""
    prog = eng.prog
    n = 0
    for f in _funcs_in(eng, modules):
        trees = set()
        for p in f.params:
            ann = ast.unparse(p.annotation) if p.annotation is not None else ""
            if ann.split(".")[-1] in ("ParseTree", "Tree", "Tree[Any]", "Branch") or "ParseTree" in ann:
                trees.add(p.arg)
        if not trees:
            continue
        # the maker: every read of tree.meta here feeds a field of one constructed meta-data object that also gets a file name
        reads = [x for x in ast.walk(f.node) if isinstance(x, ast.Attribute) and x.attr == "meta" and isinstance(x.value, ast.Name) and x.value.id in trees]
        if not reads:
            continue
        n += 1
        from ..dataflow import parent_map
        pm = parent_map(f.node)
        for x in reads:
            par = pm.get(id(x))
            if isinstance(par, ast.Attribute):
                # tree.meta.line ...: a position number is read, which is what the maker does
                kw = pm.get(id(par))
                call = pm.get(id(kw)) if isinstance(kw, ast.keyword) else None
                if isinstance(call, ast.Call) and any(k.arg == "filename" for k in call.keywords):
                    rep.ok(rule, f.file, f.qual, norm(par, 40), "position number copied into located meta-data that also records the file name")
                else:
                    rep.undecided(rule, f.file, f.qual, norm(par, 40), "a position number of lark's meta is read outside a located meta-data constructor")
                continue
            rep.violation(rule, f.file, f.qual, norm(par if par is not None else x, 60), "lark's own meta object is handed on as it is: it has no `filename`, so an error raised from it cannot cite the file (the report carries a position without a file, or fails while it is rendered)")
    rep.ok(rule, "-", "-", "functions reading a lark tree's meta", "%d judged" % n)
    return n


def jinja_sort_vs_bisect(eng, rep, rule: str, files: Iterable[str]) -> int:
    """a table emitted in the order of Jinja's `sort` and searched by a C++ binary search: Jinja's sort compares strings
    case-INSENSITIVELY unless case_sensitive=true, the C++ comparison is byte-wise, so for names that differ in case the table
    is not ordered the way the search assumes"""
    import os
    import re
    prog = eng.prog
    str_attrs = set()
    for ci in prog.classes.values():
        if ci.module.name.startswith("fcp.specs"):
            for a, ann in ci.ann_fields.items():
                if ast.unparse(ann) == "str":
                    str_attrs.add(a)
    n = 0
    for rel in files:
        p = os.path.join(eng.root, rel)
        if not os.path.exists(p):
            continue
        src = open(p, encoding="utf-8", errors="replace").read()
        bis = re.search(r"std::(lower_bound|upper_bound|binary_search|equal_range)|\bbsearch\s*\(", src)
        for m in re.finditer(r"\|\s*sort\b\s*(\(([^)]*)\))?", src):
            n += 1
            args = m.group(2) or ""
            line = src.count("\n", 0, m.start()) + 1
            site = "%s (line %d)" % (m.group(0).strip()[:60], line)
            if not bis:
                rep.ok(rule, rel, "-", site, "no binary search in this file depends on the order")
                continue
            if re.search(r"case_sensitive\s*=\s*(true|True)", args):
                rep.ok(rule, rel, "-", site, "case-sensitive sort: the same order as a byte-wise comparison for ASCII identifiers")
                continue
            am = re.search(r"attribute\s*=\s*['\"]([\w\.]+)['\"]", args)
            attr = am.group(1).split(".")[-1] if am else None
            if attr is not None and attr not in str_attrs:
                rep.ok(rule, rel, "-", site, "sorted by '%s', which is not text" % attr)
            elif attr is not None:
                rep.violation(rule, rel, "-", site, "the table is emitted in the order of Jinja's sort by the text '%s' - case-insensitive by default - and searched with %s, which compares bytes: for two names that differ in case ('Zeta' < 'alpha' byte-wise, 'alpha' < 'Zeta' for Jinja) the table is not ordered as the search assumes and existing entries are not found" % (attr, bis.group(0)))
            else:
                rep.undecided(rule, rel, "-", site, "sort without an attribute next to a binary search; whether the elements are text is not decided")
    rep.ok(rule, "-", "-", "Jinja sort filters", "%d judged" % n)
    return n


NAME_SINKS = {"get_struct": ("fcp.specs.struct.Struct", "fcp.specs.type.StructType"), "get_enum": ("fcp.specs.enum.Enum", "fcp.specs.type.EnumType")}


def name_kind_sinks(eng, rep, rule: str, modules: Iterable[str], consequence: str) -> int:
    """fcp.get_struct(x.name) / get_enum(x.name) where x is a schema node of ANOTHER kind that also says which struct/enum it
    refers to (x.type): the node's own name is looked up where the name it refers to is meant.  The argument is followed through
    the parameters of helpers (two levels of callers)."""
    from ..types_lite import members
    prog, cg, T = eng.prog, eng.cg, eng.T
    n = 0

    def origins(f: FuncInfo, e: ast.AST, depth: int) -> List[Tuple[FuncInfo, ast.AST]]:
        from ..dataflow import deep_resolve
        e = deep_resolve(f.node, e)
        if isinstance(e, ast.Name) and e.id in [p.arg for p in f.params] and depth > 0:
            idx = [p.arg for p in f.params].index(e.id)
            out = []
            for cs in cg.callers_of(f.qual):
                if cs.how == "by-name":
                    continue
                off = 1 if (f.cls is not None and f.params and f.params[0].arg in ("self", "cls") and isinstance(cs.node.func, ast.Attribute)) else 0
                ai = idx - off
                arg = cs.node.args[ai] if 0 <= ai < len(cs.node.args) else next((k.value for k in cs.node.keywords if k.arg == e.id), None)
                if arg is not None and not isinstance(arg, ast.Starred):
                    out += origins(cs.caller, arg, depth - 1)
            return out
        return [(f, e)]

    for f in _funcs_in(eng, modules):
        for c in walk_local(f.node):
            if not (isinstance(c, ast.Call) and isinstance(c.func, ast.Attribute) and c.func.attr in NAME_SINKS and len(c.args) == 1):
                continue
            right = NAME_SINKS[c.func.attr]
            for g, e in origins(f, c.args[0], 2):
                if not (isinstance(e, ast.Attribute) and e.attr == "name"):
                    continue
                recv_ = e.value
                if isinstance(recv_, ast.Name):
                    recv_ = next((x for x in walk_local(g.node) if isinstance(x, ast.Name) and x.id == recv_.id), recv_)
                t = T.fn(g).of(recv_)
                insts = [u[1] for u in members(t) if u[0] == "inst"]
                if not insts and isinstance(e.value, ast.Name):
                    # a check registered for one category of nodes receives nodes of that category: @register(verifier, "impl")
                    for d in g.decorators:
                        if isinstance(d, ast.Call) and (dotted(d.func) or "").split(".")[-1] == "register" and len(d.args) >= 2 and isinstance(d.args[1], ast.Constant) and isinstance(d.args[1].value, str):
                            cat = d.args[1].value
                            ps_ = [p.arg for p in g.params]
                            if ps_ and e.value.id == ps_[-1]:
                                q = "fcp.specs.%s.%s" % (cat, "".join(w.capitalize() for w in cat.split("_")))
                                if q in prog.classes:
                                    insts = [q]
                if len(insts) != 1 or not insts[0].startswith("fcp.specs."):
                    continue
                n += 1
                K = insts[0]
                if any(prog.is_subclass(K, r) for r in right):
                    rep.ok(rule, g.file, g.qual, "%s(%s)" % (c.func.attr, norm(e, 40)), "the name of a %s" % K.split(".")[-1])
                    continue
                ci = prog.classes.get(K)
                refers = ci is not None and "type" in ci.ann_fields and ast.unparse(ci.ann_fields["type"]) == "str"
                if refers:
                    rep.violation(rule, g.file, g.qual, "%s(%s)" % (c.func.attr, norm(e, 40)), "%s() is given the %s's OWN name; the %s it refers to is its `.type`: %s" % (c.func.attr, K.split(".")[-1], c.func.attr[4:], consequence))
                else:
                    rep.undecided(rule, g.file, g.qual, "%s(%s)" % (c.func.attr, norm(e, 40)), "the name of a %s is looked up as a %s" % (K.split(".")[-1], c.func.attr[4:]))
    rep.ok(rule, "-", "-", "by-name schema lookups fed from a node's .name", "%d judged" % n)
    return n


def composite_text_keys(eng, rep, rule: str, modules: Iterable[str], consequence: str) -> int:
    """an identity key written as ONE string glued from several identifier texts with a separator that identifiers may contain
    (f"{a}_{b}", a + "_" + b, or no separator at all): ("a_b", "c") and ("a", "b_c") get the same key"""
    import re
    prog = eng.prog
    n = 0

    def glued(e: ast.AST) -> Optional[Tuple[List[ast.AST], List[str]]]:
        """-> (variable parts, separators) of a string expression glued from >= 2 variable texts"""
        if isinstance(e, ast.JoinedStr):
            parts, seps, cur = [], [], ""
            for v in e.values:
                if isinstance(v, ast.Constant):
                    cur += str(v.value)
                elif isinstance(v, ast.FormattedValue):
                    if parts:
                        seps.append(cur)
                    cur = ""
                    parts.append(v.value)
            return (parts, seps) if len(parts) >= 2 else None
        if isinstance(e, ast.BinOp) and isinstance(e.op, ast.Add):
            flat = []

            def fl(x):
                if isinstance(x, ast.BinOp) and isinstance(x.op, ast.Add):
                    fl(x.left); fl(x.right)
                else:
                    flat.append(x)
            fl(e)
            parts, seps, cur = [], [], ""
            for x in flat:
                if isinstance(x, ast.Constant) and isinstance(x.value, str):
                    cur += x.value
                else:
                    if parts:
                        seps.append(cur)
                    cur = ""
                    parts.append(x)
            if len(parts) >= 2 and any(isinstance(x, ast.Constant) for x in flat):
                return parts, seps
        return None

    def texty(f: FuncInfo, x: ast.AST) -> bool:
        # an attribute that the spec classes declare as str (a name, a protocol ...)
        if isinstance(x, ast.Call) and dotted(x.func) == "str" and x.args:
            x = x.args[0]
        if isinstance(x, ast.Attribute):
            for ci in prog.classes.values():
                if ci.module.name.startswith("fcp.specs") and x.attr in ci.ann_fields and ast.unparse(ci.ann_fields[x.attr]) == "str":
                    return True
        return False

    cands: List[Tuple[FuncInfo, ast.AST, str]] = []  # (function, returned expression, how it is known to be a key)
    for f in _funcs_in(eng, modules):
        # lambdas / functions handed over as key=...
        for c in walk_local(f.node):
            if isinstance(c, ast.Call) and (dotted(c.func) or "").split(".")[-1] not in ("sorted", "sort", "min", "max", "groupby", "nlargest", "nsmallest"):
                for k in c.keywords:
                    if k.arg == "key":
                        if isinstance(k.value, ast.Lambda):
                            cands.append((f, k.value.body, "key= of %s" % norm(c.func, 30)))
                        elif isinstance(k.value, ast.Name):
                            r = prog.resolve_name(f.module, f, k.value.id)
                            if r and r[0] == "func":
                                g = prog.functions[r[1]]
                                for rt in walk_local(g.node):
                                    if isinstance(rt, ast.Return) and rt.value is not None:
                                        cands.append((g, rt.value, "key= of %s" % norm(c.func, 30)))
        us = _key_uses(eng, f)
        if us:
            for rt in walk_local(f.node):
                if isinstance(rt, ast.Return) and rt.value is not None:
                    cands.append((f, rt.value, "used as %s" % us[0]))
    # module-level tables of records with a key= field
    for m in prog.modules.values():
        if not (m.name in tuple(modules) or any(m.name.startswith(x + ".") for x in modules)):
            continue
        for st in m.tree.body:
            if isinstance(st, (ast.Assign, ast.AnnAssign)) and st.value is not None:
                for c in ast.walk(st.value):
                    if isinstance(c, ast.Call):
                        for k in c.keywords:
                            if k.arg == "key" and isinstance(k.value, ast.Name) and k.value.id in m.functions:
                                g = m.functions[k.value.id]
                                for rt in walk_local(g.node):
                                    if isinstance(rt, ast.Return) and rt.value is not None:
                                        cands.append((g, rt.value, "key= of %s" % norm(c.func, 30)))
                            elif k.arg == "key" and isinstance(k.value, ast.Lambda):
                                pass  # judged when the table's module-level code is a function; lambdas at module level:
    seen = set()
    for f, e, how in cands:
        if id(e) in seen:
            continue
        seen.add(id(e))
        gl = glued(e)
        if gl is None:
            continue
        parts, seps = gl
        if sum(1 for x in parts if texty(f, x)) < 2:
            continue
        n += 1
        weak = [sp for sp in seps if re.fullmatch(r"[A-Za-z0-9_]*", sp)]
        if weak:
            rep.violation(rule, f.file, f.qual, norm(e, 60), "an identity key (%s) is one string glued from several identifier texts with the separator %r, which identifiers may contain: two different pairs of texts give the same key - %s" % (how, weak[0], consequence))
        else:
            rep.ok(rule, f.file, f.qual, norm(e, 60), "glued key with a separator that no identifier contains")
    rep.ok(rule, "-", "-", "identity keys glued from several texts", "%d judged" % n)
    return n


def population_through_dict(eng, rep, rule: str, modules: Iterable[str], consequence: str) -> int:
    """`d = {key(x): x for x in xs}` ... `d.values()`: the population handed on is what survives in a mapping keyed by an
    attribute of the elements; elements whose keys are equal collapse into the last one.  In the verifier nothing is known
    to be unique (uniqueness is what the checks establish), so the collapsed elements are never looked at."""
    prog = eng.prog
    n = 0
    for f in _funcs_in(eng, modules):
        for st in walk_local(f.node):
            if not isinstance(st, (ast.Assign, ast.AnnAssign)) or st.value is None:
                continue
            dc = st.value
            if not (isinstance(dc, ast.DictComp) and len(dc.generators) == 1 and isinstance(dc.generators[0].target, ast.Name) and isinstance(dc.value, ast.Name) and dc.value.id == dc.generators[0].target.id):
                continue
            if isinstance(dc.key, ast.Name) and dc.key.id == dc.value.id:
                continue
            tgt = st.targets[0] if isinstance(st, ast.Assign) else st.target
            base = tgt.value if isinstance(tgt, ast.Subscript) else tgt
            bt = norm(base)
            n += 1
            # where are the values of this mapping taken as the population?
            scope = [m.node for m in f.cls.methods.values()] if f.cls is not None and bt.startswith("self.") else [f.node]
            used = None
            for sc in scope:
                for c in ast.walk(sc):
                    if isinstance(c, ast.Call) and isinstance(c.func, ast.Attribute) and c.func.attr == "values" and not c.args:
                        r = c.func.value
                        rb = r.value if isinstance(r, ast.Subscript) else r
                        if norm(rb) == bt:
                            used = c
            if used is not None:
                rep.violation(rule, f.file, f.qual, norm(st, 70), "the elements are put into a mapping keyed by %s and read back with %s: elements with equal keys collapse into the last one - %s" % (norm(dc.key, 30), norm(used, 40), consequence))
            else:
                rep.ok(rule, f.file, f.qual, norm(st, 70), "an index for lookups; the population is not read back from it")
    rep.ok(rule, "-", "-", "identity-valued dict comprehensions", "%d judged" % n)
    return n


def short_islice(eng, rep, rule: str, modules: Iterable[str], consequence: str) -> int:
    """list(islice(G(...), n)) where G is a generator of the repository that can end by itself (its loop has a condition): the
    slice takes AT MOST n, so when G ends first the result is shorter than announced and nothing raises"""
    from ..dataflow import Defs, parent_map
    prog, cg = eng.prog, eng.cg
    n = 0
    for f in _funcs_in(eng, modules):
        defs = None
        for c in walk_local(f.node):
            if not (isinstance(c, ast.Call) and (dotted(c.func) or "").split(".")[-1] == "islice" and len(c.args) >= 2):
                continue
            src = c.args[0]
            if isinstance(src, ast.Name):
                defs = defs or Defs(f.node)
                vs = [v for k, v, st in defs.values(src.id) if v is not None]
                src = vs[0] if len(vs) == 1 else src
            if not isinstance(src, ast.Call):
                continue
            cs = cg.site_of.get(id(src))
            if not cs or len(cs.callees) != 1 or cs.callees[0] not in prog.functions:
                continue
            g = prog.functions[cs.callees[0]]
            if not any(isinstance(y, (ast.Yield, ast.YieldFrom)) for y in walk_local(g.node)):
                continue
            n += 1
            # parameters of G that this call fixes to a constant (explicitly or by default)
            consts: Dict[str, object] = {}
            gps = list(g.node.args.posonlyargs) + list(g.node.args.args)
            dflt = [None] * (len(gps) - len(g.node.args.defaults)) + list(g.node.args.defaults)
            for i_, (p_, d_) in enumerate(zip(gps, dflt)):
                a_ = src.args[i_] if i_ < len(src.args) else next((k.value for k in src.keywords if k.arg == p_.arg), d_)
                if isinstance(a_, ast.Constant):
                    consts[p_.arg] = a_.value
            stored = {x.id for x in walk_local(g.node) if isinstance(x, ast.Name) and isinstance(x.ctx, ast.Store)}

            def truth(e):
                if isinstance(e, ast.Constant):
                    return bool(e.value)
                if isinstance(e, ast.Name) and e.id in consts and e.id not in stored:
                    return bool(consts[e.id])
                if isinstance(e, ast.UnaryOp) and isinstance(e.op, ast.Not):
                    t_ = truth(e.operand)
                    return None if t_ is None else (not t_)
                if isinstance(e, ast.BoolOp):
                    ts = [truth(v) for v in e.values]
                    if isinstance(e.op, ast.Or):
                        return True if any(t_ is True for t_ in ts) else (False if all(t_ is False for t_ in ts) else None)
                    return False if any(t_ is False for t_ in ts) else (True if all(t_ is True for t_ in ts) else None)
                return None
            endless = all(isinstance(w, ast.While) and truth(w.test) is True for w in walk_local(g.node) if isinstance(w, (ast.While, ast.For))) and not any(isinstance(r, ast.Return) for r in walk_local(g.node)) and any(isinstance(w, ast.While) for w in walk_local(g.node))
            site = norm(c, 60)
            if endless:
                rep.ok(rule, f.file, f.qual, site, "the generator %s never ends by itself (its reads raise on overrun)" % g.name)
                continue
            # a length check after the slice?
            checked = False
            for st in walk_local(f.node):
                if isinstance(st, ast.If) and any(isinstance(b, ast.Raise) for b in ast.walk(st)) and any(isinstance(x, ast.Call) and dotted(x.func) == "len" for x in ast.walk(st.test)):
                    checked = True
            if checked:
                rep.undecided(rule, f.file, f.qual, site, "the slice may come out short; a length test with a raise follows, whether it covers this slice is not decided")
            else:
                rep.violation(rule, f.file, f.qual, site, "islice takes AT MOST the announced number of elements; the generator %s ends by itself when its condition fails (input used up), so the result is silently shorter than the count that was decoded: %s" % (g.name, consequence))
    rep.ok(rule, "-", "-", "count-bounded slices of repository generators", "%d judged" % n)
    return n


def stopiteration_in_map(eng, rep, rule: str, modules: Iterable[str], consequence: str) -> int:
    """map(f, ...) / filter(f, ...) where f may raise StopIteration (a bare next(it) somewhere below it): map treats that as the
    end of ITS iteration, so list(map(...)) is silently cut short instead of failing"""
    prog, cg = eng.prog, eng.cg
    fs = _funcs_in(eng, modules)

    def caught(fn_node, node) -> bool:
        # node inside a try whose handlers name StopIteration / Exception / everything
        for t in ast.walk(fn_node):
            if isinstance(t, ast.Try) and any(node is x for b in t.body for x in ast.walk(b)):
                for h in t.handlers:
                    names = [] if h.type is None else [(dotted(e) or "") for e in (h.type.elts if isinstance(h.type, ast.Tuple) else [h.type])]
                    if h.type is None or any(nm.split(".")[-1] in ("StopIteration", "Exception", "BaseException") for nm in names):
                        return True
        return False

    raising: Set[str] = set()
    for f in fs:
        for c in walk_local(f.node):
            if isinstance(c, ast.Call) and dotted(c.func) == "next" and len(c.args) == 1 and not caught(f.node, c):
                raising.add(f.qual)
    changed = True
    while changed:
        changed = False
        for f in fs:
            if f.qual in raising:
                continue
            for cs in cg.sites_in(f):
                if cs.how != "by-name" and set(cs.callees) & raising and not caught(f.node, cs.node):
                    raising.add(f.qual)
                    changed = True
                    break
    n = 0
    for f in fs:
        for c in walk_local(f.node):
            if isinstance(c, ast.Call) and isinstance(c.func, ast.Name) and c.func.id in ("map", "filter") and c.args:
                fv = c.args[0]
                q = None
                if isinstance(fv, ast.Attribute) and isinstance(fv.value, ast.Name) and fv.value.id == "self" and f.cls is not None:
                    m = prog.find_method(f.cls, fv.attr)
                    q = m.qual if m is not None else None
                elif isinstance(fv, (ast.Name, ast.Attribute)):
                    r = prog.resolve_expr_symbol(f.module, f, fv)
                    q = r[1] if r and r[0] == "func" else None
                if q is None:
                    continue
                n += 1
                if q in raising:
                    rep.violation(rule, f.file, f.qual, norm(c, 60), "%s can raise StopIteration (a bare next() below it); inside map() that ends the map quietly, so the result is cut short instead of failing: %s" % (q.split(".")[-1], consequence))
                else:
                    rep.ok(rule, f.file, f.qual, norm(c, 60), "the mapped function raises no StopIteration")
    rep.ok(rule, "-", "-", "map()/filter() over repository functions", "%d judged" % n)
    return n


def grow_only_cycle_guard(eng, rep, rule: str, modules: Iterable[str], consequence: str) -> int:
    """a work-list walk that rejects ("contains itself" / error) whatever it meets a SECOND time, remembering everything it met in
    a set that only grows: meeting something twice is not a cycle - two siblings may refer to the same thing (a diamond).  A cycle
    guard has to forget an element when the walk leaves it (path, not history)."""
    n = 0
    for f in _funcs_in(eng, modules):
        sets = set()
        for st in walk_local(f.node):
            if isinstance(st, ast.Assign) and len(st.targets) == 1 and isinstance(st.targets[0], ast.Name):
                v = st.value
                if isinstance(v, (ast.Set, ast.SetComp)) or (isinstance(v, ast.Call) and dotted(v.func) == "set"):
                    sets.add(st.targets[0].id)
        for S in sorted(sets):
            rebinds = sum(1 for st in walk_local(f.node) if isinstance(st, (ast.Assign, ast.AugAssign)) and any(isinstance(t, ast.Name) and t.id == S for t in (st.targets if isinstance(st, ast.Assign) else [st.target])))
            shrinks = [c for c in walk_local(f.node) if isinstance(c, ast.Call) and isinstance(c.func, ast.Attribute) and isinstance(c.func.value, ast.Name) and c.func.value.id == S and c.func.attr in ("remove", "discard", "pop", "clear", "difference_update")]
            for w in walk_local(f.node):
                if not isinstance(w, ast.While):
                    continue
                adds = [c for c in ast.walk(w) if isinstance(c, ast.Call) and isinstance(c.func, ast.Attribute) and isinstance(c.func.value, ast.Name) and c.func.value.id == S and c.func.attr == "add"]
                guards = []
                for st in ast.walk(w):
                    if isinstance(st, ast.If) and isinstance(st.test, ast.Compare) and len(st.test.ops) == 1 and isinstance(st.test.ops[0], ast.In) and isinstance(st.test.comparators[0], ast.Name) and st.test.comparators[0].id == S:
                        rejects = any(isinstance(b, ast.Raise) or (isinstance(b, ast.Return) and isinstance(b.value, ast.Call) and (dotted(b.value.func) or "").split(".")[-1] in ("error", "Error", "Err")) for b in st.body)
                        if rejects:
                            guards.append(st)
                if not adds or not guards:
                    continue
                n += 1
                same = any(norm(a.args[0]) == norm(g_.test.left) for a in adds for g_ in guards if a.args)
                if same and not shrinks and rebinds == 1:
                    rep.violation(rule, f.file, f.qual, "if %s: reject ... %s" % (norm(guards[0].test, 40), norm(adds[0], 40)), "the walk rejects anything it meets a second time and never forgets what it has met: something referred to from two places (a struct used by two fields) is reported as a cycle - %s" % consequence)
                else:
                    rep.ok(rule, f.file, f.qual, "if %s: reject" % norm(guards[0].test, 40), "the set of met elements also shrinks (a path, not a history)")
    rep.ok(rule, "-", "-", "reject-on-revisit guards in work-list walks", "%d judged" % n)
    return n


def scratch_by_suffix(eng, rep, rule: str, modules: Iterable[str]) -> int:
    """a scratch file named target.with_suffix(".x"): with_suffix REPLACES the extension, so the scratch of `fcp.h` is `fcp.x` -
    a file name of its own in the output directory, which is then written, renamed or removed although no generator returned it"""
    from ..dataflow import Defs
    n = 0
    for f in _funcs_in(eng, modules):
        defs = None
        for c in walk_local(f.node):
            if not (isinstance(c, ast.Call) and isinstance(c.func, ast.Attribute) and c.func.attr == "with_suffix" and c.args):
                continue
            # the local it is bound to
            from ..dataflow import parent_map
            pm = parent_map(f.node)
            par = pm.get(id(c))
            nm = par.targets[0].id if isinstance(par, ast.Assign) and len(par.targets) == 1 and isinstance(par.targets[0], ast.Name) else None
            uses = []
            for x in walk_local(f.node):
                if not isinstance(x, ast.Call):
                    continue
                d = dotted(x.func) or ""
                args = list(x.args) + [k.value for k in x.keywords]
                names_arg = any((isinstance(a, ast.Name) and a.id == nm) or a is c for a in args)
                recv = x.func.value if isinstance(x.func, ast.Attribute) else None
                on_it = recv is not None and ((isinstance(recv, ast.Name) and recv.id == nm) or recv is c)
                if d.split(".")[-1] in ("replace", "rename", "remove", "unlink", "move") and (names_arg or on_it):
                    uses.append(norm(x, 50))
                elif d == "open" and names_arg and len(x.args) > 1 and isinstance(x.args[1], ast.Constant) and any(m in str(x.args[1].value) for m in "wax"):
                    uses.append(norm(x, 50))
                elif on_it and x.func.attr in ("open", "write_text", "write_bytes", "touch"):
                    uses.append(norm(x, 50))
                elif names_arg and cg_writes(eng, f, x):
                    uses.append(norm(x, 50))
            n += 1
            if uses:
                rep.violation(rule, f.file, f.qual, norm(c, 50), "the scratch file is named by REPLACING the target's extension (%s) and is then written / renamed / removed (%s): a file of that name that was already in the output directory - one that no generator returned - is overwritten and lost" % (norm(c, 40), uses[0]))
            else:
                rep.ok(rule, f.file, f.qual, norm(c, 50), "not used as a file that is written, renamed or removed here")
    rep.ok(rule, "-", "-", "paths derived with with_suffix in the writer", "%d judged" % n)
    return n


def cg_writes(eng, f: FuncInfo, call: ast.Call) -> bool:
    """the call goes to a repository function that opens its first path parameter for writing"""
    cs = eng.cg.site_of.get(id(call))
    if not cs or len(cs.callees) != 1 or cs.callees[0] not in eng.prog.functions:
        return False
    g = eng.prog.functions[cs.callees[0]]
    for x in walk_local(g.node):
        if isinstance(x, ast.Call) and (dotted(x.func) or "") == "open" and len(x.args) > 1 and isinstance(x.args[1], ast.Constant) and any(m in str(x.args[1].value) for m in "wax"):
            return True
        if isinstance(x, ast.Call) and isinstance(x.func, ast.Attribute) and x.func.attr in ("write_text", "write_bytes"):
            return True
    return False


def named_after_referent(eng, rep, rule: str, modules: Iterable[str], consequence: str) -> int:
    """Rec(name=<binding>.type ...): something that stands for a BINDING (an impl) is given, as its own name, the name of the
    struct the binding refers to; the binding has a name of its own (`impl can for S as N`), and two bindings of one struct
    then carry the same name"""
    from ..dataflow import deep_resolve
    from ..types_lite import members
    prog, T = eng.prog, eng.T
    n = 0
    for f in _funcs_in(eng, modules):
        ft = None
        for c in walk_local(f.node):
            if not isinstance(c, ast.Call):
                continue
            for k in c.keywords:
                if k.arg != "name":
                    continue
                v = deep_resolve(f.node, k.value)
                if not (isinstance(v, ast.Attribute) and v.attr in ("type", "name")):
                    continue
                ft = ft or T.fn(f)
                recv = v.value
                if isinstance(recv, ast.Name):
                    # deep_resolve returns copies: ask for the type of an original occurrence of the name
                    recv = next((x for x in walk_local(f.node) if isinstance(x, ast.Name) and x.id == recv.id), recv)
                insts = [u[1] for u in members(ft.of(recv)) if u[0] == "inst"]
                if insts != ["fcp.specs.impl.Impl"]:
                    continue
                n += 1
                if v.attr == "type":
                    rep.violation(rule, f.file, f.qual, norm(c.func, 30) + "(name=%s)" % norm(k.value, 30), "named after the struct the binding refers to (%s) instead of the binding's own name: %s" % (norm(v, 30), consequence))
                else:
                    rep.ok(rule, f.file, f.qual, norm(c.func, 30) + "(name=%s)" % norm(k.value, 30), "the binding's own name")
    rep.ok(rule, "-", "-", "things named from an impl", "%d judged" % n)
    return n


def fold_step_drops_accumulator(eng, rep, rule: str, modules: Iterable[str], consequence: str) -> int:
    """a table of steps `lambda acc, ...: <new acc>` (applied as acc = TABLE[k](acc, ...)): a step whose result does not mention
    its first parameter throws away what the earlier steps put there, while its siblings carry it on"""
    prog = eng.prog
    n = 0
    for m in prog.modules.values():
        if not (m.name in tuple(modules) or any(m.name.startswith(x + ".") for x in modules)):
            continue
        tables = []  # (name, Dict node, where)
        for st in m.tree.body:
            if isinstance(st, (ast.Assign, ast.AnnAssign)) and isinstance(st.value, ast.Dict):
                t = st.targets[0] if isinstance(st, ast.Assign) else st.target
                if isinstance(t, ast.Name):
                    tables.append((t.id, st.value, None))
        for f in m.functions.values():
            for st in walk_local(f.node):
                if isinstance(st, (ast.Assign, ast.AnnAssign)) and isinstance(st.value, ast.Dict):
                    t = st.targets[0] if isinstance(st, ast.Assign) else st.target
                    if isinstance(t, ast.Name):
                        tables.append((t.id, st.value, f))
        # a table written (or propagated by the normaliser) right where it is applied: {...}[k](acc, ...)
        for f in list(m.functions.values()) + [mm for ci in m.classes.values() for mm in ci.methods.values()]:
            for c in walk_local(f.node):
                if isinstance(c, ast.Call) and isinstance(c.func, ast.Subscript) and isinstance(c.func.value, ast.Dict) and c.args:
                    tables.append((None, c.func.value, f))
        for name, d, where in tables:
            lams = [(k, v) for k, v in zip(d.keys, d.values) if isinstance(v, ast.Lambda) and len(v.args.args) >= 2]
            if len(lams) < 2 or len(lams) != len(d.values):
                continue
            # applied with an accumulator: NAME[...](x, ...) somewhere in the module
            applied = name is None or any(isinstance(c, ast.Call) and isinstance(c.func, ast.Subscript) and isinstance(c.func.value, ast.Name) and c.func.value.id == name and c.args for c in ast.walk(m.tree))
            name = name or "{...}"
            if not applied:
                continue
            uses = {id(v): any(isinstance(x, ast.Name) and x.id == v.args.args[0].arg for x in ast.walk(v.body)) for k, v in lams}
            if not any(uses.values()):
                continue
            n += 1
            for k, v in lams:
                site = "%s[%s] = %s" % (name, norm(k, 20), norm(v, 60))
                file_ = m.relpath
                qual_ = where.qual if where is not None else m.name
                if uses[id(v)]:
                    rep.ok(rule, file_, qual_, site, "the step builds on what it receives")
                else:
                    rep.violation(rule, file_, qual_, site, "this step returns a value that does not depend on the accumulated one ('%s') while the other steps of the table carry it on: whatever the earlier steps set is dropped - %s" % (v.args.args[0].arg, consequence))
    rep.ok(rule, "-", "-", "tables of fold steps", "%d judged" % n)
    return n


def mixed_worklist_ends(eng, rep, rule: str, modules: Iterable[str], consequence: str) -> int:
    """a work-list loop that takes from one end of a deque and puts new work back at that same end everywhere (depth first: what a
    node expands to is handled before its siblings) - except one place that puts it at the OTHER end, deferring it behind
    everything still pending.  The places contradict each other; the emission order of that branch differs from the others'."""
    n = 0
    for f in _funcs_in(eng, modules):
        for w in walk_local(f.node):
            if not isinstance(w, ast.While):
                continue
            pops = {}
            for c in ast.walk(w):
                if isinstance(c, ast.Call) and isinstance(c.func, ast.Attribute) and isinstance(c.func.value, ast.Name) and c.func.attr in ("popleft", "pop") and not c.args:
                    pops.setdefault(c.func.value.id, set()).add("left" if c.func.attr == "popleft" else "right")
            for D, ends in pops.items():
                if len(ends) != 1:
                    continue
                take = next(iter(ends))
                pushes = [c for c in ast.walk(w) if isinstance(c, ast.Call) and isinstance(c.func, ast.Attribute) and isinstance(c.func.value, ast.Name) and c.func.value.id == D and c.func.attr in ("append", "extend", "appendleft", "extendleft")]
                if len(pushes) < 2:
                    continue
                same = [c for c in pushes if (c.func.attr.endswith("left")) == (take == "left")]
                other = [c for c in pushes if c not in same]
                if not any(c.func.attr in ("appendleft", "extendleft") for c in pushes):
                    continue  # a plain list used as a stack or queue: nothing to contradict
                n += 1
                if same and other and len(same) > len(other):
                    for c in other:
                        rep.violation(rule, f.file, f.qual, norm(c, 60), "the loop takes work from the %s of '%s' and puts expansions back at the %s in %d places, but here at the other end: this piece is handled after everything that is still pending instead of right away - %s" % (take, D, take, len(same), consequence))
                else:
                    rep.ok(rule, f.file, f.qual, "%s in a work-list loop" % D, "expansions are all put back at one end")
    rep.ok(rule, "-", "-", "deque work-list loops", "%d judged" % n)
    return n


def dotted_text_as_path_component(eng, rep, rule: str, modules: Iterable[str], consequence: str) -> int:
    """a text made with ".".join(...) (a dotted package name) used as ONE component of a path (dir / text, os.path.join(dir, text),
    dir.joinpath(text)): the dots are not directory separators, so `a.b` is looked up as a directory literally called "a.b" """
    from ..dataflow import Defs
    prog = eng.prog
    n = 0

    def is_dotjoin(e) -> bool:
        return isinstance(e, ast.Call) and isinstance(e.func, ast.Attribute) and e.func.attr == "join" and isinstance(e.func.value, ast.Constant) and e.func.value.value == "."

    fs = _funcs_in(eng, modules)
    # record fields that are filled with such a text
    dotted_fields: Set[str] = set()
    for f in fs:
        for c in walk_local(f.node):
            if not isinstance(c, ast.Call):
                continue
            ci = None
            if isinstance(c.func, ast.Name) and c.func.id == "cls" and f.cls is not None:
                ci = f.cls
            elif isinstance(c.func, (ast.Name, ast.Attribute)):
                r = prog.resolve_expr_symbol(f.module, f, c.func)
                if r and r[0] == "class" and r[1] in prog.classes:
                    ci = prog.classes[r[1]]
            if ci is None:
                continue
            fields = _record_fields(eng, ci) or []
            for i, a in enumerate(c.args):
                if is_dotjoin(a) and i < len(fields):
                    dotted_fields.add(fields[i])
            for k in c.keywords:
                if k.arg and is_dotjoin(k.value):
                    dotted_fields.add(k.arg)
    for f in fs:
        defs = None
        local_dotted = set()
        for st in walk_local(f.node):
            if isinstance(st, ast.Assign) and len(st.targets) == 1 and isinstance(st.targets[0], ast.Name) and is_dotjoin(st.value):
                local_dotted.add(st.targets[0].id)

        def dotted_operand(e) -> Optional[str]:
            if is_dotjoin(e):
                return norm(e, 30)
            if isinstance(e, ast.Name) and e.id in local_dotted:
                return e.id
            if isinstance(e, ast.Attribute) and e.attr in dotted_fields:
                return norm(e, 30)
            return None
        for x in walk_local(f.node):
            comps = []
            if isinstance(x, ast.BinOp) and isinstance(x.op, ast.Div):
                comps = [x.left, x.right]
            elif isinstance(x, ast.Call) and ((dotted(x.func) or "").endswith("path.join") or (isinstance(x.func, ast.Attribute) and x.func.attr == "joinpath")):
                comps = [a for a in x.args if not isinstance(a, ast.Starred)]
            hits = [h for h in (dotted_operand(c_) for c_ in comps) if h]
            if comps and (hits or any(isinstance(c_, ast.Attribute) and c_.attr in dotted_fields for c_ in comps)):
                n += 1
            if hits:
                rep.violation(rule, f.file, f.qual, norm(x, 60), "'%s' is a dotted name (made with \".\".join) and is used as one path component: %s" % (hits[0], consequence))
    rep.ok(rule, "-", "-", "dotted names used in path joins", "%d judged" % n)
    return n


def stale_derived_field(eng, rep, rule: str, modules: Iterable[str], consequence: str) -> int:
    """dataclasses.replace(obj, F=new) on a dataclass whose __post_init__ derives field D from F only while D is still unset
    (`if self.D is None: self.D = g(self.F)`): replace() hands the OLD D to the constructor, the condition is false, and the
    copy keeps a D that belongs to the old F"""
    from ..types_lite import members
    prog, T = eng.prog, eng.T
    derived: Dict[str, List[Tuple[str, Set[str]]]] = {}  # class qual -> [(D, {F...})]
    for ci in prog.classes.values():
        pi = ci.methods.get("__post_init__")
        if pi is None:
            continue
        for st in walk_local(pi.node):
            if isinstance(st, ast.If) and isinstance(st.test, ast.Compare) and len(st.test.ops) == 1 and isinstance(st.test.ops[0], ast.Is) and isinstance(st.test.comparators[0], ast.Constant) and st.test.comparators[0].value is None and isinstance(st.test.left, ast.Attribute) and isinstance(st.test.left.value, ast.Name) and st.test.left.value.id == "self":
                D = st.test.left.attr
                for b in st.body:
                    if isinstance(b, ast.Assign) and len(b.targets) == 1 and norm(b.targets[0]) == "self." + D:
                        Fs = {x.attr for x in ast.walk(b.value) if isinstance(x, ast.Attribute) and isinstance(x.value, ast.Name) and x.value.id == "self" and x.attr != D and x.attr in ci.ann_fields}
                        if Fs:
                            derived.setdefault(ci.qual, []).append((D, Fs))
    n = 0
    for f in _funcs_in(eng, modules):
        ft = None
        for c in walk_local(f.node):
            if not (isinstance(c, ast.Call) and (dotted(c.func) or "").split(".")[-1] == "replace" and c.args and (dotted(c.func) or "") in ("replace", "dataclasses.replace")):
                continue
            obj = c.args[0]
            K = None
            if isinstance(obj, ast.Name) and obj.id == "self" and f.cls is not None:
                K = f.cls.qual
            else:
                ft = ft or T.fn(f)
                insts = [u[1] for u in members(ft.of(obj)) if u[0] == "inst"]
                K = insts[0] if len(insts) == 1 else None
            if K not in derived:
                continue
            n += 1
            kws = {k.arg for k in c.keywords if k.arg}
            bad = [(D, Fs) for D, Fs in derived[K] if (Fs & kws) and D not in kws]
            if bad:
                D, Fs = bad[0]
                rep.violation(rule, f.file, f.qual, norm(c, 70), "%s.__post_init__ works out '%s' from '%s' only while '%s' is None; replace() passes the old '%s' along with the new '%s', so the copy keeps the '%s' of the object it was copied from: %s" % (K.split(".")[-1], D, "', '".join(sorted(Fs & kws)), D, D, "', '".join(sorted(Fs & kws)), D, consequence))
            else:
                rep.ok(rule, f.file, f.qual, norm(c, 70), "derived fields are reset or not affected")
    rep.ok(rule, "-", "-", "dataclasses.replace on classes with conditionally derived fields", "%d judged" % n)
    return n


# facts about lark (third-party, not in the repository): classes whose `line` / `column` are the sentinel -1
LARK_NO_POSITION = {"UnexpectedEOF"}
LARK_COVERS_EOF = {"UnexpectedInput", "LarkError", "ParseError", "Exception", "BaseException"} | LARK_NO_POSITION


def lark_sentinel_position(eng, rep, rule: str, modules: Iterable[str]) -> int:
    """a line/column read from a lark exception that can be UnexpectedEOF (whose line and column are -1) and turned into a
    position without ever being compared with anything: the error then cites line -1"""
    n = 0
    for f in _funcs_in(eng, modules):
        # variables that hold such an exception: except-handler names and annotated parameters
        holders: List[Tuple[str, str, List[ast.AST]]] = []   # (variable, class, scope in which it holds the exception)
        for p in f.params:
            ann = ast.unparse(p.annotation).split(".")[-1] if p.annotation is not None else ""
            if ann in LARK_COVERS_EOF and ann not in ("Exception", "BaseException"):
                holders.append((p.arg, ann, list(f.node.body)))
        for h in walk_local(f.node):
            if isinstance(h, ast.ExceptHandler) and h.name and h.type is not None:
                names = [(dotted(e) or "").split(".")[-1] for e in (h.type.elts if isinstance(h.type, ast.Tuple) else [h.type])]
                cov = [nm for nm in names if nm in LARK_COVERS_EOF and nm not in ("Exception", "BaseException")]
                if cov:
                    holders.append((h.name, cov[0], list(h.body)))
        if not holders:
            continue
        for v, cls, scope in holders:
            nodes = [x for b in scope for x in ast.walk(b)]
            reads = []
            for st in nodes:
                if isinstance(st, ast.Attribute) and st.attr in ("line", "column") and isinstance(st.value, ast.Name) and st.value.id == v:
                    reads.append(st)
                elif isinstance(st, ast.Call) and dotted(st.func) == "getattr" and len(st.args) >= 2 and isinstance(st.args[0], ast.Name) and st.args[0].id == v and isinstance(st.args[1], ast.Constant) and st.args[1].value in ("line", "column"):
                    reads.append(st)
            if not reads:
                continue
            n += 1
            bound = set()
            for st in nodes:
                if isinstance(st, ast.Assign) and len(st.targets) == 1 and isinstance(st.targets[0], ast.Name) and any(st.value is r for r in reads):
                    bound.add(st.targets[0].id)
            # any ordering / equality test on the value, or a class test that sets EOF apart
            tested = False
            for c in nodes:
                if isinstance(c, ast.Compare) and any(isinstance(o, (ast.Lt, ast.LtE, ast.Gt, ast.GtE, ast.Eq, ast.NotEq)) for o in c.ops):
                    sides = [c.left] + list(c.comparators)
                    if any((isinstance(s_, ast.Name) and s_.id in bound) or any(s_ is r or any(x is r for x in ast.walk(s_)) for r in reads) for s_ in sides):
                        tested = True
                if isinstance(c, ast.Call) and dotted(c.func) == "isinstance" and len(c.args) == 2 and isinstance(c.args[0], ast.Name) and c.args[0].id == v:
                    tested = True
            site = "%s.line / .column (%s)" % (v, cls)
            if tested:
                rep.ok(rule, f.file, f.qual, site, "the position is compared / the exception class is tested before use")
            else:
                rep.violation(rule, f.file, f.qual, site, "'%s' can be lark's UnexpectedEOF, whose line and column are the sentinel -1; they are turned into a position without any test, so a truncated file is reported at line -1 (and showing that line fails or shows an unrelated one)" % v)
    rep.ok(rule, "-", "-", "positions read from lark exceptions that may be UnexpectedEOF", "%d judged" % n)
    return n


def wraparound_off_by_one(eng, rep, rule: str, dirs: Iterable[str]) -> int:
    """(UINT32_MAX - a) + b written for the distance from a to b across a counter wrap: the modular distance is
    (UINT32_MAX - a) + 1 + b (the step from the maximum to 0 counts), so the expression is one short"""
    import os
    import re
    n = 0
    pat = re.compile(r"\(\s*(UINT(?:8|16|32|64)_MAX|0[xX][fF]{2,16}[uUlL]*)\s*-\s*([A-Za-z_]\w*)\s*\)\s*\+\s*([^;\n]+);")
    for d in dirs:
        dd = os.path.join(eng.root, d)
        if not os.path.isdir(dd):
            continue
        for fn in sorted(os.listdir(dd)):
            if not fn.endswith((".h", ".c", ".jinja", ".j2", ".cpp", ".hpp")):
                continue
            src = open(os.path.join(dd, fn), encoding="utf-8", errors="replace").read()
            for m in pat.finditer(src):
                n += 1
                rest = m.group(3)
                line = src.count("\n", 0, m.start()) + 1
                site = "%s (line %d)" % (" ".join(m.group(0).split())[:70], line)
                plus_one = re.search(r"(^|\+)\s*1[uUlL]*\s*(\+|$)", rest.strip())
                if plus_one:
                    rep.ok(rule, os.path.join(d, fn), "-", site, "the step from the maximum to 0 is counted")
                else:
                    rep.violation(rule, os.path.join(d, fn), "-", site, "the distance across a wrap of the counter is (%s - %s) + 1 + ...: without the + 1 the elapsed time after a timer wrap is one tick short, so a message that is exactly due is held back (or the same-tick guard misfires)" % (m.group(1), m.group(2)))
    rep.ok(rule, "-", "-", "hand-written wrap-around distances", "%d judged" % n)
    return n
